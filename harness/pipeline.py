"""End-to-end correspondence through the public API: PageTemplate(src, **cfg)(**bindings) on the
implementation versus `op:"render"` on the model, canonicalised and compared."""
import re

import canon
import core
import talgen


def run_impl(case, cfg=None, cls=None):
    """-> canonical outcome of the real engine on one case"""
    from chameleon import PageTemplate
    from chameleon.exc import TemplateError
    rec = talgen.Recorder()
    tab = case.get('objs', [])
    kw = {}
    # other templates passed in as variables ({'template': k}): built with the default configuration
    try:
        talgen.CURRENT_LIBS[:] = [PageTemplate(src) for src in case.get('libs', [])]
        for lt in talgen.CURRENT_LIBS:
            lt.cook_check()
    except Exception as e:
        return {'exc': 'other', 'cls': 'library: ' + type(e).__name__}
    for k, v in case['vars']:
        kw[k] = talgen.pyval(v, tab, rec)
    handled = []
    config = dict(cfg or {})
    config.update(case.get('cfg', {}))
    text_mode = config.pop('text_mode', False)
    if text_mode:
        from chameleon import PageTextTemplate
        cls = PageTextTemplate
    if 'boolean_attributes' in config:
        config['boolean_attributes'] = set(config['boolean_attributes'])
    if 'implicit_i18n_attributes' in config:
        config['implicit_i18n_attributes'] = set(config['implicit_i18n_attributes'])
    config.setdefault('on_error_handler', lambda e: handled.append(type(e).__name__))
    tlog = []
    if case.get('translate') == 'record':
        from chameleon.i18n import simple_translate

        def translate(msgid, domain=None, mapping=None, context=None, target_language=None, default=None):
            # a message of the template (a plain str), or an inserted value that is not a string, a number or an __html__
            # object, offered by __convert/__quote before it is converted ('offered')
            tlog.append({'msgid': str(msgid), 'mapping': None if mapping is None else {k: str(v) for k, v in mapping.items()},
                         'default': None if default is None else str(default), 'domain': domain, 'context': context,
                         'target': target_language, 'offered': type(msgid) is not str})
            return simple_translate(msgid, domain=domain, mapping=mapping, context=context, target_language=target_language, default=default)
        config['translate'] = translate
    body = bytes(case['src']) if case.get('bytes') else case['src']
    try:
        t = (cls or PageTemplate)(body, **config)
    except TemplateError as e:
        r = canon.canon_exc(e)
        line, col = e.token.location if hasattr(e.token, 'location') else (0, 0)
        r['line'], r['col'] = line, col
        return r
    except RecursionError:
        return {'exc': 'other', 'cls': 'RecursionError'}
    except Exception as e:
        return {'exc': 'other', 'cls': type(e).__name__}
    try:
        out = t(**kw)
    except RecursionError:
        return {'exc': 'other', 'cls': 'RecursionError'}
    except BaseException as e:
        if isinstance(e, (KeyboardInterrupt, SystemExit)) and not isinstance(e, Exception):
            return {'exc': 'render', 'cls': type(e).__name__, 'base_exception': True, 'msg': exc_msg(e),
                    'errors': parse_errors(str(e)), 'log': rec.log, 'tlog': tlog, 'is_render_error': is_render_error(e)}
        return {'exc': 'render', 'cls': type(e).__name__, 'msg': exc_msg(e), 'errors': parse_errors(str(e)),
                'log': rec.log, 'tlog': tlog, 'is_render_error': is_render_error(e)}
    return {'out': out, 'log': rec.log, 'tlog': tlog, 'handled': len(handled)}


def is_render_error(e):
    from chameleon.exc import RenderError
    return isinstance(e, RenderError)


def exc_msg(e):
    if e.args and len(e.args) >= 1:
        return str(e.args[0])
    return ''


ERR_RE = re.compile(r' - Expression: "(.*?)"\n - Filename:   (.*?)\n - Location:   \(line (\d+): col (\d+)\)', re.S)


def parse_errors(text):
    return [[m.group(1), int(m.group(3)), int(m.group(4))] for m in ERR_RE.finditer(text)]


def model_req(case, cfg=None, quirks=None, rx=None):
    c = dict(cfg or {})
    c.update(case.get('cfg', {}))
    r = {'op': 'renderb' if case.get('bytes') else 'render', 'src': case['src'], 'vars': case['vars'], 'objs': case.get('objs', []), 'cfg': c,
         'pyoracle': case.get('pyoracle', []), 'libs': case.get('libs', [])}
    if quirks:
        r['q'] = quirks
    if rx:
        r['rx'] = rx
    return r


def compare(model, impl, with_log=True, with_tlog=False):
    """-> None if the model's outcome equals the implementation's, else a short description"""
    m = model.get('ok') if 'ok' in model else None
    if m is None:
        return 'model error: %r' % (model,)
    if 'unsupported' in m:
        return None
    if 'out' in impl:
        if 'out' not in m:
            return 'impl rendered, model: %s' % short(m)
        if m['out'] != impl['out']:
            return 'output differs'
        if with_log and m.get('log') != impl.get('log'):
            return 'evaluation log differs'
        if with_tlog and m.get('tlog') != impl.get('tlog'):
            return 'translation call log differs'
        if m.get('handled') != impl.get('handled'):
            return 'on_error_handler call count differs'
        return None
    if impl.get('exc') == 'TemplateError':
        if m.get('exc') != 'TemplateError':
            return 'impl TemplateError, model: %s' % short(m)
        for k in ('cls', 'token', 'offset', 'line', 'col'):
            if m.get(k) != impl.get(k):
                return 'TemplateError field %s differs' % k
        if m.get('msg') not in ('?', impl.get('msg')):
            return 'TemplateError message differs'
        return None
    if impl.get('exc') == 'render':
        if m.get('exc') != 'render':
            return 'impl raised at render, model: %s' % short(m)
        if m.get('cls') != impl.get('cls'):
            return 'exception class differs'
        if m.get('msg') and m.get('msg') != impl.get('msg'):
            return 'exception message differs'
        if m.get('errors') != impl.get('errors'):
            return 'error records (expression, line, col) differ'
        if with_log and m.get('log') != impl.get('log'):
            return 'evaluation log differs'
        return None
    if impl.get('exc') == 'other':
        if m.get('exc') != 'other' or m.get('cls') != impl.get('cls'):
            return 'impl crashed with %s, model: %s' % (impl.get('cls'), short(m))
        return None
    return 'unknown implementation outcome'


def short(m):
    return str({k: v for k, v in m.items() if k in ('out', 'exc', 'cls', 'msg', 'token', 'offset', 'unsupported')})[:200]


_POOL = None


def _impl_worker(args):
    case, cfg = args
    import warnings
    warnings.filterwarnings('ignore', category=SyntaxWarning)
    try:
        return core.limited(run_impl, case, cfg, seconds=20)
    except core.ImplTimeout:
        return {'impl_timeout': True}


def _close_pool():
    global _POOL
    if _POOL is not None:
        try:
            _POOL.terminate()
            _POOL.join()
        except Exception:
            pass
        _POOL = None


def impl_many(cases, cfg=None):
    """run the implementation on many cases in worker processes (each case is independent)"""
    global _POOL
    if len(cases) < 64:
        return [_impl_worker((c, cfg)) for c in cases]
    import multiprocessing
    if _POOL is None:
        _POOL = multiprocessing.get_context('fork').Pool(min(14, multiprocessing.cpu_count()))
        import atexit
        atexit.register(_close_pool)
    return _POOL.map(_impl_worker, [(c, cfg) for c in cases], chunksize=32)


def run_cases(ctx, cases, cfg=None, what='render', with_tlog=False):
    """model vs implementation on a list of cases; returns list of (case, model, impl) actually compared"""
    reqs = [model_req(c, cfg) for c in cases]
    outs = core.par_batch(reqs)
    impls = impl_many(cases, cfg)
    compared = []
    for c, o, impl in zip(cases, outs, impls):
        if o.get('timeout'):
            ctx.count('model_timeouts')
            continue
        if impl.get('impl_timeout'):
            ctx.count('impl_timeouts')
            continue
        m = o.get('ok', {})
        if isinstance(m, dict) and 'unsupported' in m:
            ctx.count('model_unsupported')
            k = 'unsupported: ' + m['unsupported'][:60]
            ctx.cov.setdefault('unsupported_reasons', {})
            ctx.cov['unsupported_reasons'][k] = ctx.cov['unsupported_reasons'].get(k, 0) + 1
            compared.append((c, None, impl))
            continue
        d = compare(o, impl, with_tlog=with_tlog)
        ctx.count('correspondence_cases')
        if d:
            ctx.disagree('%s: %s' % (what, d), {'src': c['src'], 'vars': c['vars'], 'objs': c.get('objs'), 'cfg': c.get('cfg'), 'libs': c.get('libs', [])},
                         model=o.get('ok', o), impl=impl)
        compared.append((c, m, impl))
    return compared

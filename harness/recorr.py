"""Differential test of the Lean regex semantics (ChamVerif/Re.lean on Gen.<NAME>) against
CPython's `re` on the live compiled patterns of /repo.  Every group span is compared."""
from __future__ import annotations

import itertools

import core
import extract

ALPH = list('<>/!-?[]ab =\'"&;\n${}CDATA:x1#.\\|\t') + ['é', '\xa0', 'Z', 'e', 'n', 't', 'r', 'l', 'g', '0', '_', 'm', 'p']

FNS = {
    'XML_SPE': ['finditer', 'match'], 'SINGLE_ATTR': ['finditer'], 'PIPE_SPLIT': ['finditer'],
    'ENTITY_RE': ['search', 'finditer'], 'ENTITY2_RE': ['finditer'], 'BRACES_REQ': ['search'],
    'BRACES_OPT': ['search'], 'RE_META': ['search'], 'RE_ENCODING': ['search'], 'DOUBLE_HYPHEN': ['search'],
    'CONTINUATION': ['finditer'], 'RE_TRIM': ['finditer'], 'RE_MANGLE': ['finditer'], 'I18N_INTERP': ['finditer'],
}

SPECIAL = {
    'RE_META': ['<meta http-equiv="Content-Type" content="text/html; charset=utf-8">',
                "<META http-equiv='content-type' content=a;charset=b/>  ",
                ' <meta  http-equiv=Content-Type content=x; charset=y >'],
    'RE_ENCODING': ['<?xml version="1.0" encoding="utf-8"?>', "encoding = 'a-b'", 'ENCODING="x"'],
    'DEFINE_RE': ['a b', 'global a b', ' local (a,b) c d', '(a, b,c) x', 'a-b 1', '1a b', 'a  ', '\xa0a b'],
    'TAG_PREFIX_NAME': ['<a>', '</a >', '<a:b c="1"/>', '<a\n/>', '<a/ >', '<é b>'],
    'SINGLE_ATTR': [' a="1" b=\'2\' c=3 d e = "x"', ' b n="1"', ' disabled rt="1"', '\n a = "x\ny"\tb',
                    ' 1a="x"', ' a="1"b="2"', ' a \n= "1"', ' a b\\n=1'],
    'BRACES_REQ': ['${a}', 'x ${a} y ${b} z', '$${a}', '${a', '${ {1:2} }', 'a $b ${}'],
    'BRACES_OPT': ['$a ${b}', '$1 $a1_ $', 'x$$y'],
    'I18N_INTERP': ['${a} $b $$c $${d} ${e-f}', '$a$b'],
    'MATCH_PREFIX': ['python: x', ' string:a', 'a b:', 'not:exists:x', 'X:1', 'a-b_c1:'],
    'XML_SPE': ['<a b="1" c>x</a><!-- c --><![CDATA[x]]><?pi x?><!DOCTYPE html [<!ENTITY a "b">]>',
                '<a b=c d=\'e\' f = "g"/>', '<a <b>', '<!--', '<![CDATA[', '<?', '</', '<!DOCTYPE', '<a b="',
                '<é:x é="1">'],
    'SUBST_RE': ['text x', ' structure  y', 'structurex', 'text', ''],
    'ATTR_RE': ['a b', ' a  b c', "a{ b", 'a', ''],
    'ENTITY_RE': ['&amp;', '&#12;', '&#x1f;', '&a;&b', '&toolongname;', '&#123456;'],
    'CONTINUATION': ['a \\\nb', 'a\\  \n', '\\'],
    'RE_TRIM': ['a\n  b', '  \na', 'a  \n  b\n'],
    'COMMENT': ['<!-- x -->', '<!---->', '<!-- x'],
    'PI': ['<?php x ?>', '<?xml version="1.0"?>', '<??>'],
}


def spans(p, m):
    if m is None:
        return None
    out = [list(m.span())]
    for g in range(1, p.groups + 1):
        a, b = m.span(g)
        out.append(None if a < 0 else [a, b])
    return out


def subjects(name, rng, n_random, exhaustive_len=0):
    strs = list(SPECIAL.get(name, []))
    for sp_ in SPECIAL.get(name, []):
        for _ in range(max(2, n_random // 20)):
            l = list(sp_)
            for _ in range(rng.randint(1, 3)):
                if l and rng.random() < 0.5:
                    del l[rng.randrange(len(l))]
                else:
                    l.insert(rng.randint(0, len(l)), rng.choice(ALPH))
            strs.append(''.join(l))
    for _ in range(n_random):
        k = rng.randint(0, 14)
        strs.append(''.join(rng.choice(ALPH) for _ in range(k)))
    return strs


def run(ctx, names, n_random, exhaustive=None):
    """exhaustive: optional (alphabet, maxlen) enumerated for every pattern in `names`"""
    P = extract.patterns()
    reqs = []
    meta = []
    for name in names:
        p = P.get(name)
        if p is None or isinstance(p, Exception):
            ctx.disagree('regex %s could not be read from the source' % name, repr(p))
            continue
        strs = subjects(name, ctx.rng, n_random)
        if exhaustive:
            alph, maxlen = exhaustive
            for k in range(maxlen + 1):
                strs.extend(''.join(t) for t in itertools.product(alph, repeat=k))
        for s in strs:
            if isinstance(p.pattern, bytes):
                if any(ord(c) > 127 for c in s):
                    continue
                subj = s.encode()
            else:
                subj = s
            for fn in FNS.get(name, ['match', 'search']):
                if fn == 'match':
                    exp = spans(p, p.match(subj))
                elif fn == 'search':
                    exp = spans(p, p.search(subj))
                else:
                    exp = [spans(p, m) for m in p.finditer(subj)]
                reqs.append({'op': 're', 'name': name, 'fn': fn, 's': s})
                meta.append(exp)
    outs = core.par_batch(reqs)
    bad = 0
    for rq, exp, o in zip(reqs, meta, outs):
        got = o.get('ok') if 'ok' in o else {'err': o.get('err')}
        if got != exp:
            bad += 1
            ctx.disagree('regex semantics %s.%s' % (rq['name'], rq['fn']), rq['s'], model=got, impl=exp)
    ctx.count('regex_cases', len(reqs))
    ctx.count('correspondence_cases', len(reqs))
    return bad

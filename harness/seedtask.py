"""Write the task files for one round of seeded changes: one per property, each holding only the property and the needs of
the earlier seeds (so that a seeder does not repeat them).  Nothing of /verif's machinery goes into a task file.

  seedtask.py <round-dir> [<PID> ...]      e.g. seedtask.py /tmp/seed8
creates <round-dir>/TASK_<PID>.md; the worktree of a seeder is <round-dir>/<PID>.
"""
import glob
import json
import os
import sys

VERIF = os.path.dirname(os.path.dirname(os.path.abspath(__file__)))

SHAPES = '''   This time prefer one of these shapes (they are what really gets committed, and the hardest to notice):
   * **an optimisation**: a fast path, a memo, a precomputed table, hoisting work out of a loop, skipping work "that cannot matter",
     re-using an object instead of copying it - correct for the common case, wrong for an uncommon one;
   * **a clean-up that is almost behaviour-preserving**: replacing a hand-written loop by a library call or a regular expression
     (or the reverse), merging two similar branches, reordering checks, changing `is`/`==`, `<`/`<=`, `or`/`and` defaults,
     a slice bound, `str.partition` for `split`, `dict.setdefault` for an explicit test, a comprehension for a loop with `break`;
   * **a fix for something else that over-reaches**: a plausible repair or feature (better error message, support for a new
     attribute spelling, tolerance for sloppy input) whose condition is a little too wide or too narrow;
   * **an interaction**: the change is only wrong when two features meet on one element or in one render (a statement together
     with another statement, a setting together with a macro, a second render on the same object, a second template in the
     same process, a nested use of the same name).
   It must **need something specific to manifest** - not something ordinary use would expose at once, and not blatant sabotage.'''


SHAPES_B = '''   This time prefer one of these shapes (they are what really gets committed, and the hardest to notice):
   * **typing / linting driven refactoring**: replacing dynamic attribute access by explicit fields, narrowing an Optional, turning a
     list into a tuple, frozenset or generator (laziness and ordering change), a dataclass or NamedTuple conversion, `functools.cache`
     on a helper, f-strings for `%`-formatting, `dict | dict` for `update`, `match` for an `if` chain - with one edge that differs;
   * **error-handling changes**: narrowing or widening an `except` clause, moving clean-up into or out of `finally`, an early
     `return`/`continue`, `contextlib.suppress`, raising a friendlier exception type, re-raising from a different place;
   * **an API or configuration extension**: a new option with a default, accepting a new input type (Path, bytes, bytearray,
     memoryview, file object), a new spelling of a statement or attribute - whose default path is subtly not the old behaviour;
   * **performance for large inputs**: precompiled or combined regular expressions, `str.join` over concatenation, slicing instead of
     copying, binary search instead of a scan, an index instead of a linear lookup - correct except at a boundary.
   It must **need something specific to manifest** - not something ordinary use would expose at once, and not blatant sabotage.'''


SHAPES_C = '''   This time prefer one of these shapes (they are what really gets committed, and the hardest to notice):
   * **compatibility / modernisation**: adapting to a newer Python or dropping an old one (ast node classes and their fields, deprecated
     importlib / inspect / re APIs, `str.removeprefix`, walrus, `zip(strict=True)`, `dict` ordering assumptions), removing a
     "legacy" branch that still had one caller - with one edge that differs;
   * **hardening / robustness**: extra escaping or un-escaping, a limit on size or depth, stricter validation of names or values,
     sanitising input, defensive copies, a default changed to the "safer" one - a little too eager, or applied in the wrong layer;
   * **debugging / observability**: richer error context, extra logging, source annotations, a debug-mode behaviour that leaks into
     the normal mode, `__repr__`/`__str__` changes that something else depended on;
   * **state and lifetime**: a cache or registry keyed slightly wrong, invalidated too early or too late, lazily initialised state,
     state moved from instance to class or module (or back), an object kept alive or shared across instances, renders or threads.
   It must **need something specific to manifest** - not something ordinary use would expose at once, and not blatant sabotage.'''


def main(rd, pids):
    props = {}
    for line in open(os.path.join(VERIF, 'properties.jsonl')):
        d = json.loads(line)
        props[d['id']] = d
    earlier = {}
    for mp in sorted(glob.glob(os.path.join(VERIF, 'seeded', '*', 'meta.json'))):
        m = json.load(open(mp))
        earlier.setdefault(m['property'], []).append(m.get('needs_to_manifest', ''))
    os.makedirs(rd, exist_ok=True)
    for pid in pids or sorted(props):
        p = props[pid]
        wt = os.path.join(rd, pid)
        t = '''# Task: a realistic change to malthe/chameleon that silently breaks one property

You are working in a scratch git worktree of the open-source project malthe/chameleon (a pure-Python compiler for
Zope Page Templates: TAL / METAL / i18n) at `%(wt)s`. Do all your work inside that directory only. Never read or touch `/repo` or
`/verif`. There is no network. **Do not use `git stash`** (the stash is shared between worktrees): to compare with the unmodified
tree use `git diff -- src > /tmp/%(pid)s.patch; git apply -R /tmp/%(pid)s.patch; ...; git apply /tmp/%(pid)s.patch`.

Run Python as `/venv/bin/python` with `PYTHONPATH=%(wt)s/src` so that *your* copy is imported (check once:
`PYTHONPATH=%(wt)s/src /venv/bin/python -c "import chameleon; print(chameleon.__file__)"` must print a path under `%(wt)s`).
The existing test suite: `cd %(wt)s && PYTHONPATH=%(wt)s/src /venv/bin/python -m pytest -q -p no:cacheprovider --timeout=900`
(233 tests pass on the unmodified tree; about 15 s).

## The property (%(pid)s): %(title)s

%(statement)s

Quantifier: %(quant)s

Code the property is anchored in: %(anchors)s

## What to produce

1. A change to the source under `src/chameleon/` (not to the tests) that **breaks this property** while the package still
   imports, templates still compile, and **all 233 existing tests still pass**. It should look like something a developer
   could really commit (write the commit message you would give it into your report).
%(shapes)s
2. A demonstration `%(wt)s/demo_%(pid)s.py`, using only the public API of chameleon, that exits 0 on the unmodified tree and
   exits non-zero with your change (printing what was expected and what came out). Check both yourself.
3. Leave the change as uncommitted modifications in the worktree (only files under `src/`); do not commit, do not add other files
   apart from the demo.

Earlier changes made for this property by other people - do **not** repeat them; pick a different place in the code, a
different clause of the property and a different mechanism:
%(earlier)s

## Report back (short)

* files/functions changed and the idea, in a few sentences, and the commit message;
* exactly what is needed for the breakage to show (one sentence);
* confirmation of the three runs (suite with change: 233 passed; demo with change: fails; demo without: passes);
* anything you noticed about the *unmodified* code that already seems to contradict the property (with a minimal
  reproduction), if you came across it - do not go looking for long.
''' % {'wt': wt, 'pid': pid, 'title': p['title'], 'statement': p['statement'], 'quant': p['quantifier'],
       'anchors': json.dumps(p['anchors']), 'shapes': {'B': SHAPES_B, 'C': SHAPES_C}.get(os.environ.get('SEED_SHAPES'), SHAPES),
       'earlier': '\n'.join('* ' + e for e in earlier.get(pid, [])) or '* (none)'}
        open(os.path.join(rd, 'TASK_%s.md' % pid), 'w').write(t)
    print('wrote', len(pids or props), 'task files in', rd)


if __name__ == '__main__':
    main(sys.argv[1], sys.argv[2:])

"""Tables and probe observations regenerated from /repo on every run -> Gen/Tables.lean.

Each generator returns Lean source lines and records what it saw in `facts` (for evidence).
A generator that raises is reported in the file as a comment and in facts['errors']; the
theorems that mention the missing constant then stop checking, which is the intended signal."""
from __future__ import annotations

import traceback

from extract import HEADER, lean_cps, lean_str

PROBE_ALPHABET = [0, 9, 10] + list(range(32, 127)) + [160, 233, 0x2028]

# insertion sites: name -> (constructor, kwargs-for-value)
ESC_SITES = {
    'text_interp': ('pt', '<p>[${v}]</p>'),
    'content': ('pt', '<p tal:content="v">x</p>'),
    'content_text_kw': ('pt', '<p tal:content="text v">x</p>'),
    'replace': ('pt', '<a>[<p tal:replace="v"/>]</a>'),
    'dq_attr_interp': ('pt', '<p a="[${v}]"/>'),
    'sq_attr_interp': ("pt", "<p a='[${v}]'/>"),
    'comment_interp': ('pt', '<!--[${v}]-->'),
    'tal_attr_new': ('pt', '<p tal:attributes="a v"/>'),
    'tal_attr_dq': ('pt', '<p a="s" tal:attributes="a v"/>'),
    'tal_attr_sq': ("pt", "<p a='s' tal:attributes=\"a v\"/>"),
    'dict_attr': ('ptdict', '<p tal:attributes="d"/>'),
    'string_in_content': ('pt', '<p tal:content="string:[${v}]">x</p>'),
    'i18n_name_block': ('pt', '<p i18n:translate="">a <b i18n:name="n" tal:content="v">x</b> c</p>'),
    'cdata_interp': ('pt', '<![CDATA[[${v}]]]>'),
    'structure_content': ('pt', '<p tal:content="structure v">x</p>'),
    'structure_interp': ('pt', '<p>[${structure: v}]</p>'),
    'text_mode': ('ptt', '[${v}]'),
}


def _render(kind, tmpl, v):
    if kind == 'ptdict':
        return tmpl(d={'a': v})
    return tmpl(v=v)


def esc_observe():
    from chameleon import PageTemplate, PageTextTemplate
    out = {}
    for name, (kind, src) in ESC_SITES.items():
        tmpl = (PageTextTemplate if kind == 'ptt' else PageTemplate)(src)
        base = _render(kind, tmpl, 'QZQ')
        i = base.find('QZQ')
        if i < 0 or base.count('QZQ') != 1:
            raise RuntimeError('probe %s: baseline %r' % (name, base))
        pre, post = base[:i], base[i + 3:]
        table = {}
        for cp in PROBE_ALPHABET:
            r = _render(kind, tmpl, chr(cp))
            if not (r.startswith(pre) and r.endswith(post) and len(r) >= len(pre) + len(post)):
                raise RuntimeError('probe %s: value %r changed the skeleton: %r' % (name, chr(cp), r))
            img = r[len(pre):len(r) - len(post)]
            if img != chr(cp):
                table[cp] = img
        out[name] = table
    return out


def gen_escape(facts):
    obs = esc_observe()
    facts['esc_sites'] = {k: {str(c): v for c, v in t.items()} for k, t in obs.items()}
    lines = ['/-- code points rendered through every insertion site by the probe -/',
             'def escProbeAlphabet : List Nat := [%s]' % ', '.join(map(str, PROBE_ALPHABET)),
             '/-- observed: site ↦ the characters whose rendered image is not the character itself -/',
             'def escSites : List (String × List (Nat × List Nat)) := [']
    rows = []
    for name, t in obs.items():
        rows.append('  (%s, [%s])' % (lean_str(name), ', '.join('(%d, %s)' % (c, lean_cps(v)) for c, v in sorted(t.items()))))
    lines.append(',\n'.join(rows))
    lines.append(']')
    return lines


EXC_CLASSES = ['BaseException', 'Exception', 'AttributeError', 'NameError', 'UnboundLocalError', 'LookupError', 'KeyError',
               'IndexError', 'TypeError', 'ValueError', 'UnicodeDecodeError', 'UnicodeError', 'ZeroDivisionError', 'ArithmeticError',
               'RuntimeError', 'RecursionError', 'AssertionError', 'StopIteration', 'OSError', 'KeyboardInterrupt', 'SystemExit',
               'NotImplementedError', 'OverflowError']


def lean_strs(xs):
    return '[' + ', '.join(lean_str(x) for x in xs) + ']'


def gen_names(facts):
    import builtins

    from chameleon import tales
    from chameleon.compiler import COMPILER_INTERNALS_OR_DISALLOWED, Compiler
    from chameleon.zpt import template as zt
    from chameleon.zpt.program import MacroProgram
    tal_exc = [c.__name__ for c in tales.TalesExpr.exceptions]
    ex_exc = [c.__name__ for c in tales.ExistsExpr.exceptions]
    parents = []
    for n in EXC_CLASSES:
        cls = getattr(builtins, n)
        parents.append((n, [c.__name__ for c in cls.__mro__ if c is not object]))
    from chameleon import exc as cexc
    for n in ['TemplateError', 'ParseError', 'CompilationError', 'TranslationError', 'LanguageError', 'ExpressionError', 'RenderError']:
        cls = getattr(cexc, n)
        parents.append((n, [c.__name__ for c in cls.__mro__ if c is not object]))
    pyb = sorted(n for n in builtins.__dict__ if isinstance(n, str))
    facts['tales_exceptions'] = tal_exc
    facts['exists_exceptions'] = ex_exc
    facts['compiler_internals'] = sorted(COMPILER_INTERNALS_OR_DISALLOWED)
    facts['compiler_defaults'] = sorted(Compiler.defaults)
    facts['expression_types'] = sorted(zt.PageTemplate.expression_types)
    facts['boolean_html'] = list(zt.BOOLEAN_HTML_ATTRIBUTES)
    facts['drop_ns'] = list(MacroProgram.DROP_NS)
    lines = [
        'def talesExceptions : List String := ' + lean_strs(tal_exc),
        'def existsExceptions : List String := ' + lean_strs(ex_exc),
        'def excParents : List (String × List String) := [' + ', '.join('(%s, %s)' % (lean_str(n), lean_strs(m)) for n, m in parents) + ']',
        'def pyBuiltins : List String := ' + lean_strs(pyb),
        'def compilerInternals : List String := ' + lean_strs(sorted(COMPILER_INTERNALS_OR_DISALLOWED)),
        'def compilerDefaults : List String := ' + lean_strs(sorted(Compiler.defaults)),
        'def expressionTypes : List String := ' + lean_strs(sorted(zt.PageTemplate.expression_types)),
        'def defaultExpression : String := ' + lean_str(zt.PageTemplate.default_expression),
        'def booleanHtml : List String := ' + lean_strs(zt.BOOLEAN_HTML_ATTRIBUTES),
        'def dropNs : List String := ' + lean_strs(MacroProgram.DROP_NS),
        '/-- `dir(type)` of the builtin types whose attribute access the expression model decides -/',
        'def builtinAttrs : List (String × List String) := [' + ', '.join(
            '(%s, %s)' % (lean_str(n), lean_strs(sorted(dir(getattr(builtins, n))))) for n in ('str', 'list', 'tuple', 'int', 'bool', 'bytes', 'dict')) + ']',
    ]
    return lines


def _wrap_labels(src):
    """compile a probe with the real MacroProgram and read the nesting of the statement nodes of its <p>"""
    from chameleon import nodes
    from chameleon.zpt.program import MacroProgram
    p = MacroProgram(src, "xml", "<string>", escape=True, default_marker=None, boolean_attributes=frozenset())

    def find(n):
        # descend to the DefineSlot that belongs to the probe element
        if isinstance(n, nodes.DefineSlot):
            return n
        for attr in ('node', 'content'):
            c = getattr(n, attr, None)
            if c is not None and hasattr(c, '_fields'):
                r = find(c)
                if r is not None:
                    return r
        if isinstance(n, nodes.Sequence):
            for it in n.items:
                r = find(it)
                if r is not None:
                    return r
        return None
    n = None
    for b in p.body:
        n = find(b)
        if n is not None:
            break
    labels = []
    while n is not None and not isinstance(n, nodes.Element):
        if isinstance(n, nodes.DefineSlot):
            labels.append('defineSlot')
        elif isinstance(n, nodes.Define):
            names = [a.names[0] for a in n.assignments]
            if 'attrs' in names:
                labels.append('define')
            elif isinstance(n.node, nodes.Target):
                labels.append('target')
                n = n.node
            elif isinstance(n.node, nodes.Condition) and isinstance(n.node.node, nodes.Cancel):
                labels.append('case_')
                n = n.node.node
            else:
                raise RuntimeError('unrecognised Define in wrap chain: %r' % names)
        elif isinstance(n, nodes.Condition):
            labels.append('condition')
        elif isinstance(n, nodes.Repeat):
            labels.append('repeat_')
        elif isinstance(n, nodes.Cache):
            labels.append('switch')
        elif isinstance(n, nodes.Domain):
            labels.append('domain')
        elif isinstance(n, nodes.TxContext):
            labels.append('context')
        else:
            raise RuntimeError('unrecognised node in wrap chain: %s' % type(n).__name__)
        n = n.node
    return labels


def gen_wrap(facts):
    common = 'metal:define-slot="s" tal:define="a 1" tal:condition="1" tal:repeat="i x" i18n:domain="d" i18n:context="c" i18n:target="t"'
    a = _wrap_labels('<div tal:switch="1"><p %s tal:case="1">x</p></div>' % common)
    b = _wrap_labels('<div><p %s tal:switch="1">x</p></div>' % common)
    facts['wrap_probe_case'] = a
    facts['wrap_probe_switch'] = b
    return ['/-- observed nesting (outermost first) of the statement nodes on one element: probe with tal:case -/',
            'def wrapProbeCase : List String := ' + lean_strs(a),
            '/-- … and with tal:switch on the element itself -/',
            'def wrapProbeSwitch : List String := ' + lean_strs(b)]


def gen_repeat(facts):
    from chameleon import tal
    fn = tal.RepeatItem.__dict__['Roman'].function
    table = list(fn.__defaults__[0])
    facts['roman_table'] = table
    return ['/-- default `rnvalues` of RepeatItem.Roman -/',
            'def romanTable : List (Nat × String) := [%s]' % ', '.join('(%d, %s)' % (v, lean_str(r)) for v, r in table)]


def gen_sniff(facts):
    """the BOM / encoded '<?xml' prefix table of utils.read_bytes, in the order the loop visits it; the behaviour of the
    BOM branch (is the mark cut off before decoding?) is probed on a payload"""
    from chameleon import template, utils
    rows = [(list(bom), list(prefix), enc) for bom, prefix, enc in utils._xml_prefixes]
    facts['xml_prefixes'] = rows
    # probe: which bytes does the BOM branch hand to the decoder?  (a BE mark followed by '<')
    doc = utils.read_bytes(b'\xfe\xff\x00<', 'utf-8')[0]
    sliced = (doc == '<')
    facts['bom_sliced'] = sliced
    from chameleon.zpt import template as zt
    facts['default_encoding'] = zt.PageTemplate.default_encoding
    facts['default_content_type'] = zt.PageTemplate.default_content_type
    return ['/-- `utils._xml_prefixes`: (BOM, encoded "<?xml", codec), in loop order -/',
            'def xmlPrefixes : List (List Nat × List Nat × String) := [%s]' % ', '.join(
                '([%s], [%s], %s)' % (', '.join(map(str, b)), ', '.join(map(str, x)), lean_str(e)) for b, x, e in rows),
            '/-- observed: the BOM branch of read_bytes decodes the body without its mark -/',
            'def bomSliced : Bool := %s' % ('true' if sliced else 'false'),
            'def defaultEncoding : String := %s' % lean_str(facts['default_encoding']),
            'def defaultContentType : String := %s' % lean_str(facts['default_content_type'])]


CACHE_OPTIONS = {
    'trim_attribute_space': [False, True], 'implicit_i18n_translate': [False, True], 'strict': [True, False],
    'boolean_attributes': [None, {'title'}, set(), frozenset()], 'implicit_i18n_attributes': [set(), {'title'}, {'alt'}], 'enable_data_attributes': [False, True],
    'enable_comment_interpolation': [True, False], 'restricted_namespace': [True, False], 'default_expression': ['python', 'string'],
    'encoding': [None, 'utf-8'], 'keep_body': [False, True], 'debug_marker': [0, 1],
    'tokenizer': [None, 'custom'], 'expression_types': [None, 'custom'], 'default_marker': [None, 'custom'],
    'literal_false': [None, False],
}
CACHE_PROBES = [
    '<p title="a  b"   class="x">${1} <!-- ${2} --></p>',
    '<i tal:content="bad +" tal:condition="False"/>',
    '<p title="t" data-tal-content="1">Hello ${default | 3}</p>',
    '<p i18n:translate="" title="t">Hello <b i18n:name="n">w</b></p>',
    '<p zz:x="1">x</p>',
    '<input title="${None}" checked="${False}"/><span tal:replace="x">y</span>',
]


def canon_source(src):
    """generated module source with the id()-derived identifier suffixes and object addresses numbered by first appearance"""
    import re
    seen = {}

    def sub(m):
        k = m.group(0)
        if k not in seen:
            seen[k] = 'N%d' % len(seen)
        return seen[k]
    return re.sub(r'(?<![0-9a-zA-Z])(?:0x)?[0-9a-f]{10,}(?![0-9a-zA-Z])|(?<=_)\d{9,}', sub, src)


def _cache_opt(name, v):
    """constructor keyword arguments for an option value (None: the class default)"""
    if name == 'debug_marker':
        return {}            # a pseudo-option nothing reads: control (must be neither keyed nor influencing)
    if v is None or (name == 'implicit_i18n_attributes' and v == set()):
        return {}
    if v == 'custom':
        if name == 'tokenizer':
            from chameleon.tokenize import iter_text
            return {'tokenizer': iter_text}
        if name == 'expression_types':
            from chameleon.tales import StringExpr
            from chameleon.zpt.template import PageTemplate
            d = dict(PageTemplate.expression_types)
            d['python'] = StringExpr
            return {'expression_types': d}
        if name == 'default_marker':
            import ast
            return {'default_marker': ast.Constant('MARK')}
    return {name: v}


def gen_cache(facts):
    """which constructor options are part of the cache key (digest) and which influence the generated code: observed by
    flipping each option on probe bodies"""
    from chameleon.zpt.template import PageTemplate
    keyed, infl = [], []
    import itertools
    unsound = []
    for name, values in CACHE_OPTIONS.items():
      k = i = False
      for v0, v1 in itertools.combinations(values, 2):
        for body in CACHE_PROBES:
            res = []
            for v in (v0, v1):
                kw = _cache_opt(name, v)
                t0 = PageTemplate('x', **kw)           # the key is computed before (and whether or not) the body compiles
                builtins_dict = t0.builtins.copy()
                builtins_dict.update(t0.extra_builtins)
                names = tuple(sorted(builtins_dict))
                dg = t0.digest(body, names)
                try:
                    t = PageTemplate(body, keep_source=True, **kw)
                    res.append((dg, canon_source(t.source)))
                except Exception as e:
                    res.append((dg, 'ERR %s' % type(e).__name__))
            if res[0][0] != res[1][0]:
                k = True
            if res[0][1] != res[1][1]:
                i = True
                if res[0][0] == res[1][0]:
                    u = '%s: %r / %r' % (name, v0, v1)
                    if u not in unsound:
                        unsound.append(u)
      if k:
            keyed.append(name)
      if i:
            infl.append(name)
    # how the body enters the key: which `errors` mode of str.encode reproduces the digest of a body with a lone surrogate
    probe_body = '<p>x\ud800</p>'
    t0 = PageTemplate('x')
    bd = t0.builtins.copy()
    bd.update(t0.extra_builtins)
    from chameleon.template import BaseTemplate
    want = BaseTemplate.digest(t0, probe_body, tuple(sorted(bd)))        # the part of the key that stands for the source
    mode = 'unknown'
    layout = 'unknown'
    from chameleon.template import get_pkg_digest
    cname = type(t0).__name__.encode('utf-8')
    layouts = {'body-class': lambda b: [b, cname], 'class-nul-body': lambda b: [cname + b'\0', b], 'class-body': lambda b: [cname, b],
               'body-nul-class': lambda b: [b, b'\0' + cname]}
    for cand in ('strict', 'ignore', 'replace', 'surrogatepass', 'backslashreplace', 'xmlcharrefreplace', 'namereplace'):
        for lname, parts in layouts.items():
            try:
                sha = get_pkg_digest()
                for part in parts(probe_body.encode('utf-8', cand)):
                    sha.update(part)
                if sha.hexdigest() == want:
                    mode, layout = cand, lname
                    break
            except Exception:
                continue
        if mode != 'unknown':
            break
    # … and how the file name of a template that has one enters the hashed bytes (it is compiled into the module)
    flayout = 'unknown'
    try:
        tf = PageTemplate('x', filename='/d/page.pt')
        wantf = BaseTemplate.digest(tf, 'body', tuple(sorted(bd)))
        stem, _, hexf = wantf.rpartition('-')
        fn = b'/d/page.pt'
        flayouts = {'not-hashed': [cname + b'\0', b'body'], 'class-nul-file-nul-body': [cname + b'\0', fn + b'\0', b'body'],
                    'class-nul-body-nul-file': [cname + b'\0', b'body', b'\0' + fn], 'class-nul-file-body': [cname + b'\0', fn, b'body']}
        for lname, parts in flayouts.items():
            sha = get_pkg_digest()
            for part in parts:
                sha.update(part)
            if sha.hexdigest() == hexf and stem == '/d/page':
                flayout = lname
                break
    except Exception:
        pass
    facts['digest_file_layout'] = flayout
    facts['digest_body_errors'] = mode
    facts['digest_layout'] = layout
    facts['cache_unsound_value_pairs'] = unsound
    facts['cache_keyed'] = keyed
    facts['cache_influencing'] = infl
    return ['/-- constructor options whose flip changes `PageTemplate.digest` (observed) -/',
            'def cacheKeyed : List String := ' + lean_strs(keyed),
            '/-- constructor options whose flip changes the generated module source on the probe bodies (observed) -/',
            'def cacheInfluencing : List String := ' + lean_strs(infl),
            'def cacheOptionsProbed : List String := ' + lean_strs(list(CACHE_OPTIONS)),
            '/-- pairs of option values that give different code under the same key (observed; expected: those of D-15b only) -/',
            'def cacheUnsoundValuePairs : List String := ' + lean_strs(unsound),
            '/-- the `errors` mode of `str.encode` that reproduces `digest` on a body with a lone surrogate (observed) -/',
            'def digestBodyErrors : String := ' + lean_str(mode),
            '/-- how `digest` lays out the class name and the source in the hashed bytes (observed by recomputing the digest) -/',
            'def digestLayout : String := ' + lean_str(layout),
            '/-- … and the file name of a template that has one (observed the same way; the module name is the path without extension + "-" + digest) -/',
            'def digestFileLayout : String := ' + lean_str(flayout)]


def gen_ties(facts):
    """constant tables the model spells out by hand; `ChamProofs/Ties.lean` proves them equal to these (kernel evaluation)"""
    from chameleon import i18n, metal, tal
    from chameleon.zpt.program import MacroProgram
    dn = MacroProgram.DEFAULT_NAMESPACES
    facts['whitelists'] = {'tal': sorted(tal.WHITELIST), 'metal': sorted(metal.WHITELIST), 'i18n': sorted(i18n.WHITELIST)}
    facts['default_namespaces'] = [[k, v] for k, v in dn.items()]
    return [
        'def talWhitelistSorted : List String := ' + lean_strs(sorted(tal.WHITELIST)),
        'def metalWhitelistSorted : List String := ' + lean_strs(sorted(metal.WHITELIST)),
        'def i18nWhitelistSorted : List String := ' + lean_strs(sorted(i18n.WHITELIST)),
        '/-- `MacroProgram.DEFAULT_NAMESPACES` in dictionary order -/',
        'def defaultNamespaces : List (String × String) := [' + ', '.join('(%s, %s)' % (lean_str(k), lean_str(v)) for k, v in dn.items()) + ']',
        'def restrictedNamespaceDefault : Bool := ' + ('true' if MacroProgram.restricted_namespace else 'false'),
        'def enableCommentInterpolationDefault : Bool := ' + ('true' if MacroProgram.enable_comment_interpolation else 'false'),
    ]


GENERATORS = [('cache', gen_cache), ('sniff', gen_sniff), ('escape', gen_escape), ('names', gen_names), ('wrap', gen_wrap), ('repeat', gen_repeat), ('ties', gen_ties)]


def gen_tables(facts):
    lines = ['import ChamVerif.Re', HEADER, 'namespace ChamVerif.Gen', '']
    facts.setdefault('errors', {})
    for name, g in GENERATORS:
        try:
            lines.extend(g(facts))
        except Exception as e:
            facts['errors'][name] = traceback.format_exc()[-800:]
            lines.append('-- %s: NOT GENERATED (%s)' % (name, str(e).replace('\n', ' ')[:200]))
        lines.append('')
    lines.append('end ChamVerif.Gen')
    return {'Tables': '\n'.join(lines) + '\n'}

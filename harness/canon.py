"""Canonical forms of observable results (exceptions, outputs) shared by all checks."""


def canon_exc(e):
    """exception -> small comparable record (never addresses, never tracebacks)"""
    from chameleon.exc import TemplateError
    if isinstance(e, TemplateError):
        tok = e.args[1] if len(e.args) > 1 else ''
        return {'exc': 'TemplateError', 'cls': type(e).__name__, 'msg': str(e.args[0]),
                'token': str(tok), 'offset': getattr(tok, 'pos', 0)}
    return {'exc': 'other', 'cls': type(e).__name__}


def render_str(src, cfg=None, **kw):
    """PageTemplate(src, **cfg)(**kw) -> {'out': text} | canonical exception"""
    from chameleon import PageTemplate
    try:
        return {'out': PageTemplate(src, **(cfg or {}))(**kw)}
    except RecursionError:
        return {'exc': 'other', 'cls': 'RecursionError'}
    except Exception as e:
        return canon_exc(e)

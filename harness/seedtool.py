"""Keep / replay seeded breaking changes.

  seedtool.py keep <PID> <worktree> <name> "<needs>"   confirm (suite passes, demo fails with / passes without), store in seeded/<name>/, remove worktree
  seedtool.py run <name> [<PID> ...]                     apply seeded/<name>/patch.diff to /repo, run the quick checks, undo, record result in meta.json
"""
import json
import os
import shutil
import subprocess
import sys

VERIF = os.path.dirname(os.path.dirname(os.path.abspath(__file__)))
# the repository the seeded change is applied to: /repo, or the snapshot copy of a background run (VERIF_REPO, which ./check honours too)
REPO = os.environ.get('VERIF_REPO', '/repo')


def sh(cmd, cwd=None, env=None, timeout=3600):
    e = dict(os.environ)
    e.update(env or {})
    p = subprocess.run(cmd, shell=True, cwd=cwd, env=e, capture_output=True, text=True, timeout=timeout)
    return p.returncode, (p.stdout + p.stderr)


def keep(pid, wt, name, needs):
    env = {'PYTHONPATH': wt + '/src'}
    patch = '%s/patch_%s.diff' % (wt, pid)
    demo = '%s/demo_%s.py' % (wt, pid)
    rc, out = sh('git diff -- src', cwd=wt)
    open(patch, 'w').write(out)
    assert out.strip(), 'empty patch'
    rc, out = sh('/venv/bin/python -m pytest -q -p no:cacheprovider --timeout=900 -x 2>&1 | tail -3', cwd=wt, env=env)
    suite = out.strip().split('\n')[-1]
    assert '233 passed' in suite, suite
    rc1, out1 = sh('/venv/bin/python %s' % demo, cwd=wt, env=env)
    assert rc1 != 0, 'demo does not fail with the change: ' + out1[-500:]
    # no `git stash`: the stash is shared by all worktrees of /repo
    rc, o = sh('git apply -R %s' % patch, cwd=wt)
    assert rc == 0, o
    rc0, out0 = sh('/venv/bin/python %s' % demo, cwd=wt, env=env)
    rc, o = sh('git apply %s' % patch, cwd=wt)
    assert rc == 0, o
    assert rc0 == 0, 'demo does not pass without the change: ' + out0[-500:]
    d = os.path.join(VERIF, 'seeded', name)
    os.makedirs(d, exist_ok=True)
    shutil.copy(patch, os.path.join(d, 'patch.diff'))
    shutil.copy(demo, os.path.join(d, 'demo.py'))
    meta = {'property': pid, 'name': name, 'needs_to_manifest': needs,
            'confirmed': {'suite_with_change': suite, 'demo_with_change_rc': rc1, 'demo_with_change_tail': out1[-600:],
                          'demo_without_change_rc': rc0, 'demo_without_change_tail': out0[-200:]},
            'base_commit': sh('git rev-parse HEAD', cwd=wt)[1].strip(), 'checks': {}}
    json.dump(meta, open(os.path.join(d, 'meta.json'), 'w'), indent=1)
    sh('git -C %s worktree remove --force %s' % (REPO, wt))
    print('kept', d, '| suite:', suite)


def run(name, pids):
    d = os.path.join(VERIF, 'seeded', name)
    meta = json.load(open(os.path.join(d, 'meta.json')))
    pids = pids or [meta['property']]
    rc, out = sh('git status --short', cwd=REPO)
    assert not out.strip(), '/repo not clean: ' + out
    rc, out = sh('git apply %s' % os.path.join(d, 'patch.diff'), cwd=REPO)
    assert rc == 0, 'patch does not apply: ' + out
    # the evidence files describe the unchanged tree: keep them out of the way while a seeded change is applied
    saved = {}
    for pid in pids:
        ev = os.path.join(VERIF, 'evidence', pid + '.json')
        if os.path.exists(ev):
            saved[ev] = open(ev, 'rb').read()
    try:
        for pid in pids:
            rc, out = sh('./check %s --tier quick' % pid, cwd=VERIF, timeout=3600)
            lines = [l for l in out.split('\n') if l.startswith(('VIOLATION', 'OK ', 'KNOWN'))]
            viol = [l for l in lines if l.startswith('VIOLATION')]
            meta['checks'][pid] = {'rc': rc, 'caught': rc == 1 and bool(viol), 'line': (viol or lines[-1:] or [''])[0][:300]}
            print(name, pid, 'rc=%d' % rc, meta['checks'][pid]['line'])
    finally:
        sh('git checkout -- .', cwd=REPO)
        for ev, data in saved.items():
            open(ev, 'wb').write(data)
    rc, out = sh('git status --short', cwd=REPO)
    assert not out.strip(), '/repo not restored: ' + out
    json.dump(meta, open(os.path.join(d, 'meta.json'), 'w'), indent=1)


if __name__ == '__main__':
    if sys.argv[1] == 'keep':
        keep(*sys.argv[2:6])
    elif sys.argv[1] == 'run':
        run(sys.argv[2], sys.argv[3:])

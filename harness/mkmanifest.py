"""Regenerate MANIFEST.json from the per-property modules present in harness/props."""
import importlib
import json
import os
import sys

VERIF = os.path.dirname(os.path.dirname(os.path.abspath(__file__)))
sys.path.insert(0, os.path.join(VERIF, 'harness'))
props = [json.loads(l) for l in open(os.path.join(VERIF, 'properties.jsonl'))]
PENDING = {}
checks = []
na = []
for p in props:
    pid = p['id']
    try:
        mod = importlib.import_module('props.' + pid.lower())
    except ImportError:
        na.append({'property_id': pid, 'reason': PENDING.get(pid, 'check not built yet in this round (model and theorems planned in DESIGN.md §9); not claimed until its check exists')})
        continue
    checks.append({
        'property_id': pid,
        'quick_cmd': './check %s --tier quick' % pid,
        'thorough_cmd': './check %s --tier thorough' % pid,
        'evidence_file': 'evidence/%s.json' % pid,
        'replay_cmd_template': './check %s --replay {path}' % pid,
        'engine': 'lean+harness',
        'level_claimed': {
            'category': 'proof',
            'text': mod.LEVEL_TEXT,
            'design_ref': 'DESIGN.md §9 ' + pid,
        },
        'level_note': mod.LEVEL_NOTE,
        'technique': 'Lean 4 theorems over an executable model; model tied to /repo by regenerated facts (extract.py -> Gen/*.lean) and differential correspondence through the line-protocol driver',
    })
m = {
    'version': 1,
    'setup_cmd': './check setup',
    'hooks': {
        'guard': 'MALTHE_CHAMELEON_VERIF',
        'enable': 'MALTHE_CHAMELEON_VERIF=1 (set by ./check before chameleon is imported): chameleon.loader._verif_point(label, ...) calls the harness hook at labelled points of ModuleLoader.build, ModuleLoader._load, TemplateLoader.load, BaseTemplate.cook and BaseTemplateFile.cook_check; with the guard off _verif_point is an empty function',
        'baseline_off_cmd': 'cd /repo && /venv/bin/python -m pytest -ra -q -p no:cacheprovider --timeout=900 --continue-on-collection-errors',
        'source_commits': ['10c9172c3d3f7aca3cec04683413f4c74f565a12', '2534e418805e93b963a8d12ed0ee8d985fdeb7a5', '16c94caee67fded347a36d996b45ee8adec538ca'],
        'add_only': True,
    },
    'engines': [
        {'name': 'lean', 'path': 'lean/', 'serves_properties': [c['property_id'] for c in checks],
         'kind_free_text': 'Lean 4 library: ChamVerif (executable model, core only), ChamProofs (lemmas + Props/Cxx theorems), chamdriver (line-protocol executable)'},
        {'name': 'harness', 'path': 'harness/', 'serves_properties': [c['property_id'] for c in checks],
         'kind_free_text': 'Python: extract.py (translator of regexes/tables), generators, correspondence, implementation-level oracles, evidence'},
    ],
    'checks': checks,
    'not_applicable': na,
    'notes': 'Known findings and fixed defects: known_findings.json. A check prints KNOWN-FINDING lines and exits 0 on the unchanged tree.',
}
json.dump(m, open(os.path.join(VERIF, 'MANIFEST.json'), 'w'), indent=1)
print('claimed', [c['property_id'] for c in checks])

"""C17 — byte input is decoded by BOM / XML declaration / meta charset, then acts as str."""
import codecs
import os
import shutil
import tempfile

import core
import markupgen
import pipeline
import talgen

PID = 'C17'
PROOF_MODULES = ['ChamProofs.Props.C17']
THEOREMS = ['ChamVerif.C17_bom_first', 'ChamVerif.C17_encoded_decl', 'ChamVerif.C17_priority', 'ChamVerif.C17_default_when_no_meta',
            'ChamVerif.C17_table_order_sound', 'ChamVerif.C17_table_codecs_known', 'ChamVerif.C17_bom_sliced_live',
            'ChamVerif.C17_bom_counterexample', 'ChamVerif.C17_bytes_eq_str', 'ChamVerif.C17_mode_agrees_bom',
            'ChamVerif.decodeUtf8_ascii_prefix', 'ChamVerif.C17_utf8_decl_agrees']
LEVEL_TEXT = ('Proved in Lean, for every body, every decoder and every prefix table: when the first table row that fires does so by its '
              'byte-order mark, the document is the decoding of the body without the mark (C17_bom_first: no codec can turn the mark into '
              'U+FEFF), a mark-less UTF-16/32 document is recognised by its encoded "<?xml" (C17_encoded_decl), and when no row fires the '
              'XML declaration is consulted before the meta element before the default (C17_priority, C17_default_when_no_meta); for the '
              'table regenerated from utils._xml_prefixes on this run no trigger shadows a longer one (C17_table_order_sound, decided by '
              'the kernel over the whole table); rendering bytes is rendering the decoded str whenever both paths reach the same XML/HTML '
              'decision (C17_bytes_eq_str), which they do in the BOM branch unless a declaration-less document carries a meta content '
              'type text/xml (C17_mode_agrees_bom, D-17c) and for UTF-8 bodies starting with "<?xml" (C17_utf8_decl_agrees). '
              'C17_bom_counterexample is the D-17a witness before the fix. The codecs themselves (Python\'s), meta/declaration spellings and '
              'the mode effects are judged on the implementation by the grid oracle; the sniffing model is tied to utils.read_bytes by '
              'correspondence on the same grid and on mutated byte strings.')
LEVEL_NOTE = ('Trusted: Lean kernel; Python\'s codecs (the model implements UTF-8/16/32, latin-1, ASCII itself; other codecs are reported '
              'unsupported and only judged by the oracle); the regex translator. D-17a was repaired in /repo (fix: a4f4187). Known findings: '
              'D-17b (meta with other attribute order / <meta charset> not honoured; encoding= searched in the whole body), D-17c (a meta '
              'content type text/xml switches a declaration-less document to XML mode).')
RULE = ('documents (markupgen statement-free documents, talgen templates, mode probes with CR/LF and boolean attributes, all with non-ASCII '
        'text) x encodings {utf-8, utf-16-le/be, utf-32-le/be, latin-1, cp1251, shift_jis, euc_jp, iso-8859-15, koi8-r, gb2312, big5} x {BOM, no BOM} '
        'x {no declaration, declaration without / with encoding, either quote, spacing and case varied} x {meta present/absent, quotes and '
        'spacing varied, contradicting the declaration} x {PageTemplate(bytes), PageTemplateFile}. Non-trivial iff the '
        'document holds non-ASCII text and the encoding is not utf-8 or a BOM / declaration / meta is present.')
TRUSTED = []
ASSUMPTIONS = []

BOMS = {'utf-8': codecs.BOM_UTF8, 'utf-16-le': codecs.BOM_UTF16_LE, 'utf-16-be': codecs.BOM_UTF16_BE,
        'utf-32-le': codecs.BOM_UTF32_LE, 'utf-32-be': codecs.BOM_UTF32_BE}
WIDE = ['utf-16-le', 'utf-16-be', 'utf-32-le', 'utf-32-be']
ASCII_COMPAT = ['utf-8', 'latin-1', 'cp1251', 'shift_jis', 'euc_jp', 'iso-8859-15', 'koi8-r', 'gb2312', 'big5', 'utf_8', 'ISO-8859-1', 'Shift_JIS',
                'cp1252', 'euc-kr', 'mac_roman']
TEXTS = {'latin': 'café über', 'cyr': 'Привет', 'jp': '日本語テキスト', 'ascii': 'plain', 'mixed': 'aéЖ日',
         'astral': 'clef \U0001d11e', 'cn': '中文'}


def encodable(text, enc):
    try:
        text.encode(enc)
        return True
    except (UnicodeEncodeError, LookupError):
        return False


def decl(rng, enc):
    """an XML declaration, optionally naming `enc`, spelled in various ways"""
    q = rng.choice(['"', "'"])
    v = '<?xml version=%s1.0%s' % (q, q)
    if enc is not None:
        q2 = rng.choice(['"', "'"])
        name = rng.choice([enc, enc.upper(), enc.lower()])
        v += rng.choice([' ', '  ', '\n']) + rng.choice(['encoding', 'ENCODING', 'Encoding']) + rng.choice(['=', ' = ', '= ']) + q2 + name + q2
    return v + rng.choice(['?>', ' ?>']) + rng.choice(['', '\n'])


def meta(rng, enc, ctype='text/html'):
    q = rng.choice(['"', "'", ''])
    q2 = rng.choice(['"', "'"])
    sp = rng.choice([' ', '  ', '\n '])
    return '<meta%shttp-equiv=%sContent-Type%s%scontent=%s%s;%scharset=%s%s%s>' % (
        sp, q, q, sp, q2, ctype, rng.choice([' ', '', '  ']), enc, q2, rng.choice(['', ' /', '/']))


def body_doc(rng, text):
    kind = rng.choice(['mode', 'mode', 'markup', 'tal', 'tal'])
    if kind == 'mode':
        # observable mode effects: CR/LF rewriting, implicit boolean attributes
        return ('<div>%s\r\n<input checked="${flag}" class="${cls}" />\r<p tal:content="t">x</p>%s</div>' % (text, rng.choice(['', '\r\n'])),
                [['flag', rng.choice([True, False, None])], ['cls', {'str': text}], ['t', {'str': '<' + text + '>'}]], [])
    if kind == 'markup':
        d = rng.choice(markupgen.CORPUS) if rng.random() < 0.3 else markupgen.document(rng)
        if d.lstrip().startswith('<?xml') or 'encoding' in d.lower() or '<meta' in d.lower():
            d = '<p>%s</p>' % text
        return d + '<i>%s</i>' % text, [], []
    g = talgen.TalGen(rng, depth=1, features={'define', 'condition', 'content', 'replace', 'attributes', 'interp', 'repeat'})
    t = g.template()
    return '<div title="%s">%s</div>' % (text, t['src']) + text, t['vars'], t['objs']


def make_case(rng):
    """-> dict(bytes, doc (the str the bytes stand for), rule, encoding, expect_xml, vars, objs) or None"""
    tkey = rng.choice(list(TEXTS))
    text = TEXTS[tkey]
    body, vars_, objs = body_doc(rng, text)
    rule = rng.choice(['bom', 'bom', 'wide-decl', 'decl', 'decl', 'meta', 'default'])
    if rule == 'bom':
        enc = rng.choice(list(BOMS))
        has_decl = rng.random() < 0.5
        # a declaration or meta naming another encoding must lose against the mark
        other = rng.choice([None, enc, 'latin-1', 'shift_jis'])
        doc = (decl(rng, other) if has_decl else '') + (meta(rng, rng.choice(['latin-1', 'utf-8'])) if rng.random() < 0.3 else '') + body
        if doc.startswith('\x00'):
            return None
        data = BOMS[enc] + doc.encode(enc)
        xml = has_decl
    elif rule == 'wide-decl':
        enc = rng.choice(WIDE)
        doc = decl(rng, rng.choice([None, enc, 'utf-8'])) + body
        data = doc.encode(enc)
        xml = True
    elif rule == 'decl':
        enc = rng.choice(ASCII_COMPAT)
        if not encodable(body, enc):
            return None
        contradict = meta(rng, rng.choice(['utf-8', 'latin-1', 'koi8-r'])) if rng.random() < 0.3 else ''
        doc = decl(rng, enc) + contradict + body
        data = doc.encode(enc)
        xml = True
    elif rule == 'meta':
        enc = rng.choice(ASCII_COMPAT)
        if not encodable(body, enc):
            return None
        # the meta element may stand far into a long head (beyond any fixed prescan window)
        pad = ''.join('<link rel="stylesheet" href="/static/css/part-%04d.css">\n' % i for i in range(rng.choice([0, 0, 0, 18, 25, 90, 400])))
        doc = rng.choice(['', '<html><head>', '\n ']) + pad + meta(rng, enc) + body
        data = doc.encode(enc)
        xml = False
    else:
        enc = 'utf-8'
        has_decl = rng.random() < 0.4
        doc = (decl(rng, None) if has_decl else '') + body
        data = doc.encode(enc)
        xml = has_decl
    if rule in ('bom', 'default', 'wide-decl') and rng.random() < 0.12:
        # not a declaration, but a processing instruction whose target merely begins with "xml": whatever the mode decision is,
        # it must be the one the str path makes (`xml` = None: compared with the str result only)
        pi = rng.choice(['<?xml-stylesheet type="text/xsl" href="s.xsl"?>', '<?xml-model href="m.rnc"?>\n', '<?xmlfoo?>'])
        doc = pi + body
        data = (BOMS[enc] if rule == 'bom' else b'') + doc.encode(enc)
        xml = None
        rule += '-pi'
    nt = any(ord(c) > 127 for c in doc) and (enc != 'utf-8' or rule in ('bom', 'decl', 'meta'))
    return {'data': data, 'doc': doc, 'rule': rule, 'encoding': enc, 'xml': xml, 'vars': vars_, 'objs': objs, 'nontrivial': nt}


def mode_expectation(c, out):
    """direct (not metamorphic) expectations on documents of the 'mode' kind"""
    if '<input checked="${flag}"' not in c['doc'] or c['xml'] is None:
        return None
    flag = dict((k, v) for k, v in c['vars'])['flag']
    if c['xml']:
        if '\r\n<input' not in out:
            return 'XML document: line endings were rewritten'
        if flag in (False, None) and flag is False and 'checked="False"' not in out:
            return 'XML document: "checked" was treated as a boolean attribute'
    else:
        if '\r' in out:
            return 'HTML document: CR / CRLF were not rewritten to LF'
        if flag is False and 'checked' in out.split('<input', 1)[1].split('>', 1)[0]:
            return 'HTML document: the false boolean attribute "checked" was not dropped'
        if flag is True and 'checked="checked"' not in out:
            return 'HTML document: the true boolean attribute was not rendered as checked="checked"'
    return None


def run_rewritten(prev, c, d, idx):
    """the same template objects, having held another document before: write() again / the file rewritten under auto_reload"""
    from chameleon import PageTemplate, PageTemplateFile
    kw = {k: talgen.pyval(v, c['objs']) for k, v in c['vars']}
    res = {}
    try:
        t = PageTemplate(prev['data'])
    except Exception:
        t = None
    if t is not None:
        try:
            t.write(c['data'])
            res['write() on an object that held another document'] = {'out': t(**kw), 'content_type': t.content_type, 'content_encoding': t.content_encoding}
        except Exception as e:
            res['write() on an object that held another document'] = {'exc': type(e).__name__, 'msg': str(e).split('\n')[0][:120]}
    path = os.path.join(d, 'rw%d.pt' % idx)
    try:
        with open(path, 'wb') as f:
            f.write(prev['data'])
        os.utime(path, (1000, 1000))
        try:
            t = PageTemplateFile(path, auto_reload=True)
            t.cook_check()
        except Exception:
            t = None
        if t is not None:
            with open(path, 'wb') as f:
                f.write(c['data'])
            os.utime(path, (2000, 2000))
            try:
                res['file rewritten under auto_reload'] = {'out': t(**kw), 'content_type': t.content_type, 'content_encoding': t.content_encoding}
            except Exception as e:
                res['file rewritten under auto_reload'] = {'exc': type(e).__name__, 'msg': str(e).split('\n')[0][:120]}
    finally:
        if os.path.exists(path):
            os.unlink(path)
    return res


def run_pair(c, d, idx):
    """render bytes (string class or file class) and the str document; -> (result_bytes, result_str, meta)"""
    from chameleon import PageTemplate, PageTemplateFile
    kw = {k: talgen.pyval(v, c['objs']) for k, v in c['vars']}

    # the `encoding` option is about what render() returns (and about byte values that are inserted): it says nothing about how a
    # template given as bytes is read
    enc = [None, None, None, 'windows-1251', 'latin-1', 'utf-8'][idx % 6]
    opt = {'encoding': enc} if enc else {}

    def go(f):
        try:
            t = f()
            out = t(**kw)
            if isinstance(out, bytes):
                out = out.decode(enc)
            return {'out': out, 'content_type': t.content_type, 'content_encoding': t.content_encoding}
        except Exception as e:
            return {'exc': type(e).__name__, 'msg': str(e).split('\n')[0][:120]}
    rs = go(lambda: PageTemplate(c['doc'], **opt))
    rb = go(lambda: PageTemplate(c['data'], **opt))
    path = os.path.join(d, 't%d.pt' % idx)
    with open(path, 'wb') as f:
        f.write(c['data'])
    rf = go(lambda: PageTemplateFile(path, **opt))
    os.unlink(path)
    return rs, rb, rf


def correspondence(ctx):
    # (1) the sniffing function itself: utils.read_bytes vs the model on grid bodies and byte-level mutations of them
    from chameleon.utils import read_bytes
    reqs, exps = [], []
    n = ctx.budget(1500, 40000)
    while len(reqs) < n:
        c = make_case(ctx.rng)
        if c is None:
            continue
        data = c['data'][:400]
        if ctx.rng.random() < 0.3:
            b = bytearray(data)
            for _ in range(ctx.rng.randint(1, 3)):
                k = ctx.rng.choice(['flip', 'cut', 'bom', 'drop'])
                if k == 'flip' and b:
                    b[ctx.rng.randrange(len(b))] = ctx.rng.randrange(256)
                elif k == 'cut' and b:
                    del b[ctx.rng.randrange(len(b)):]
                elif k == 'bom':
                    b[0:0] = ctx.rng.choice(list(BOMS.values()) + [b'\x00\x00', b'\xff\xfe\x00\x00<'])
                elif k == 'drop' and b:
                    del b[0]
            data = bytes(b)
        try:
            doc, enc, ct = read_bytes(data, 'utf-8')
            e = {'doc': [ord(ch) for ch in doc], 'encoding': enc, 'content_type': ct}
        except UnicodeDecodeError:
            e = {'exc': 'UnicodeDecodeError'}
        except LookupError:
            e = {'exc': 'LookupError'}
        reqs.append({'op': 'sniff', 'b': list(data)})
        exps.append(e)
    outs = core.par_batch(reqs)
    for r, e, o in zip(reqs, exps, outs):
        m = o.get('ok')
        if m is None:
            ctx.disagree('sniff: model error', {'bytes': r['b']}, model=o, impl=e)
            continue
        if 'unsupported' in m:
            ctx.count('model_unsupported')
            continue
        ctx.count('correspondence_cases')
        if m != e:
            ctx.disagree('read_bytes: model and implementation differ', {'bytes': r['b']}, model=m, impl=e)
    # (2) whole pipeline on byte bodies
    cases = []
    while len(cases) < ctx.budget(500, 15000):
        c = make_case(ctx.rng)
        if c is None or len(c['data']) > 1500:
            continue
        cases.append({'src': list(c['data']), 'bytes': True, 'vars': c['vars'], 'objs': c['objs']})
    pipeline.run_cases(ctx, cases, what='byte input')
    # (3) str path with meta elements (content type decision of write)
    cases = []
    for _ in range(ctx.budget(200, 5000)):
        ct = ctx.rng.choice(['text/html', 'text/xml', 'application/xhtml+xml'])
        doc = ctx.rng.choice(['', '<html>']) + meta(ctx.rng, 'utf-8', ct) + '<p>a\r\nb</p><input checked="${f}" />'
        cases.append({'src': doc, 'vars': [['f', ctx.rng.choice([True, False])]], 'objs': []})
    pipeline.run_cases(ctx, cases, what='str input with meta')


def oracle(ctx):
    nt = 0
    hist = {}
    d = tempfile.mkdtemp(prefix='c17_')
    try:
        n = ctx.budget(1500, 80000)
        i = 0
        prev = None
        while i < n:
            c = make_case(ctx.rng)
            if c is None:
                continue
            i += 1
            ctx.count('evaluations')
            key = '%s/%s' % (c['rule'], c['encoding'].lower().replace('_', '-'))
            hist[key] = hist.get(key, 0) + 1
            nt += 1 if c['nontrivial'] else 0
            rs, rb, rf = run_pair(c, d, i)
            inp = {'bytes': list(c['data']), 'document': c['doc'], 'rule': c['rule'], 'encoding': c['encoding'], 'vars': c['vars'], 'objs': c['objs']}
            if 'exc' in rs:
                # the document itself does not compile/render as str: bytes must fail alike
                if rb.get('exc') != rs['exc'] or rf.get('exc') != rs['exc']:
                    ctx.violation('bytes and str input fail differently', inp, expected=rs, actual={'bytes': rb, 'file': rf})
                continue
            extra = []
            if prev is not None and i % 3 == 0:
                extra = list(run_rewritten(prev, c, d, i).items())
                ctx.count('evaluations', len(extra))
            prev = c
            for label, r in [('PageTemplate(bytes)', rb), ('PageTemplateFile', rf)] + extra:
                if r.get('out') != rs['out']:
                    ctx.violation('%s does not render like the same document supplied as str' % label, inp, expected=rs, actual=r)
                    break
                if '﻿' in r['out'] and '﻿' not in c['doc']:
                    ctx.violation('%s: a byte-order mark reaches the output' % label, inp, actual=r)
                    break
                want_ct = rs.get('content_type') if c['xml'] is None else ('text/xml' if c['xml'] else 'text/html')
                if r['content_type'] != want_ct:
                    ctx.violation('%s: content_type does not report the XML/HTML decision' % label, inp, expected=want_ct, actual=r['content_type'])
                    break
                try:
                    same = c['data'].decode(r['content_encoding']).lstrip('﻿') == c['doc']
                except Exception:
                    same = False
                if not same:
                    ctx.violation('%s: content_encoding does not name an encoding that decodes the input' % label, inp,
                                  expected=c['encoding'], actual=r['content_encoding'])
                    break
            else:
                m = mode_expectation(c, rb['out'])
                if m:
                    ctx.violation(m, inp, actual=rb)
    finally:
        shutil.rmtree(d, ignore_errors=True)
    ctx.cov['rule_encoding_histogram'] = hist
    ctx.counters['nontrivial'] = nt
    ctx.sample({'rule': 'decl', 'document': '<?xml version="1.0" encoding="shift_jis"?><p>日本語</p>', 'encoding': 'shift_jis'})
    # known findings: exact inputs
    from chameleon import PageTemplate
    t = PageTemplate(D17B)
    if t.content_encoding != 'koi8-r':
        ctx.violation('meta element with content before http-equiv is not honoured', {'bytes': list(D17B)}, expected='koi8-r',
                      actual=t.content_encoding, finding='D-17b' if t.content_encoding == 'utf-8' else None)
    t = PageTemplate(D17C)
    if t.content_type != 'text/html':
        ctx.violation('a meta content type switches a document without XML declaration to XML mode', {'document': D17C}, expected='text/html',
                      actual=t.content_type, finding='D-17c' if t.content_type == 'text/xml' else None)


D17B = b'<meta content="text/html; charset=koi8-r" http-equiv="Content-Type"><p>x</p>'
D17C = '<meta http-equiv="Content-Type" content="text/xml; charset=utf-8"><p>x</p>'


def reproduce_finding(ctx, f):
    return None


def replay(ctx, case):
    v = case.get('violation', case)
    c = v['input']
    if 'bytes' in c and 'document' in c:
        d = tempfile.mkdtemp(prefix='c17_')
        try:
            cc = {'data': bytes(c['bytes']), 'doc': c['document'], 'vars': c.get('vars', []), 'objs': c.get('objs', [])}
            rs, rb, rf = run_pair(cc, d, 0)
        finally:
            shutil.rmtree(d, ignore_errors=True)
        if rb.get('out') != rs.get('out') or rf.get('out') != rs.get('out'):
            ctx.violation('bytes vs str', c, expected=rs, actual={'bytes': rb, 'file': rf})
        return {'str': rs, 'bytes': rb, 'file': rf}
    return {'case': c}

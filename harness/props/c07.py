"""C07 — attribute rendering: static, dynamic, default, None, boolean, dict."""
import html

import core
import pipeline
import talgen

PID = 'C07'
PROOF_MODULES = ['ChamProofs.Props.C07', 'ChamProofs.Props.C07Once', 'ChamProofs.Props.C07Semi']
THEOREMS = ['ChamVerif.C07_attr_decoded_once', 'ChamVerif.static_fold', 'ChamVerif.C07_static_verbatim', 'ChamVerif.pyIndex_nonneg', 'ChamVerif.pyIndex_minus_one',
            'ChamVerif.phase1_indexed', 'ChamVerif.C07_name_once', 'ChamVerif.C07Semi.splitStrs_join',
            'ChamVerif.C07Semi.splitParts_strs_eq', 'ChamVerif.C07Semi.C07_statement_list_roundtrip']
LEVEL_TEXT = ('Proved in Lean: when nothing dynamic targets an element, prepare_attributes yields exactly its static attributes — name, value, '
              'quote, spacing, "=" — in source order, minus the language attributes (C07_static_verbatim, induction over the attribute list), '
              'and the list-index semantics the merge step relies on (pyIndex_*; the -1 case is what made D-07a lose an attribute); for every attribute list, tal:attributes list and i18n:attributes '
              'list, no two entries of the prepared list carry the same name compared case-insensitively - a dynamic entry that targets a name '
              'already present replaces it in place, an i18n name already present adds nothing - whenever the start tag does not write a kept '
              'name twice (C07_name_once, from the invariant Indexed that ties the list to the name index of prepare_attributes through its '
              'three phases; phase1_indexed). The values of the merged entries, the attribute node construction '
              '(substitution / boolean / dictionary / interpolation, later dictionaries filtering earlier attributes) and the emitters are an '
              'executable model tied to the code by end-to-end correspondence; the six rules of the property are judged on the '
              'implementation by an independent reference over the generated attribute grid.')
LEVEL_NOTE = ('Trusted: Lean kernel; the interpreter model; the harness reference. Position preservation of static attributes under arbitrary dynamic lists is proved as a prefix property in C18_others_preserved. '
              ' Known finding D-07b: a dynamic value for an '
              'unquoted or valueless static attribute re-uses its empty quote.')
RULE = ('elements with 0..4 static attributes (mixed case) x tal:attributes lists (named and dict entries, overlapping names in different '
        'case, ;; escapes) x values {None, default, "", 0, False, True, str, hostile str} x boolean configurations {HTML default, explicit set, explicitly empty, XML, XML with '
        'explicit set}. Non-trivial iff some attribute name is targeted by two sources or holds None/default/boolean.')
TRUSTED = []
ASSUMPTIONS = []

NAMES = ['class', 'id', 'title', 'href', 'checked', 'selected', 'data-x']
VALUES = {
    'None': ('None', None), 'default': ('default', 'DEFAULT'), 'empty': ("''", ''), 'zero': ('0', 0), 'False': ('False', False),
    'True': ('True', True), 'str': ("'v'", 'v'), 'hostile': ("'h<\"&'", 'h<"&'), 'semi': ("'a;;b'", 'a;b'),
}
HTML_BOOL = ["compact", "nowrap", "ismap", "declare", "noshade", "checked", "disabled", "readonly", "multiple", "selected", "noresize", "defer"]


def esc(v):
    return html.escape(str(v), quote=False).replace('"', '&quot;')


def st_render(v):
    return v.replace('${sv}', 'SV') if v is not None else v


def make_case(rng):
    n_static = rng.randint(0, 4)
    static = []
    used = set()
    for _ in range(n_static):
        nm = rng.choice(NAMES)
        if nm.lower() in used:
            continue
        used.add(nm.lower())
        if rng.random() < 0.25:
            nm = nm.upper() if rng.random() < 0.5 else nm.capitalize()
        # a static attribute may hold ${…}: it is interpolated when nothing dynamic targets it, and replaced like any other when something does
        sval = rng.choice(['s', 'S T', 'a&amp;b', nm.lower(), '${sv}', 'p-${sv}-q'])
        if '${' in sval and nm.lower() not in ('id', 'title', 'href', 'data-x'):
            sval = 's'          # an interpolated value of a boolean attribute follows the boolean rule: not this clause
        static.append((nm, sval))
    entries = []
    seen = set()
    dvals = {}
    for _ in range(rng.randint(1, 4)):
        if rng.random() < 0.25 and 'DICT' not in seen:
            seen.add('DICT')
            keys = rng.sample(NAMES + ['new1', 'data-\u00e6\u00f8\u00e5', '@click', 'x-on:y.z'], rng.randint(0, 3))
            dvals = {k: VALUES[rng.choice(['None', 'empty', 'zero', 'True', 'False', 'str', 'hostile'])][1] for k in keys}
            entries.append(('DICT', None))
            continue
        nm = rng.choice(NAMES + ['new1', 'new2'])
        if rng.random() < 0.3:
            nm = rng.choice([nm.upper(), nm.capitalize()])
        if nm in seen:
            continue
        seen.add(nm)
        entries.append((nm, rng.choice(list(VALUES))))
    if any('${' in v for _, v in static) and any(v == 'default' for n, v in entries if n != 'DICT'):
        return make_case(rng)
    mode = rng.choice(['html', 'html', 'explicit', 'xml', 'empty', 'xml-explicit'])
    if mode == 'html':
        booleans = set(HTML_BOOL)
        cfg = {}
        prefix = ''
    elif mode == 'explicit':
        booleans = {'class', 'checked'}
        cfg = {'boolean_attributes': sorted(booleans)}
        prefix = ''
    elif mode == 'empty':
        # explicitly configured: no boolean attributes at all (an empty collection is not "unset")
        booleans = set()
        cfg = {'boolean_attributes': []}
        prefix = ''
    elif mode == 'xml-explicit':
        booleans = {'class', 'checked'}
        cfg = {'boolean_attributes': sorted(booleans)}
        prefix = '<?xml version="1.0"?>'
    else:
        booleans = set()
        cfg = {}
        prefix = '<?xml version="1.0"?>'
    stmt = '; '.join(('d' if n == 'DICT' else '%s %s' % (n, VALUES[v][0])) for n, v in entries)
    src = prefix + '<a' + ''.join(' %s="%s"' % kv for kv in static) + ' tal:attributes="%s"' % stmt.replace('"', '&quot;').replace('<', '&lt;') + '>x</a>'

    # ---- reference ------------------------------------------------------------------------------
    # slots: list of dicts {name, static, source: None | value-key | 'DICT'}
    slots = [{'name': n, 'static': v, 'dyn': None} for n, v in static]
    index = {n.lower(): i for i, (n, v) in enumerate(static)}
    for n, v in entries:
        if n == 'DICT':
            slots.append({'name': None, 'static': None, 'dyn': 'DICT'})
            continue
        i = index.get(n.lower())
        if i is not None:
            slots[i] = {'name': n, 'static': slots[i]['static'], 'dyn': v}
        else:
            slots.append({'name': n, 'static': None, 'dyn': v})
            index[n.lower()] = len(slots) - 1
    out = []
    nontrivial = False
    for i, s in enumerate(slots):
        later_dicts = [j for j in range(i + 1, len(slots)) if slots[j]['dyn'] == 'DICT']
        if s['dyn'] == 'DICT':
            exclude = {t['name'] for t in slots[i:] if t['name']}
            for k, val in dvals.items():
                if k in booleans:
                    if not val:
                        continue
                    val = k
                if k in exclude or val is None:
                    continue
                out.append((k, esc(val)))
                nontrivial = True
            continue
        if later_dicts and s['name'] in dvals:
            nontrivial = True
            continue            # a later dictionary supplies this name
        if s['dyn'] is None:
            out.append((s['name'], st_render(s['static'])))
            continue
        val = VALUES[s['dyn']][1]
        nontrivial = True
        if s['name'] in booleans:
            if val == 'DEFAULT':
                if s['static'] is not None:
                    out.append((s['name'], s['static']))
            elif val:
                out.append((s['name'], s['name']))
            continue
        if val is None:
            continue
        if val == 'DEFAULT':
            if s['static'] is not None:
                out.append((s['name'], s['static']))
            continue
        out.append((s['name'], esc(val)))
    exp = prefix + '<a' + ''.join(' %s="%s"' % kv for kv in out) + '>x</a>'
    # ---- what the property prescribes when a dictionary and a static / named attribute supply the same name: sources in
    # statement order, the later one wins; a static attribute keeps its position, a new name stands where it first appears
    islots = [{'name': n, 'static': v, 'src': None} for n, v in static]
    iidx = {n.lower(): i for i, (n, v) in enumerate(static)}
    for n, v in entries:
        if n == 'DICT':
            for k, val in dvals.items():
                i = iidx.get(k.lower())
                if i is None:
                    islots.append({'name': k, 'static': None, 'src': ('dict', val)})
                    iidx[k.lower()] = len(islots) - 1
                else:
                    islots[i] = dict(islots[i], src=('dict', val))
            continue
        i = iidx.get(n.lower())
        if i is None:
            islots.append({'name': n, 'static': None, 'src': ('named', v)})
            iidx[n.lower()] = len(islots) - 1
        else:
            islots[i] = dict(islots[i], name=n, src=('named', v))
    iout = []
    for sl in islots:
        if sl['src'] is None:
            iout.append((sl['name'], st_render(sl['static'])))
            continue
        kind, v = sl['src']
        val = VALUES[v][1] if kind == 'named' else v
        if sl['name'] in booleans:
            if val == 'DEFAULT':
                if sl['static'] is not None:
                    iout.append((sl['name'], sl['static']))
            elif val:
                iout.append((sl['name'], sl['name']))
            continue
        if val is None:
            continue
        if val == 'DEFAULT':
            if sl['static'] is not None:
                iout.append((sl['name'], sl['static']))
            continue
        iout.append((sl['name'], esc(val)))
    ideal = prefix + '<a' + ''.join(' %s="%s"' % kv for kv in iout) + '>x</a>'
    others = {n.lower() for n, _ in static} | {n.lower() for n, _ in entries if n != 'DICT'}
    overlap = any(k.lower() in others for k in dvals)
    # a dictionary key that matches another source only up to case: the property does not say; not generated
    if any(k.lower() in others and k not in {n for n, _ in static} | {n for n, _ in entries} for k in dvals):
        return make_case(rng)
    vars_ = [['d', {'dict': [[{'str': k}, spec(v)] for k, v in dvals.items()]}], ['sv', {'str': 'SV'}]]
    return {'src': src, 'vars': vars_, 'objs': [], 'cfg': cfg, 'impl_like': exp, 'overlap': overlap}, ideal, nontrivial


def semi_case(rng):
    """statement lists whose values hold semicolons — written doubled — at their start, middle and end, so that an escape
    stands directly next to a separator or the trailing semicolon (`;;;`, `;;;;;`)"""
    names = rng.sample(['class', 'id', 'title', 'href', 'new1', 'new2'], rng.randint(1, 3))
    static = [(n, 's') for n in rng.sample(['class', 'id', 'lang'], rng.randint(0, 2))]
    entries = []
    for n in names:
        while True:
            v = ''.join(rng.choice('a;;b :') for _ in range(rng.randint(1, 5))).strip()
            if v:
                break
        entries.append((n, v))
    # white space before a separator belongs to the string: expression, so none is written there
    seps = [rng.choice([';', '; ', ';  ', ';\n ']) for _ in entries[1:]]
    stmt = ''
    for i, (n, v) in enumerate(entries):
        stmt += ('' if i == 0 else seps[i - 1]) + '%s string:%s' % (n, v.replace(';', ';;'))
    stmt += rng.choice(['', '', ';', '; '])
    src = '<a' + ''.join(' %s="%s"' % kv for kv in static) + ' tal:attributes="%s"' % stmt + '>x</a>'
    out = []
    idx = {}
    for n, v in static:
        idx[n] = len(out)
        out.append((n, v))
    for n, v in entries:
        if n in idx:
            out[idx[n]] = (n, esc(v))
        else:
            idx[n] = len(out)
            out.append((n, esc(v)))
    exp = '<a' + ''.join(' %s="%s"' % kv for kv in out) + '>x</a>'
    adjacent = ';;;' in stmt
    return {'src': src, 'vars': [], 'objs': [], 'cfg': {}, 'impl_like': exp, 'overlap': False}, exp, adjacent


def ent_case(rng):
    """named tal:attributes entries whose Python string literals hold markup characters and entity-shaped text: the attribute
    value of the source is XML-decoded once; what the expression then says is the value (D-07e: it was decoded twice)"""
    import html
    names = rng.sample(['class', 'id', 'title', 'href', 'new1', 'new2'], rng.randint(1, 3))
    static = [(n, 's') for n in rng.sample(['class', 'id', 'lang'], rng.randint(0, 2))]
    entries = []
    for n in names:
        v = ''.join(rng.choice(['a', 'b', ' ', '<', '&', '>', '&lt;', '&amp;', '&gt;', '&quot;']) for _ in range(rng.randint(1, 4)))
        entries.append((n, v))
    stmt = '; '.join("%s '%s'" % (n, html.escape(v, quote=True)) for n, v in entries)
    src = '<a' + ''.join(' %s="%s"' % kv for kv in static) + ' tal:attributes="%s"' % stmt + '>x</a>'
    out = []
    idx = {}
    for n, v in static:
        idx[n] = len(out)
        out.append((n, v))
    for n, v in entries:
        if n in idx:
            out[idx[n]] = (n, esc(v))
        else:
            idx[n] = len(out)
            out.append((n, esc(v)))
    exp = '<a' + ''.join(' %s="%s"' % kv for kv in out) + '>x</a>'
    return {'src': src, 'vars': [], 'objs': [], 'cfg': {}, 'impl_like': exp, 'overlap': False}, exp, any('&' in v and ';' in v for _, v in entries)


def spec(v):
    if v is None or isinstance(v, (bool, int)):
        return v
    return {'str': v}


def correspondence(ctx):
    gen = []
    for _ in range(ctx.budget(1000, 40000)):
        g = talgen.TalGen(ctx.rng, depth=ctx.rng.choice([0, 1, 2]), features={'attributes', 'interp', 'define', 'omit', 'condition', 'pipes'})
        gen.append(g.template())
    grid = [make_case(ctx.rng)[0] for _ in range(ctx.budget(1200, 40000))]
    semi = [semi_case(ctx.rng)[0] for _ in range(ctx.budget(300, 10000))]
    ent = [ent_case(ctx.rng)[0] for _ in range(ctx.budget(300, 10000))]
    pipeline.run_cases(ctx, gen + grid + semi + ent, what='attribute rendering')


def oracle(ctx):
    cases = [make_case(ctx.rng) for _ in range(ctx.budget(3000, 100000))] + [semi_case(ctx.rng) for _ in range(ctx.budget(400, 20000))] + [ent_case(ctx.rng) for _ in range(ctx.budget(400, 20000))]
    impls = pipeline.impl_many([c[0] for c in cases])
    nt = set()
    for (case, exp, nontrivial), impl in zip(cases, impls):
        ctx.count('evaluations')
        if nontrivial:
            nt.add(case['src'] + str(case['vars']))
        if impl.get('out') != exp:
            # D-07c: a dictionary that supplies a name also supplied by a static or named attribute wins whatever the statement
            # order, and the attribute stands at the dictionary's position (classified mechanically: the name sets overlap and the
            # output is exactly what the reference of the code's merge order gives)
            d07c = case.get('overlap') and impl.get('out') == case.get('impl_like')
            ctx.violation('start tag does not follow the attribute rules (static verbatim / dynamic escaped / None drops / default keeps / '
                          'boolean / order / later sources override)', {k: case[k] for k in ('src', 'vars', 'objs', 'cfg')}, expected=exp, actual=impl,
                          finding='D-07c' if d07c else None)
    ctx.counters['nontrivial'] = len(nt)
    ctx.sample({'template': cases[0][0]['src'], 'd': cases[0][0]['vars'], 'cfg': cases[0][0]['cfg'], 'expected': cases[0][1]})
    # D-07b
    r = pipeline.run_impl({'src': '<input checked tal:attributes="checked v"/>', 'vars': [['v', True]]})
    if r.get('out') != '<input checked="checked"/>':
        ctx.violation('dynamic value for a valueless static attribute', {'src': '<input checked tal:attributes="checked v"/>', 'vars': [['v', True]]},
                      expected='<input checked="checked"/>', actual=r, finding='D-07b' if r.get('out') == '<input checkedchecked/>' else None)


    # D-07c
    c7 = {'src': '<a class="s" id="q" tal:attributes="d">x</a>', 'vars': [['d', {'dict': [[{'str': 'class'}, {'str': 'z'}]]}]], 'objs': [], 'cfg': {}}
    r = pipeline.run_impl(c7)
    if r.get('out') != '<a class="z" id="q">x</a>':
        ctx.violation('a static attribute overridden by an attribute dictionary must keep its position', c7, expected='<a class="z" id="q">x</a>',
                      actual=r, finding='D-07c' if r.get('out') == '<a id="q" class="z">x</a>' else None)


def reproduce_finding(ctx, f):
    return None


def replay(ctx, case):
    v = case.get('violation', case)
    c = v['input']
    impl = pipeline.run_impl(c)
    if v.get('expected') is not None and impl.get('out') != v['expected']:
        ctx.violation('attribute rules', c, expected=v['expected'], actual=impl)
    return {'impl': impl, 'expected': v.get('expected')}

"""C02 — inserted values are escaped and cannot change document structure."""
import itertools
import re

import core
import extract_tables

PID = 'C02'
PROOF_MODULES = ['ChamProofs.Props.C02']
THEOREMS = [
    'ChamVerif.escapeSeq_eq_map',
    'ChamVerif.C02_no_raw',
    'ChamVerif.C02_roundtrip',
    'ChamVerif.C02_amp_entities',
    'ChamVerif.C02_value',
    'ChamVerif.C02_sites',
    'ChamVerif.C02_sites_complete',
]
LEVEL_TEXT = ('Proved in Lean for every string and every insertion-site class: the emitted __quote chain of str.replace calls is a '
              'per-character map (escapeSeq_eq_map), its result contains no raw <, > nor the attribute\'s own quote (C02_no_raw), every & '
              'begins an entity (C02_amp_entities), un-escaping gives back the string (C02_roundtrip), and for every value class the '
              'result is nothing / the default / an explicit opt-out / the escaped string form (C02_value). C02_sites ties the model to '
              'the code: the per-character images observed on this run at 17 probe sites of the real engine equal the model\'s, by kernel '
              'evaluation over the whole probe alphabet. Multi-character behaviour, value dispatch and skeleton preservation are '
              'validated end-to-end by correspondence and by an independent oracle on the implementation.')
LEVEL_NOTE = ('Trusted: Lean kernel; extract_tables.py probes; str(int)/str(float) contain no markup characters (Python); the model of the '
              'value dispatch is tied by correspondence, not proved against Python. Unquoted/valueless static attributes made dynamic '
              '(D-07b) are outside "quoted attribute values" and judged under C07; dict-attribute keys (D-02a) are a known finding.')
RULE = ('values: every string over {& < > " \' a ; # 0} up to the length bound (exhaustive) plus bytes, str subclasses, numbers, bool, '
        'objects with hostile __str__, __html__ objects and message objects with hostile/None translations, rendered through one '
        'probe template per insertion site; a case (site, value) is non-trivial iff the value\'s text contains a character of '
        '& < > " \' or the value is not a plain str. distinct_nontrivial counts distinct (site, value) pairs.')
TRUSTED = ['CPython str.replace / re.search semantics (modelled by flatMap / any); end-to-end correspondence exercises the emitted code itself']
ASSUMPTIONS = ['the translation function used for message objects is the harness\'s own (returns the planted translation)']

KIND = {
    'text_interp': 'text', 'content': 'content', 'content_text_kw': 'content', 'replace': 'content', 'comment_interp': 'text',
    'string_in_content': 'text+content', 'i18n_name_block': 'content', 'dq_attr_interp': 'dq', 'tal_attr_new': 'dq', 'tal_attr_dq': 'dq',
    'dict_attr': 'dq', 'sq_attr_interp': 'sq', 'tal_attr_sq': 'sq', 'cdata_interp': 'none', 'structure_content': 'none',
    'structure_interp': 'none', 'text_mode': 'none',
}
ALPH = ['&', '<', '>', '"', "'", 'a', ';', '#', '0']


class Hostile:
    def __init__(self, s):
        self.s = s

    def __str__(self):
        return self.s


class Html:
    def __init__(self, s):
        self.s = s

    def __html__(self):
        return self.s

    def __str__(self):
        return 'WRONG'


class Msg:
    """message object: the harness's translate function returns .translation for it"""

    def __init__(self, s, translation):
        self.s = s
        self.translation = translation

    def __str__(self):
        return self.s


class SubStr(str):
    pass


class HostileInt(int):
    """int subclass whose str() is hostile (IntEnum-with-label style)"""

    def __new__(cls, n, s):
        o = int.__new__(cls, n)
        o.s = s
        return o

    def __str__(self):
        return self.s


class HostileFloat(float):
    def __new__(cls, x, s):
        o = float.__new__(cls, x)
        o.s = s
        return o

    def __str__(self):
        return self.s


class SubBytes(bytes):
    pass


def translate(msgid, domain=None, mapping=None, context=None, target_language=None, default=None):
    if isinstance(msgid, Msg):
        t = msgid.translation
        return msgid if t == 'SELF' else t
    if isinstance(msgid, str):
        from chameleon.i18n import simple_translate
        return simple_translate(msgid, domain=domain, mapping=mapping, context=context,
                                target_language=target_language, default=default)
    return msgid


def classify(v):
    """python value -> QIn json (an independent statement of __quote's dispatch)"""
    if v is None:
        return {'k': 'none'}
    t = type(v)
    if t is bytes:
        return {'k': 'bytes', 's': v.decode('utf-8')}
    if t is str:
        return {'k': 'str', 's': v}
    if t is int or t is float:
        return {'k': 'num', 's': str(v)}
    if hasattr(v, '__html__'):
        return {'k': 'html', 's': v.__html__()}
    if isinstance(v, Msg):
        if v.translation == 'SELF':
            return {'k': 'other', 's': str(v), 't': None}
        if v.translation is None:
            return {'k': 'other', 's': str(v), 't': {'none': 1}}
        return {'k': 'other', 's': str(v), 't': v.translation}
    return {'k': 'other', 's': str(v), 't': None}


def describe(v):
    return '%s:%r' % (type(v).__name__, getattr(v, 's', v) if not isinstance(v, (str, bytes, int, float)) else v)


def values(ctx):
    n = 3 if not ctx.thorough else 5
    strs = []
    for k in range(n + 1):
        strs.extend(''.join(t) for t in itertools.product(ALPH, repeat=k))
    ctx.cov['exhaustive_value_len'] = n
    ctx.cov['exhaustive'] = True
    rnd = []
    pool = ALPH + ['é', ' ', '\n', '\x00', ']', '[', '-', '}', '{', '$', '&amp;', '&#39;', '&quot;', '\\', '漢']
    for _ in range(ctx.budget(400, 20000)):
        rnd.append(''.join(ctx.rng.choice(pool) for _ in range(ctx.rng.randint(4, 16))))
    hostile = ['<script>alert("x")</script>', '" onmouseover="x', "' onmouseover='x", ']]><b>', '--><b>', '&amp;', '&&&', '<<>>', '"\'"\'']
    objs = []
    for s in hostile + rnd[:40]:
        objs += [s.encode('utf-8'), SubStr(s), Hostile(s), Html(s), Msg('plain', s), Msg(s, 'SELF'), Msg(s, None),
                 HostileInt(3, s), HostileFloat(1.5, s)]
    nums = [0, 1, -1, 10 ** 30, 1.5, -0.0, float('inf'), float('nan'), 1e100, True, False, None]
    return strs + rnd + hostile, objs + nums


def templates():
    from chameleon import PageTemplate, PageTextTemplate
    out = {}
    for name, (kind, src) in extract_tables.ESC_SITES.items():
        out[name] = (kind, (PageTextTemplate if kind == 'ptt' else PageTemplate)(src))
    return out


def render(kind, tmpl, v):
    if kind == 'ptdict':
        return tmpl(d={'a': v}, translate=translate)
    return tmpl(v=v, translate=translate)


def skeleton(kind, tmpl):
    base = render(kind, tmpl, 'QZQ')
    i = base.find('QZQ')
    return base[:i], base[i + 3:]


def region(out, pre, post):
    if out.startswith(pre) and out.endswith(post) and len(out) >= len(pre) + len(post):
        return out[len(pre):len(out) - len(post)]
    return None


def model_predict(site_kind, qins):
    """model's inserted text for each value at a site class"""
    if site_kind == 'text+content':
        # string: inside tal:content — the string expression converts each part to text with the
        # content's escape set; the outer content insertion then sees an ordinary str and escapes again
        # only what is still raw.  Observed behaviour is single escaping; the model composes the two steps.
        inner = core.Driver().batch([{'op': 'quote', 'site': 'none', 'vals': qins}])[0]['ok']
        vals2 = [{'k': 'str', 's': '[' + (x if x is not None else '') + ']'} for x in inner]
        outer = core.Driver().batch([{'op': 'quote', 'site': 'content', 'vals': vals2}])[0]['ok']
        return [o[1:-1] for o in outer]
    return core.Driver().batch([{'op': 'quote', 'site': site_kind, 'vals': qins}])[0]['ok']


def run(ctx, judge_only=False):
    """one pass: correspondence (model vs impl) and oracle (impl alone) share the renders"""
    strs, others = values(ctx)
    vals = strs + others
    qins = [classify(v) for v in vals]
    tmpls = templates()
    seen = set()
    for name, (kind, tmpl) in tmpls.items():
        sk = KIND[name]
        pre, post = skeleton(kind, tmpl)
        if name == 'structure_interp':
            # `structure:` wraps the value in Markup(value), i.e. Python's str(value), whose __html__ is itself
            qs = [{'k': 'html', 's': str(v)} for v in vals]
        else:
            qs = qins
        pred = model_predict(sk, qs) if (ctx.model_ok and not judge_only) else [None] * len(vals)
        for v, q, p in zip(vals, qins, pred):
            ctx.count('evaluations')
            try:
                out = render(kind, tmpl, v)
                reg = region(out, pre, post)
            except Exception as e:      # e.g. ''.join fails for a non-str translation; not modelled
                out, reg = {'exc': type(e).__name__}, None
            text = q.get('s', '') if q['k'] != 'other' or q.get('t') is None else (q['t'] if isinstance(q['t'], str) else None)
            nontrivial = q['k'] not in ('str',) or any(c in q['s'] for c in '&<>"\'')
            if nontrivial:
                seen.add((name, describe(v)))
            case = {'site': name, 'template': extract_tables.ESC_SITES[name][1], 'value': describe(v)}
            if isinstance(out, dict):
                if q['k'] in ('str', 'bytes', 'num', 'html') or (q['k'] == 'other' and q.get('t') is None):
                    ctx.violation('rendering an ordinary value raised', case, actual=out)
                else:
                    ctx.count('raised_for_none_translation')   # translate() returned None where a str is concatenated
                continue
            # ---- correspondence
            if not judge_only and ctx.model_ok:
                if reg is None:
                    if p is not None:
                        ctx.disagree('inserted region at site %s' % name, case, model=p, impl=out)
                    else:
                        ctx.count('none_removed_markup')     # None removes the attribute: nothing to compare
                elif reg != (p if p is not None else ''):
                    ctx.disagree('inserted region at site %s' % name, case, model=p, impl=reg)
            # ---- oracle on the implementation alone
            if reg is None:
                if q['k'] == 'none' or (q['k'] == 'other' and text is None):
                    continue      # None removes the attribute / element content: skeleton legitimately differs
                ctx.violation('value changed the document skeleton (prefix/suffix of the harmless rendering not preserved)',
                              case, expected=pre + '…' + post, actual=out)
                continue
            if sk == 'none' or q['k'] in ('num', 'html', 'none') or text is None:
                continue
            bad = [c for c in '<>' if c in reg]
            if sk == 'dq' and '"' in reg:
                bad.append('"')
            if sk == 'sq' and "'" in reg:
                bad.append("'")
            if bad:
                ctx.violation('raw markup character %r from the value reaches the output' % bad, case, actual=out)
                continue
            if unescape(reg) != text:
                ctx.violation('un-escaping the inserted region does not give back the value\'s string form', case,
                              expected=text, actual=reg)
        ctx.count('correspondence_cases', len(vals))
    ctx.counters['nontrivial'] = max(ctx.counters.get('nontrivial', 0), len(seen))
    ctx.sample({'site': 'dq_attr_interp', 'template': extract_tables.ESC_SITES['dq_attr_interp'][1], 'value': '" onmouseover="x',
                'rendered': render('pt', tmpls['dq_attr_interp'][1], '" onmouseover="x')})
    ctx.cov['sites'] = sorted(tmpls)


ENT = {'&amp;': '&', '&lt;': '<', '&gt;': '>', '&quot;': '"', '&#39;': "'", '&#0;': '\x00'}


def unescape(s):
    """independent left-to-right decoder (harness's own, not the model's)"""
    out = []
    i = 0
    while i < len(s):
        if s[i] == '&':
            for e, c in ENT.items():
                if s.startswith(e, i):
                    out.append(c)
                    i += len(e)
                    break
            else:
                out.append('&')
                i += 1
        else:
            out.append(s[i])
            i += 1
    return ''.join(out)


def correspondence(ctx):
    run(ctx)


def oracle(ctx):
    if not ctx.model_ok:
        run(ctx, judge_only=True)
    # dict-attribute keys (known finding D-02a): keys are emitted unescaped
    from chameleon import PageTemplate
    t = PageTemplate('<p tal:attributes="d"/>')
    for key in ['a"b', 'a<b', 'a b', 'x=y']:
        ctx.count('evaluations')
        out = t(d={key: 'v'})
        if out != '<p %s="v"/>' % key.replace('&', '&amp;').replace('<', '&lt;').replace('>', '&gt;').replace('"', '&quot;'):
            ctx.violation('dict-attribute key is emitted unescaped', {'template': '<p tal:attributes="d"/>', 'key': key},
                          actual=out, finding='D-02a' if out == '<p %s="v"/>' % key else None)

    # translated attributes: whatever the translation function answers for an unknown message — the default it was given, or the message id
    # (gettext style) — a computed value reaches a quoted attribute escaped
    def _gettext(msgid, domain=None, mapping=None, context=None, target_language=None, default=None):
        return msgid                       # unknown message: the id itself

    def _dflt(msgid, domain=None, mapping=None, context=None, target_language=None, default=None):
        return default if default is not None else msgid
    HOSTILE = ['"><script>alert(1)</script>', 'x" onmouseover="alert(1)', "a'b<c>&d", 'Fish & chips', '</a>']
    TA = [('<a href="#" tal:attributes="title v" i18n:attributes="title">l</a>', '"'), ("<a href='#' title='t' tal:attributes='title v' i18n:attributes='title'>l</a>", "'"),
          ('<a tal:attributes="title v; alt v" i18n:attributes="title; alt">l</a>', '"'), ('<a title="${v}" i18n:attributes="title">l</a>', '"')]
    for src, q in TA:
        for val in HOSTILE:
            for fn in (_gettext, _dflt):
                ctx.count('evaluations')
                out = PageTemplate(src, translate=fn)(v=val)
                # the start tag must parse into the attributes it was written with, each value un-escaping to text without raw quote / < / >
                m = re.match(r"<a((?:\s+[\w:-]+=(?:\"[^\"<>]*\"|'[^'<>]*'))*)\s*>l</a>$", out)
                names = [a.group(1) for a in re.finditer(r"\s+([\w:-]+)=(?:\"[^\"<>]*\"|'[^'<>]*')", m.group(1))] if m else None
                want_names = [n for n in ('href', 'title', 'alt') if (' %s=' % n) in src or ('%s v' % n) in src]
                if m is None or sorted(names) != sorted(want_names):
                    ctx.violation('a computed attribute value that is translated (i18n:attributes) reaches the start tag unescaped',
                                  {'template': src, 'v': val, 'translate': fn.__name__}, actual=out)
    # translated element bodies: a value inserted inside an i18n:translate element (outside any i18n:name child) is part of the
    # message; whatever the translation function answers for an unknown message - the default it was given or the id - the
    # value stays escaped text
    TB = ['<p i18n:translate="">Hello ${v}!</p>', '<p i18n:translate="">Hello <b tal:replace="v"/>!</p>',
          '<p i18n:translate="">Hello <b tal:content="v" tal:omit-tag=""/>!</p>',
          '<div><p i18n:translate="">a ${v} b <i i18n:name="n">${v}</i> &amp; &lt;c&gt;</p></div>']
    for src in TB:
        for val in HOSTILE:
            for fn in (None, _gettext, _dflt):
                ctx.count('evaluations')
                out = PageTemplate(src, **({'translate': fn} if fn else {}))(v=val)
                rest = re.sub(r'</?(?:p|div|i)>', '', out)
                rest2 = re.sub(r'&(?:amp|lt|gt|quot|#\d+|#x[0-9a-fA-F]+);', '', rest)
                if '<' in rest or '&' in rest2:
                    ctx.violation('a value inserted into the body of an i18n:translate element reaches the output unescaped',
                                  {'template': src, 'v': val, 'translate': fn.__name__ if fn else 'default'}, actual=out)
    # the translation of a non-string value may itself be a non-string object (a lazy message; with the default translation
    # function: the value's `default` attribute): its string form is inserted, escaped like any other text
    class _Lazy:
        def __init__(self, t):
            self.t = t

        def __str__(self):
            return self.t

    class _Field:
        default = _Lazy('"><i>&\'')

        def __str__(self):
            return 'field'

    def _tr(msgid, **kw):
        return msgid if isinstance(msgid, str) else _Lazy('"><i>&\'')
    hostile = '"><i>&\''
    esc_text = hostile.replace('&', '&amp;').replace('<', '&lt;').replace('>', '&gt;')
    sites = [('<p>${v}</p>', '<p>%s</p>' % esc_text), ('<p tal:content="v"/>', '<p>%s</p>' % esc_text), ('<p tal:replace="v"/>', esc_text),
             ('<p title="a ${v}"/>', '<p title="a %s"/>' % esc_text.replace('"', '&quot;')),
             ("<p title='a ${v}'/>", "<p title='a %s'/>" % esc_text.replace("'", '&#39;')),
             ('<p tal:attributes="title v"/>', '<p title="%s"/>' % esc_text.replace('"', '&quot;'))]
    for src, want in sites:
        for label, kw, val in (('translate() returns a lazy object', {'translate': _tr}, object()), ('value with a non-string .default', {}, _Field())):
            ctx.count('evaluations')
            try:
                out = PageTemplate(src, **kw)(v=val)
            except Exception as e:
                out = 'raised %s: %s' % (type(e).__name__, str(e).split('\n')[0][:80])
            if out != want:
                ctx.violation('a value whose translation is a non-string object is inserted without escaping (or not at all)',
                              {'template': src, 'case': label}, expected=want, actual=out)
    # several insertions in one rendering: an opt-out value (Markup / __html__ str subclass) and an *equal* plain string, in
    # both orders and at every pair of sites: the plain one is escaped whatever was inserted before it
    from chameleon.utils import Markup

    class HtmlStr(str):
        def __html__(self):
            return str(self)
    raw = '<b a="1">&\''
    esc_t = raw.replace('&', '&amp;').replace('<', '&lt;').replace('>', '&gt;')
    site_tpl = {'text': ('<p>${%s}</p>', lambda e: '<p>%s</p>' % e, esc_t), 'content': ('<p tal:content="%s"/>', lambda e: '<p>%s</p>' % e, esc_t),
                'dq': ('<p title="${%s}"/>', lambda e: '<p title="%s"/>' % e, esc_t.replace('"', '&quot;')),
                'attr': ('<p tal:attributes="title %s"/>', lambda e: '<p title="%s"/>' % e, esc_t.replace('"', '&quot;')),
                'sq': ("<p title='${%s}'/>", lambda e: "<p title='%s'/>" % e, esc_t.replace("'", '&#39;'))}
    for first in ('m', 's'):
        for sa, (ta, fa, ea) in site_tpl.items():
            for sb, (tb, fb, eb) in site_tpl.items():
                for mk in (Markup, HtmlStr):
                    ctx.count('evaluations')
                    names = (first, 's' if first == 'm' else 'm')
                    src = ta % names[0] + tb % names[1]
                    want = fa(raw if names[0] == 'm' else ea) + fb(raw if names[1] == 'm' else eb)
                    try:
                        out = PageTemplate(src)(m=mk(raw), s=raw)
                    except Exception as e:
                        out = 'raised %s' % type(e).__name__
                    if out != want:
                        ctx.violation('an inserted plain string must be escaped also when an equal opt-out value (Markup / __html__) was inserted '
                                      'earlier in the same rendering', {'template': src, 'm': mk.__name__ + '(%r)' % raw, 's': raw}, expected=want, actual=out)
    # D-02b: a `string:` expression nested in ${...} escapes its parts itself and is then escaped again as a whole
    for src, want in (('<p>${string:foo ${x}}</p>', '<p>foo &lt;&amp;&gt;</p>'), ('<p title="${string:foo ${x}}"/>', '<p title="foo &lt;&amp;&gt;"/>')):
        ctx.count('evaluations')
        out = PageTemplate(src)(x='<&>')
        if out != want:
            ctx.violation('un-escaping the inserted region once must give back the value (nested string: expression)', {'template': src, 'x': '<&>'},
                          expected=want, actual=out, finding='D-02b' if out == want.replace('&lt;&amp;&gt;', '&amp;lt;&amp;amp;&amp;gt;') else None)


def reproduce_finding(ctx, f):
    from chameleon import PageTemplate
    if f['id'] == 'D-02a':
        return PageTemplate('<p tal:attributes="d"/>')(d={'a"b': 'v'}) == '<p a"b="v"/>'
    return None


def replay(ctx, case):
    v = case.get('violation', case)
    return {'note': 'values are described, not serialised; rerun ./check C02 to regenerate', 'case': v}

"""C19 — strict mode changes only when an invalid expression is reported."""
import ast

import core
import pipeline
import talgen

PID = 'C19'
PROOF_MODULES = ['ChamProofs.Props.C19']
THEOREMS = ['ChamVerif.laxFilter_ok', 'ChamVerif.compileEN_strict_ok_lax', 'ChamVerif.compileCond_strict_ok_lax',
            'ChamVerif.checkNode_strict_ok_lax', 'ChamVerif.compileCheck_strict_ok_lax', 'ChamVerif.C19_same_when_valid',
            'ChamVerif.C19_strict_rejects', 'ChamVerif.C19_lax_accepts', 'ChamVerif.C19_deferred_error']
LEVEL_TEXT = ('Proved in Lean for every template, configuration and binding of the pipeline model: whatever the strict compile pass accepts, the '
              'non-strict pass accepts with the same result (checkNode_strict_ok_lax, induction on the fuel over every node kind and the '
              'expression nodes), hence rendering under strict=False equals rendering under strict=True whenever strict compilation succeeds '
              '(C19_same_when_valid, on the whole render function: tokens, elements, nodes, compile pass, interpreter). The deferred-error '
              'half (non-strict compiles and raises the same ExpressionError exactly when the expression is reached) is the evaluation-time '
              'compile of the model, tied to the code by correspondence under both settings and judged by the reachability oracle.')
LEVEL_NOTE = ('Trusted: Lean kernel; the pipeline model (validated by correspondence under strict and non-strict). Known finding D-19a: a TALES '
              'expression is compiled as a whole, so an invalid later pipe alternative raises even when an earlier alternative succeeds '
              '(site granularity = whole expression).')
RULE = ('(a) valid talgen templates rendered under strict True/False; (b) templates with one or two invalid expressions planted at reachable '
        'and unreachable sites (false condition, empty repeat, later pipe alternative, unused branch of a switch, on-error body) x bindings '
        'that do or do not reach them. Non-trivial iff the template contains an invalid expression, or >= 2 expressions for the equivalence.')
TRUSTED = []
ASSUMPTIONS = []

BAD = ['1 +', 'a b', 'x ===', 'not']


def msg(e):
    try:
        ast.parse(e, mode='eval')
    except SyntaxError as ex:
        return ex.msg


def planted(rng):
    bad = rng.choice(BAD)
    reach = rng.choice([True, False])
    kind = rng.choice(['condition', 'repeat', 'switch', 'define-unused', 'nested', 'two-sites', 'two-sites', 'switch-expr', 'dict-attr', 'attr-then-dict', 'literal-condition', 'literal-condition',
                       'placeholder', 'placeholder'])
    if kind == 'placeholder':
        # the element's own markup under tal:content / tal:replace is rendered only when the expression gives `default`: it is compiled all the same
        st = rng.choice(['content', 'replace'])
        reach = rng.random() < 0.5
        expr = 'default' if reach else rng.choice(["'x'", 'v', 'None'])
        inner = rng.choice(['${%s}' % bad, '<i tal:content="%s">y</i>' % bad, 'a <b title="${%s}">b</b>' % bad])
        src = '<div><p tal:%s="%s">%s</p>tail</div>' % (st, expr, inner)
        vars_ = [['v', {'str': 'V'}]]
    elif kind == 'literal-condition':
        # the guard is a literal: the site is unreachable (or reachable) whatever the bindings — it is compiled all the same
        lit, reach = rng.choice([('False', False), ('0', False), ('None', False), ("''", False), ('python: 0', False), ('string:', False), ('exists: nope', False),
                                 ('True', True), ('1', True), ("'y'", True), ('python: 1', True), ('string:y', True)])
        inner = rng.choice(['${%s}' % bad, '<i tal:content="%s">x</i>' % bad, '<i tal:attributes="title %s">x</i>' % bad])
        src = '<div><p tal:condition="%s">%s</p>tail</div>' % (lit, inner)
        vars_ = []
    elif kind == 'condition':
        src = '<div><p tal:condition="flag">${%s}</p>tail</div>' % bad
        vars_ = [['flag', reach]]
    elif kind == 'repeat':
        src = '<ul><li tal:repeat="i xs" tal:content="%s">x</li></ul>' % bad
        vars_ = [['xs', {'list': [1] if reach else []}]]
    elif kind == 'switch':
        src = '<div tal:switch="v"><p tal:case="1" tal:content="%s">a</p><p tal:case="2">b</p></div>' % bad
        vars_ = [['v', 1 if reach else 2]]
    elif kind == 'switch-expr':
        # the invalid expression is the switch expression itself; its value is cached for the cases
        src = '<div tal:condition="flag"><ul tal:switch="%s"><li tal:case="1">one</li><li tal:case="default">other</li></ul></div>tail' % bad
        vars_ = [['flag', reach]]
    elif kind == 'dict-attr':
        bad = rng.choice(['b///', '1+', 'x===='])          # a statement without a space is a dictionary expression
        # an invalid dictionary entry of tal:attributes next to a static attribute (the static one is filtered by the dictionary)
        src = '<div tal:condition="flag"><p class="x" tal:attributes="%s">d</p></div>tail' % bad
        vars_ = [['flag', reach]]
    elif kind == 'attr-then-dict':
        bad = rng.choice(['b///', '1+', 'x===='])
        src = '<div tal:condition="flag"><p tal:attributes="title t; %s">d</p></div>tail' % bad
        vars_ = [['flag', reach], ['t', {'str': 'T'}]]
    elif kind == 'define-unused':
        src = '<div tal:condition="flag" tal:define="z 1"><i tal:define="y %s">x</i></div>after' % bad
        vars_ = [['flag', reach]]
    elif kind == 'two-sites':
        # the same invalid text at two sites: the error raised must be the one of the site that is reached
        f1, f2 = rng.choice([(True, True), (False, True), (True, False), (False, False)])
        src = '<div>\n<p tal:condition="f1">${%s}</p>\n  <i tal:condition="f2" tal:content="%s">x</i></div>' % (bad, bad)
        vars_ = [['f1', f1], ['f2', f2]]
        reach = f1 or f2
        src, eol = line_endings(rng, src)
        norm = src.replace(eol, '\n')
        off = norm.index(bad) if f1 else norm.rindex(bad)
        return {'src': src, 'vars': vars_, 'objs': [], 'pyoracle': [[bad, msg(bad)]]}, bad, (norm.index(bad), off), reach, kind
    else:
        src = 'é\n<div tal:condition="flag">\n  <p title="${%s}">x</p></div>' % bad
        vars_ = [['flag', reach]]
    src, eol = line_endings(rng, rng.choice(['', 'first line\n\n  second\n']) + src)
    off = src.replace(eol, '\n').index(bad)
    return {'src': src, 'vars': vars_, 'objs': [], 'pyoracle': [[bad, msg(bad)]]}, bad, off, reach, kind


def line_endings(rng, src):
    """HTML-mode templates are normalised to LF before they are tokenised: offsets, lines and columns refer to the normalised text"""
    eol = rng.choice(['\n', '\n', '\r\n', '\r'])
    return src.replace('\n', eol), eol


def correspondence(ctx):
    cases = []
    for _ in range(ctx.budget(600, 20000)):
        g = talgen.TalGen(ctx.rng, depth=ctx.rng.choice([1, 2]))
        t = g.template()
        for strict in (True, False):
            c = dict(t)
            c['cfg'] = {'strict': strict}
            cases.append(c)
    for _ in range(ctx.budget(600, 20000)):
        c, bad, off, reach, kind = planted(ctx.rng)
        for strict in (True, False):
            d = dict(c)
            d['cfg'] = {'strict': strict}
            cases.append(d)
    pipeline.run_cases(ctx, cases, what='strict/non-strict')


def strip_log(r):
    return {k: r.get(k) for k in ('out', 'exc', 'cls', 'msg', 'token', 'offset', 'errors', 'log')}


def oracle(ctx):
    nt = 0
    # (1) valid templates: identical under both settings
    ts = []
    for _ in range(ctx.budget(700, 25000)):
        g = talgen.TalGen(ctx.rng, depth=ctx.rng.choice([1, 2]))
        ts.append(g.template())
    a = pipeline.impl_many([dict(t, cfg={'strict': True}) for t in ts])
    b = pipeline.impl_many([dict(t, cfg={'strict': False}) for t in ts])
    for t, ra, rb in zip(ts, a, b):
        ctx.count('evaluations', 2)
        if ra.get('exc') == 'TemplateError':
            continue           # not "all expressions valid" (or another compile error): outside this clause
        nt += 1
        if strip_log(ra) != strip_log(rb):
            ctx.violation('strict and non-strict compilation render differently although strict compilation succeeds',
                          {'src': t['src'], 'vars': t['vars'], 'objs': t['objs']}, expected=strip_log(ra), actual=strip_log(rb))
    # (2) planted invalid expressions
    ps = [planted(ctx.rng) for _ in range(ctx.budget(1200, 40000))]
    sa = pipeline.impl_many([dict(p[0], cfg={'strict': True}) for p in ps])
    la = pipeline.impl_many([dict(p[0], cfg={'strict': False}) for p in ps])
    hist = {}
    for (case, bad, off, reach, kind), rs, rl in zip(ps, sa, la):
        ctx.count('evaluations', 2)
        nt += 1
        hist[(kind, reach)] = hist.get((kind, reach), 0) + 1
        inp = {'src': case['src'], 'vars': case['vars'], 'reached': reach}
        strict_off, off = off if isinstance(off, tuple) else (off, off)
        if not (rs.get('exc') == 'TemplateError' and rs.get('cls') == 'ExpressionError' and rs.get('token') == bad and rs.get('offset') == strict_off):
            ctx.violation('strict compilation does not fail with the ExpressionError of the invalid expression', inp,
                          expected={'cls': 'ExpressionError', 'token': bad, 'offset': strict_off}, actual=rs)
            continue
        if rl.get('exc') == 'TemplateError':
            ctx.violation('non-strict compilation rejects the template at compile time', inp, actual=rl)
            continue
        raised = rl.get('exc') == 'render' and rl.get('cls') == 'ExpressionError'
        if raised != reach:
            ctx.violation('non-strict: the ExpressionError is raised iff rendering reaches the expression', inp,
                          expected='raised' if reach else 'not raised', actual=rl)
            continue
        norm = case['src'].replace('\r\n', '\n').replace('\r', '\n')
        want_lc = (1 + norm[:strict_off].count('\n'), strict_off - (norm[:strict_off].rfind('\n') + 1))
        if (rs.get('line'), rs.get('col')) != want_lc:
            ctx.violation('strict: line/column of the ExpressionError do not belong to its offset', inp, expected=want_lc,
                          actual=(rs.get('line'), rs.get('col')))
            continue
        if raised:
            loc = lax_location(case)
            lc = (1 + norm[:off].count('\n'), off - (norm[:off].rfind('\n') + 1))
            if loc != (bad, off, lc):
                ctx.violation('non-strict: the ExpressionError raised at render time does not carry the same token/location as in strict mode',
                              inp, expected=(bad, off, lc), actual=loc)
    ctx.cov['planted_histogram'] = {'%s reached=%s' % k: v for k, v in hist.items()}
    ctx.counters['nontrivial'] = nt
    ctx.sample({'template': ps[0][0]['src'], 'vars': ps[0][0]['vars'], 'invalid': ps[0][1], 'reached': ps[0][3]})
    # the deferred error is the error strict mode reports - also for expressions whose source text is not what is compiled
    # (character entities, an escaped pipe, a doubled semicolon, a line break): same class, message, token text, position
    from chameleon import PageTemplate
    SPELT = ['<p>${x &lt;&lt;}</p>', '<p tal:content="x &amp;&amp; y">t</p>', '<p title="${a &gt;}">t</p>', '<p tal:content="a \\| b +">t</p>',
             '<p tal:define="v \';;\' +">t</p>', '<p tal:attributes="title \'a;;b\' +; id \'i\'">t</p>', '<p>${1 +\n  }</p>',
             '<div>\n<p tal:content="x &lt;\n  ">t</p></div>', '<p>${\'&eacute;\' +}</p>', '<p tal:condition="x &gt;= ">t</p>']

    def err_of(f):
        try:
            f()
        except Exception as e:
            tok = getattr(e, 'token', None)
            return (type(e).__name__, str(e.args[0]) if e.args else None, str(tok), getattr(tok, 'pos', None),
                    tuple(tok.location) if hasattr(tok, 'location') else None)
        return None
    for src in SPELT:
        for pre in ('', 'line one\n'):
            ctx.count('evaluations')
            es = err_of(lambda: PageTemplate(pre + src, strict=True))
            el = err_of(lambda: PageTemplate(pre + src, strict=False)(x=1, y=2, a=3, b=4))
            if es is None or es[0] != 'ExpressionError' or el != es:
                ctx.violation('non-strict: the ExpressionError raised when the expression is reached is not the one strict mode reports at compile time',
                              {'src': pre + src}, expected=es, actual=el)
    # D-19a
    file_pages(ctx)
    r = pipeline.run_impl({'src': '<p tal:content="a | bad +"/>', 'vars': [['a', 1]], 'cfg': {'strict': False}})
    if r.get('out') != '<p>1</p>':
        ctx.violation('an invalid later alternative raises although it is never reached', {'src': '<p tal:content="a | bad +"/>'},
                      expected='<p>1</p>', actual=r, finding='D-19a' if r.get('cls') == 'ExpressionError' else None)


def file_pages(ctx):
    """file templates that `load:` a library holding an invalid expression at a site the page never reaches: a strict page must
    fail on it, a non-strict page must render - each exactly as it does alone, whatever other template objects of the same
    directory (with the other setting) exist or were used before"""
    import os
    import shutil
    import tempfile
    from chameleon import PageTemplateFile
    d = tempfile.mkdtemp(prefix='c19_')
    n = 0
    try:
        with open(os.path.join(d, 'lib.pt'), 'w') as f:
            f.write('<html><p metal:define-macro="ok">fine</p>\n<p metal:define-macro="bad" tal:content="1 +">x</p></html>')
        with open(os.path.join(d, 'page.pt'), 'w') as f:
            f.write('<div tal:define="lib load: lib.pt"><x metal:use-macro="lib.macros[\'ok\']"/></div>')

        def use(t):
            try:
                return t()
            except Exception as e:
                return 'raised %s: %s' % (type(e).__name__, str(e).split('\n')[0][:60])
        alone = {s: use(PageTemplateFile(os.path.join(d, 'page.pt'), strict=s)) for s in (True, False)}
        if alone[False] != '<div><p>fine</p></div>' or not alone[True].startswith('raised ExpressionError'):
            ctx.violation('a page that loads a library with an invalid, unreached expression: strict must fail, non-strict must render',
                          {'files': 'page.pt -> load: lib.pt'}, expected={'strict': 'ExpressionError', 'non-strict': '<div><p>fine</p></div>'}, actual=alone)
        for order in ((True, False), (False, True), (False, True, False), (True, False, True)):
            pages = [PageTemplateFile(os.path.join(d, 'page.pt'), strict=s) for s in order]      # all alive at once
            got = [use(t) for t in pages]
            ctx.count('evaluations', len(order))
            n += 1
            want = [alone[s] for s in order]
            if got != want:
                ctx.violation('the strict setting of one file template leaks into another template object of the same directory (through what '
                              'they load)', {'files': 'page.pt -> load: lib.pt', 'strict_settings_in_order': list(order)}, expected=want, actual=got)
    finally:
        shutil.rmtree(d, ignore_errors=True)
    return n


def lax_location(case):
    from chameleon import PageTemplate
    import talgen as tg
    kw = {k: tg.pyval(v, []) for k, v in case['vars']}
    try:
        PageTemplate(case['src'], strict=False)(**kw)
    except Exception as e:
        tok = getattr(e, 'token', None)
        return (str(tok), getattr(tok, 'pos', None), tuple(tok.location) if hasattr(tok, 'location') else None)
    return None


def reproduce_finding(ctx, f):
    from chameleon import PageTemplate
    if f['id'] == 'D-19b':
        try:
            return PageTemplate('<p tal:omit-tag="" tal:attributes="x 1 +">y</p>', strict=True)() == 'y'
        except Exception:
            return False
    if f['id'] == 'D-19c':
        for strict in (True, False):
            try:
                PageTemplate('<p tal:content="f(a=1, a=2)"/>', strict=strict)
                return False
            except SyntaxError as e:
                if type(e) is not SyntaxError:
                    return False
            except Exception:
                return False
        return True
    return None


def replay(ctx, case):
    v = case.get('violation', case)
    c = v['input']
    out = {}
    for strict in (True, False):
        out[str(strict)] = pipeline.run_impl({'src': c['src'], 'vars': c.get('vars', []), 'objs': c.get('objs', []), 'cfg': {'strict': strict}})
    return out

"""C14 — rendering is deterministic, side-effect free on its inputs, and thread-safe."""
import copy
import hashlib
import itertools
import json
import os
import shutil
import subprocess
import sys
import tempfile
import threading

import core
import pipeline
import talgen

PID = 'C14'
PROOF_MODULES = ['ChamProofs.Props.C14']
THEOREMS = ['ChamVerif.Sys.Sched.C14_thread_result', 'ChamVerif.Sys.Sched.inv_run', 'ChamVerif.Sys.Sched.C14_solo_finishes',
            'ChamVerif.Sys.Sched.C14_flag_first_counterexample']
LEVEL_TEXT = ('Determinism: the pipeline model Pipeline.render is a function of (source, configuration, bindings) — there is nothing else it could '
              'depend on — and every run ties the implementation to it by correspondence, also in fresh processes under different hash seeds. '
              'Thread safety, proved in Lean: over the atomic-step model of cook_check/cook/render on one shared file template, for any number '
              'of threads and any schedule (no bound on either), the _cooked flag is never set before every function of the template is '
              'installed and every thread that finishes has run the _render of the file\'s version, i.e. returns what it returns alone '
              '(C14_thread_result, invariant inv_run preserved by every step of every thread); C14_flag_first_counterexample shows the '
              'ordering is necessary. The step model is tied to the code by replaying schedules on real threads through the guarded hook '
              'points (all interleavings of 2 threads, 3 threads sampled), plus randomised preemption at a minimal switch interval. '
              'Purity (caller-owned arguments unchanged, nothing visible in the next render) is judged by the oracle with deep copies.')
LEVEL_NOTE = ('Trusted / assumed: single attribute and dict operations are atomic (GIL builds; free-threaded builds are out of scope); the hook '
              'points cover the shared-state accesses of cook_check/cook (read from the source). D-14a (mapping order depended on the hash '
              'seed) was repaired in /repo (fix: aef6a17).')
RULE = ('(a) talgen templates (incl. global defines, repeat, macros, i18n:name mappings) rendered 3x on one instance, on a second instance, and in '
        '3 fresh processes with different PYTHONHASHSEED; binding sequences A,B,A; mutable arguments (lists, dicts, objects, search_path lists) '
        'deep-compared before/after; (b) every interleaving of 2 threads (3 threads: sampled) over the hook labels of a lazily compiling shared file '
        'template, auto_reload on/off, and racing TemplateLoader.load calls; (c) 8 threads x random templates at switch interval 1e-6. '
        'Non-trivial iff the template has a global define / repeat / macro / mapping, or the schedule interleaves the cooking of two threads.')
TRUSTED = []
ASSUMPTIONS = ['attribute reads/writes and dict operations are atomic (GIL)']

FEATURES = {'define', 'condition', 'repeat', 'switch', 'content', 'replace', 'omit', 'attributes', 'onerror', 'interp', 'pipes', 'prefixes', 'raise',
            'repeatvars'}

I18N = ['<p i18n:translate="">Hello <b i18n:name="first">${a}</b> and <i i18n:name="second">x</i> and <u i18n:name="third">y</u>!</p>',
        '<div i18n:domain="d"><span i18n:translate="msg">A <em i18n:name="n1" tal:content="a">1</em> <em i18n:name="n2">2</em></span></div>']
STALE = ['<div><b tal:condition="exists: repeat.item">stale ${repeat.item.number}</b><i tal:repeat="item xs">${item}</i></div>',
         '<div>${exists: repeat[\'item\']}<i tal:repeat="item xs">${repeat.item.length}</i>${exists: repeat.item}</div>',
         '<div>${exists: g}<u tal:define="global g 1">${g}</u>${g}</div>',
         '<div>${exists: error}<p tal:on-error="string:E">${nosuch}</p></div>']
MACRO = '<div><p metal:define-macro="m">M ${a}<span metal:define-slot="s">D</span></p><x metal:use-macro="macros[\'m\']"><i metal:fill-slot="s">F</i></x></div>'

CHILD = r'''
import json, sys, re, hashlib
sys.path.insert(0, %(harness)r)
import warnings; warnings.filterwarnings('ignore')
import pipeline, talgen
from chameleon import PageTemplate
cases = json.load(sys.stdin)
out = []
for c in cases:
    r = pipeline.run_impl(c)
    for call in r.get('tlog') or []:
        if isinstance(call.get('mapping'), dict):
            call['mapping'] = list(call['mapping'].items())       # key order is observable by a translation function
    src = ''
    try:
        t = PageTemplate(c['src'], keep_source=True, **{k: (set(v) if k == 'boolean_attributes' else v) for k, v in c.get('cfg', {}).items()})
        seen = {}
        def sub(m):
            seen.setdefault(m.group(0), 'N%%d' %% len(seen)); return seen[m.group(0)]
        src = re.sub(r'(?<![0-9a-zA-Z])(?:0x)?[0-9a-f]{10,}(?![0-9a-zA-Z])|(?<=_)\d{9,}', sub, t.source)
    except Exception as e:
        src = 'ERR ' + type(e).__name__
    out.append([r, hashlib.sha1(src.encode()).hexdigest()])
json.dump(out, sys.stdout)
'''


def gen_cases(rng, n):
    cases = []
    for i in range(n):
        r = rng.random()
        if r < 0.12:
            cases.append({'src': rng.choice(I18N), 'vars': [['a', {'str': 'Ann'}]], 'objs': [], 'translate': 'record'})
        elif r < 0.2:
            cases.append({'src': MACRO, 'vars': [['a', i]], 'objs': []})
        elif r < 0.26:
            # per-render state read where it must not exist (yet / any more): repeat items, globals, on-error's `error`
            cases.append({'src': rng.choice(STALE), 'vars': [['xs', {'list': [1, 2, 3][:rng.randint(1, 3)]}]], 'objs': []})
        else:
            g = talgen.TalGen(rng, depth=rng.choice([1, 2]), features=FEATURES)
            cases.append(g.template())
    return cases


def strip(r):
    return {k: r.get(k) for k in ('out', 'exc', 'cls', 'msg', 'log', 'tlog', 'errors', 'token', 'offset') if k in r}


def correspondence(ctx):
    cases = gen_cases(ctx.rng, ctx.budget(600, 20000))
    pipeline.run_cases(ctx, cases, what='render (determinism tie)')
    # schedules: the step model against real threads
    d = tempfile.mkdtemp(prefix='c14_')
    try:
        scheds = list(schedules(2, 7 if ctx.tier == 'quick' else 10))
        if len(scheds) > ctx.budget(250, 4000):
            scheds = ctx.rng.sample(scheds, ctx.budget(250, 4000))
        for _ in range(ctx.budget(60, 1500)):
            scheds.append((3, [ctx.rng.randrange(3) for _ in range(ctx.rng.randint(4, 12))]))
        reqs, reals = [], []
        for n, s in scheds:
            auto = ctx.rng.random() < 0.5
            real = real_schedule(d, n, s, auto)
            reqs.append({'op': 'sched', 'auto': auto, 'names': real['names'], 'threads': n, 'moves': real['moves']})
            reals.append((n, s, auto, real))
        outs = core.par_batch(reqs)
        for (n, s, auto, real), r, o in zip(reals, reqs, outs):
            ctx.count('correspondence_cases')
            m = o.get('ok')
            exp = {'results': real['results'], 'cooked': real['cooked'], 'installed': sorted(real['installed'])}
            if m is not None:
                m = dict(m, installed=sorted(m['installed']))
            if m != exp:
                ctx.disagree('threads on a shared file template: the step model and the real threads end differently',
                             {'threads': n, 'schedule': s, 'auto_reload': auto, 'moves': real['moves']}, model=m, impl=exp)
    finally:
        shutil.rmtree(d, ignore_errors=True)


# ---- schedule exploration on real threads ------------------------------------------------------------------------
FILE_SRC = '<div>V1;<p metal:define-macro="a">A</p><p metal:define-macro="b">B</p>${x}</div>'


def schedules(n, maxlen):
    for L in range(1, maxlen + 1):
        for tup in itertools.product(range(n), repeat=L):
            yield (n, list(tup))


class Runner:
    def __init__(self, fn):
        self.at = 'start'
        self.k = 0
        self.result = None
        self.go = threading.Semaphore(0)
        self.arrived = threading.Semaphore(0)

        def run():
            self.go.acquire()
            try:
                out = fn()
                self.result = 1 if 'V1;' in out else 'other:' + out[:40]
            except AttributeError:
                self.result = 'AttributeError'
            except BaseException as e:
                self.result = 'raised:' + type(e).__name__
            self.at = 'done'
            self.arrived.release()
        self.thread = threading.Thread(target=run, daemon=True)
        self.thread.start()

    def park(self, label):
        self.at = label
        self.arrived.release()
        self.go.acquire()

    def advance(self):
        if self.at == 'done':
            return
        self.go.release()
        self.arrived.acquire()


def real_schedule(d, n, sched, auto):
    """n threads call render() on one fresh PageTemplateFile; `sched` lists which thread moves to its next label"""
    import chameleon.loader as L
    from chameleon import PageTemplateFile
    path = os.path.join(d, 'shared.pt')
    with open(path, 'w') as f:
        f.write(FILE_SRC)
    os.utime(path, (7, 7))
    t = PageTemplateFile(path, auto_reload=auto)
    runners = [Runner(lambda: t.render(x='!')) for _ in range(n)]
    owners = {r.thread.ident: r for r in runners}
    names = []

    def hook(label, *args):
        me = owners.get(threading.get_ident())
        if me is None or args[0] is not t:
            return
        if label == 'cook:setattr':
            if args[1] not in names:
                names.append(args[1])
            lab = 'cook:setattr:%d' % me.k
            me.k += 1
        elif label in ('cook_check:read', 'cook:installed'):
            lab = label
            if label == 'cook_check:read':
                me.k = 0
        else:
            return
        me.park(lab)
    saved = L._verif_hook
    L._verif_hook = hook
    moves = []
    try:
        for i in sched:
            r = runners[i]
            if r.at == 'done':
                continue
            r.advance()
            moves.append([i, r.at])
        for i, r in enumerate(runners):
            while r.at != 'done':
                r.advance()
                moves.append([i, r.at])
    finally:
        L._verif_hook = saved
    installed = sorted(k[1:] for k in t.__dict__ if k.startswith('_render'))
    return {'results': [r.result for r in runners], 'cooked': bool(t._cooked), 'installed': installed, 'names': names, 'moves': moves}


def oracle(ctx):
    nt = 0
    # (a) determinism on one instance, a second instance, fresh processes with other hash seeds; no leak between renders
    cases = gen_cases(ctx.rng, ctx.budget(400, 12000))
    from chameleon import PageTemplate
    from chameleon.exc import TemplateError
    for c in cases:
        ctx.count('evaluations')
        r1 = pipeline.run_impl(c)
        r2 = pipeline.run_impl(c)
        if strip(r1) != strip(r2):
            ctx.violation('two separately compiled instances of the same source render differently', {'src': c['src'], 'vars': c['vars'], 'objs': c['objs']},
                          expected=strip(r1), actual=strip(r2))
            continue
        if any(k in c['src'] for k in ('global ', 'tal:repeat', 'metal:', 'i18n:name')):
            nt += 1
        try:
            t = PageTemplate(c['src'])
        except TemplateError:
            continue
        outs = []
        kws = []
        for _ in range(3):
            rec = talgen.Recorder()
            kw = {k: talgen.pyval(v, c.get('objs', []), rec) for k, v in c['vars']}
            before = snapshot(kw)
            try:
                o = t(**kw)
            except Exception as e:
                o = 'raised %s: %s' % (type(e).__name__, str(e.args[0])[:80] if e.args else '')
            outs.append(o)
            after = snapshot(kw)
            if before != after:
                ctx.violation('render modified an argument object passed by the caller', {'src': c['src'], 'vars': c['vars'], 'objs': c['objs']},
                              expected=before, actual=after)
                break
        if len(set(outs)) > 1:
            ctx.violation('repeated render() calls on one instance with equal arguments differ', {'src': c['src'], 'vars': c['vars'], 'objs': c['objs']},
                          expected=outs[0], actual=outs)
            continue
        # A, B, A
        if c['vars']:
            kwB = {k: talgen.pyval(v, c.get('objs', []), talgen.Recorder()) for k, v in c['vars']}
            first = [k for k in kwB if k != 'R']
            if first:
                kwB[first[0]] = ['other', 1]
            try:
                t(**kwB)
            except Exception:
                pass
            kwA = {k: talgen.pyval(v, c.get('objs', []), talgen.Recorder()) for k, v in c['vars']}
            try:
                o3 = t(**kwA)
            except Exception as e:
                o3 = 'raised %s: %s' % (type(e).__name__, str(e.args[0])[:80] if e.args else '')
            if o3 != outs[0]:
                ctx.violation('something of an earlier render is visible in a later one (A, B, A)', {'src': c['src'], 'vars': c['vars'], 'objs': c['objs']},
                              expected=outs[0], actual=o3)
    # what was compiled earlier in the process must not matter: templates configured with extra_builtins / other options, then an
    # unrelated template that uses the same names as ordinary variables (expected texts computed by hand)
    hist_cases = [
        ({'src': '<p>${label} ${helper(1)}</p>', 'kw': {'extra_builtins': {'label': 'EB', 'helper': lambda x: x + 1}}, 'args': {}, 'want': '<p>EB 2</p>'},
         {'src': '<p title="${label}">${label}: ${n} ${helper | \'none\'}</p>', 'kw': {}, 'args': {'label': 'Total', 'n': 3}, 'want': '<p title="Total">Total: 3 none</p>'}),
        ({'src': '<p tal:define="global gx 1">${gx}</p>', 'kw': {}, 'args': {}, 'want': '<p>1</p>'},
         {'src': '<p>${gx | \'unset\'}</p>', 'kw': {}, 'args': {}, 'want': '<p>unset</p>'}),
        ({'src': '<p>${x}</p>', 'kw': {'strict': False, 'boolean_attributes': {'title'}}, 'args': {'x': 1}, 'want': '<p>1</p>'},
         {'src': '<p title="${x}">a</p>', 'kw': {}, 'args': {'x': 'v'}, 'want': '<p title="v">a</p>'}),
    ]
    for first, second in hist_cases:
        for order in ((first, second), (second, first), (first, second, first)):
            for c in order:
                ctx.count('evaluations')
                try:
                    got = PageTemplate(c['src'], **c['kw'])(**c['args'])
                except Exception as e:
                    got = 'raised %s: %s' % (type(e).__name__, str(e).split('\n')[0][:80])
                if got != c['want']:
                    ctx.violation('a template renders differently depending on which other templates were compiled earlier in the process',
                                  {'src': c['src'], 'config': sorted(c['kw']), 'compiled_before': [x['src'] for x in order[:order.index(c)]]},
                                  expected=c['want'], actual=got)
            nt += 1
    # what an earlier render saw of one object must not decide what a later render shows of another object of the same class:
    # `obj.name` is the attribute when the object has one, the item otherwise - per object, in any order of renders
    class Row:
        def __init__(self, items, **attrs):
            self._items = items
            self.__dict__.update(attrs)

        def __getitem__(self, k):
            return self._items[k]
    ROWS = {'stored': lambda: Row({'title': 'stored'}), 'edited': lambda: Row({'title': 'stale'}, title='edited'),
            'attr-only': lambda: Row({}, title='plain'), 'mapping': lambda: {'title': 'dict'}}
    SHOWS = {'stored': 'stored', 'edited': 'edited', 'attr-only': 'plain', 'mapping': 'dict'}
    trow = PageTemplate('<p tal:repeat="r rows">${r.title}</p>')
    for order in (['stored', 'edited'], ['edited', 'stored', 'edited'], ['mapping', 'stored', 'attr-only', 'edited'], ['attr-only', 'edited', 'stored', 'edited']):
        for i, name in enumerate(order):
            ctx.count('evaluations')
            for t in (trow, PageTemplate('<p tal:repeat="r rows">${r.title}</p>')):
                try:
                    got = t(rows=[ROWS[name]()])
                except Exception as e:
                    got = 'raised %s: %s' % (type(e).__name__, str(e).split('\n')[0][:80])
                if got != '<p>%s</p>' % SHOWS[name]:
                    ctx.violation('attribute access on an object depends on which objects of its class earlier renders saw',
                                  {'src': '<p tal:repeat="r rows">${r.title}</p>', 'row': name, 'rendered_before': order[:i]},
                                  expected='<p>%s</p>' % SHOWS[name], actual=got)
        nt += 1
    # render-time engine arguments (translate=, target_language=, encoding=): a call must behave like the first call of a fresh instance
    nt += render_args_sequences(ctx)
    # fresh processes, different hash seeds
    sub = cases[:ctx.budget(150, 3000)]
    per_seed = []
    for seed in ('1', '2', '31337'):
        env = dict(os.environ, PYTHONHASHSEED=seed)
        p = subprocess.run(['/venv/bin/python', '-c', CHILD % {'harness': os.path.dirname(os.path.dirname(os.path.abspath(__file__)))}],
                           input=json.dumps(sub), capture_output=True, text=True, env=env, timeout=600)
        if p.returncode != 0:
            raise RuntimeError('child failed: ' + p.stderr[-500:])
        per_seed.append(json.loads(p.stdout))
    for i, c in enumerate(sub):
        ctx.count('evaluations', 3)
        a = [(strip(ps[i][0]), ps[i][1]) for ps in per_seed]
        if a[0][0] != a[1][0] or a[0][0] != a[2][0]:
            ctx.violation('the same template renders differently in processes with different hash seeds', {'src': c['src'], 'vars': c['vars'], 'objs': c['objs']},
                          expected=a[0][0], actual=[x[0] for x in a])
        elif a[0][1] != a[1][1] or a[0][1] != a[2][1]:
            # not a violation: the property is about what render() returns.  (The text of the generated module may list the
            # elements of a set literal in another order; counted for information.)
            ctx.count('generated_source_text_differs_across_hash_seeds')
    # caller-owned search_path lists
    d = tempfile.mkdtemp(prefix='c14_')
    try:
        from chameleon import PageTemplateFile
        from chameleon.loader import TemplateLoader
        d1, d2 = os.path.join(d, 'd1'), os.path.join(d, 'd2')
        os.mkdir(d1)
        os.mkdir(d2)
        open(os.path.join(d1, 'a.pt'), 'w').write('<p tal:define="t load: inc.pt">${structure: t()}</p>')
        open(os.path.join(d1, 'inc.pt'), 'w').write('<b>inc1</b>')
        open(os.path.join(d2, 'b.pt'), 'w').write('<p tal:define="t load: inc.pt">${structure: t()}</p>')
        open(os.path.join(d2, 'inc.pt'), 'w').write('<b>inc2</b>')
        sp = [d2, d1]
        sp0 = list(sp)
        ctx.count('evaluations', 3)
        nt += 1
        loader = TemplateLoader(search_path=sp)
        ra = loader.load('a.pt', PageTemplateFile)()
        rb = loader.load('b.pt', PageTemplateFile)()
        ra2 = loader.load('a.pt', PageTemplateFile)()
        t3 = PageTemplateFile(os.path.join(d1, 'a.pt'), search_path=sp)
        r3 = t3()
        if sp != sp0:
            ctx.violation('the search_path list passed by the caller was modified', {'search_path': sp0}, expected=sp0, actual=sp)
        if (ra, rb, ra2, r3) != ('<p><b>inc1</b></p>', '<p><b>inc2</b></p>', '<p><b>inc1</b></p>', '<p><b>inc1</b></p>'):
            ctx.violation('templates loaded through one loader influence each other\'s load: resolution', {'search_path': sp0},
                          expected=['<p><b>inc1</b></p>', '<p><b>inc2</b></p>', '<p><b>inc1</b></p>', '<p><b>inc1</b></p>'], actual=[ra, rb, ra2, r3])
        # (b) schedules judged directly: every thread returns what it returns alone
        three = list(schedules(3, 6 if ctx.tier == 'quick' else 8))
        three = ctx.rng.sample(three, min(len(three), ctx.budget(150, 4000)))
        for n, s in list(itertools.islice(schedules(2, 6 if ctx.tier == 'quick' else 9), ctx.budget(200, 5000))) + three:
            for auto in (True, False):
                real = real_schedule(d, n, s, auto)
                ctx.count('evaluations')
                if len(set(s)) > 1:
                    nt += 1
                if any(r != 1 for r in real['results']) or not real['cooked']:
                    ctx.violation('a concurrent render() on a shared, lazily compiling file template does not return what it returns alone',
                                  {'threads': n, 'schedule': s, 'auto_reload': auto}, expected=[1] * n, actual=real)
        # racing loads through a shared loader
        import chameleon.loader as L
        for order in ((0, 1), (1, 0)):
            loader = TemplateLoader(search_path=[d1])
            res = [None, None]
            parked = [threading.Semaphore(0), threading.Semaphore(0)]
            arrived = [threading.Semaphore(0), threading.Semaphore(0)]
            idents = {}
            once = set()

            def hook(label, *a):
                i = idents.get(threading.get_ident())
                if i is not None and label == 'load:miss' and i not in once:
                    once.add(i)            # only the load through the shared loader (the template's own load: comes later)
                    arrived[i].release()
                    parked[i].acquire()

            def work(i):
                idents[threading.get_ident()] = i
                tpl = loader.load('a.pt', PageTemplateFile)
                res[i] = (tpl, tpl())
                arrived[i].release()
            saved = L._verif_hook
            L._verif_hook = hook
            try:
                ths = [threading.Thread(target=work, args=(i,), daemon=True) for i in range(2)]
                for th in ths:
                    th.start()
                for i in range(2):
                    arrived[i].acquire()        # both missed
                for i in order:
                    parked[i].release()
                    arrived[i].acquire()
            finally:
                L._verif_hook = saved
            ctx.count('evaluations')
            nt += 1
            if res[0][1] != '<p><b>inc1</b></p>' or res[1][1] != res[0][1] or str(res[0][0].filename) != str(res[1][0].filename):
                ctx.violation('two racing loads of one name through a shared loader', {'order': order}, expected='<p><b>inc1</b></p>', actual=[r[1] for r in res])
        # (d) interleavings *inside* render(): the templates call gate() between their steps; the harness decides who runs
        nt += gated_interleavings(ctx)
        # (c) randomised preemption
        old = sys.getswitchinterval()
        sys.setswitchinterval(1e-6)
        try:
            ts = []
            for c in cases[:40]:
                try:
                    t = PageTemplate(c['src'])
                    kw = {k: talgen.pyval(v, c.get('objs', []), talgen.Recorder()) for k, v in c['vars']}
                    solo = t(**kw)
                    ts.append((c, t, solo))
                except Exception:
                    continue
            path = os.path.join(d, 'stress.pt')
            open(path, 'w').write(FILE_SRC)
            for rnd in range(ctx.budget(6, 100)):
                shared = PageTemplateFile(path, auto_reload=True)
                errs = []

                def worker(seed):
                    import random
                    rr = random.Random(seed)
                    try:
                        if 'V1;' not in shared.render(x='!'):
                            errs.append(('file', 'wrong output'))
                    except BaseException as e:
                        errs.append(('file', type(e).__name__))
                    for _ in range(12):
                        c, t, solo = rr.choice(ts)
                        kw = {k: talgen.pyval(v, c.get('objs', []), talgen.Recorder()) for k, v in c['vars']}
                        try:
                            o = t(**kw)
                        except BaseException as e:
                            o = 'raised ' + type(e).__name__
                        if o != solo:
                            errs.append((c['src'], o, solo))
                ths = [threading.Thread(target=worker, args=(rnd * 100 + i,)) for i in range(8)]
                for th in ths:
                    th.start()
                for th in ths:
                    th.join()
                ctx.count('evaluations', 8 * 13)
                if errs:
                    ctx.violation('concurrent render() calls return something else than alone (random preemption)', {'round': rnd}, actual=errs[:3])
                    break
            # threads that *compile* different templates at the same moment (each its own object, no sharing at all): translation blocks
            # with named children, nested, next to plain text — every render equals the render of that source compiled alone
            pool = []
            for i in range(6):
                pool.append('<div><p>plain %d ${a}</p><span>text</span></div>' % i)
                pool.append('<div i18n:domain="d%d"><p i18n:translate="">Hello <b i18n:name="who">${a}</b>, <i i18n:name="n%d">x<u i18n:translate="">in '
                            '<em i18n:name="who">w</em></u></i>!</p><p>after ${a}</p></div>' % (i, i))
            solo = {s: PageTemplate(s)(a='A') for s in pool}
            errs2 = []

            def compiler(seed):
                import random
                rr = random.Random(seed)
                for _ in range(25):
                    s = rr.choice(pool)
                    try:
                        o = PageTemplate(s)(a='A')
                    except BaseException as e:
                        o = 'raised %s: %s' % (type(e).__name__, str(e).split('\n')[0][:60])
                    if o != solo[s]:
                        errs2.append({'src': s, 'got': o, 'alone': solo[s]})
            ths = [threading.Thread(target=compiler, args=(900 + i,)) for i in range(6)]
            for th in ths:
                th.start()
            for th in ths:
                th.join()
            ctx.count('evaluations', 6 * 25)
            if errs2:
                ctx.violation('templates compiled by several threads at the same moment (no shared object) render differently than compiled alone',
                              {'threads': 6, 'templates': 'plain and i18n:translate/i18n:name blocks'}, actual=errs2[:3])
        finally:
            sys.setswitchinterval(old)
    finally:
        shutil.rmtree(d, ignore_errors=True)
    ctx.counters['nontrivial'] = nt
    ctx.sample({'template': I18N[0], 'hash_seeds': ['1', '2', '31337']})


GATED = [
    '<ul><li tal:repeat="item xs">${gate()}${repeat.item.number} of ${repeat.item.length}: ${item}${gate()}</li></ul>',
    '<div tal:define="global g v">${gate()}<b tal:content="g"/>${gate()}<i tal:repeat="item xs">${repeat.item.index}${gate()}${g}</i></div>',
    '<div><p metal:define-macro="m">${gate()}<b tal:repeat="item xs">${repeat.item.number}/${v}${gate()}</b></p>'
    '<x metal:use-macro="macros[\'m\']"/></div>',
    '<div i18n:domain="d" tal:define="w v">${gate()}<p tal:on-error="string:E${v}">${gate()}${nosuch}</p>${w}${gate()}'
    '<span tal:switch="v"><i tal:case="v">${gate()}${v}</i></span></div>',
    '<div tal:define="a v"><i tal:repeat="item xs" tal:attributes="class repeat.item.even and \'e\' or \'o\'">${gate()}${a}${item}</i></div>',
]


def _tr_upper(msgid, domain=None, mapping=None, context=None, target_language=None, default=None):
    s = default if isinstance(default, str) else (msgid if isinstance(msgid, str) else str(msgid))
    for k, v in (mapping or {}).items():
        s = s.replace('${%s}' % k, str(v))
    return 'U[%s|%s]' % (s.upper(), target_language)


def _tr_brackets(msgid, domain=None, mapping=None, context=None, target_language=None, default=None):
    s = default if isinstance(default, str) else (msgid if isinstance(msgid, str) else str(msgid))
    for k, v in (mapping or {}).items():
        s = s.replace('${%s}' % k, str(v))
    return '<<%s|%s|%s>>' % (s, domain, target_language)


class _Thing:
    def __str__(self):
        return 'thing'


RA_TEMPLATES = ['<p i18n:translate="">Hello <b i18n:name="who">${a}</b>!</p><i title="T" i18n:attributes="title">${b}</i>',
                '<div i18n:domain="d"><span i18n:translate="msg">A ${a}</span> ${thing} ${b}</div>',
                '<p tal:content="thing">x</p><p tal:attributes="title b" i18n:translate="">plain</p>']


def render_args_sequences(ctx):
    """one instance, a sequence of render() calls that differ in translate= / target_language= / encoding=: every call returns what
    the first call of a fresh instance with the same arguments returns"""
    from chameleon import PageTemplate
    n = 0
    trs = [None, _tr_upper, _tr_brackets]
    for _ in range(ctx.budget(60, 2000)):
        src = ctx.rng.choice(RA_TEMPLATES)
        ctor = ctx.rng.choice([{}, {'encoding': 'utf-8'}, {'encoding': 'latin-1'}, {'translate': _tr_brackets}])
        seq = []
        for _ in range(ctx.rng.randint(2, 4)):
            kw = {}
            t = ctx.rng.choice(trs)
            if t is not None:
                kw['translate'] = t
            if ctx.rng.random() < 0.4:
                kw['target_language'] = ctx.rng.choice(['de', 'fr'])
            if ctx.rng.random() < 0.4:
                kw['encoding'] = ctx.rng.choice(['utf-8', 'latin-1'])
            seq.append(kw)

        def call(t, kw):
            try:
                return t(a='Ann', b=b'b\xc3\xa9' if ('encoding' in kw or 'encoding' in ctor) else 'be', thing=_Thing(), **kw)
            except Exception as e:
                return 'raised %s' % type(e).__name__
        shared = PageTemplate(src, **ctor)
        for i, kw in enumerate(seq):
            ctx.count('evaluations', 2)
            got = call(shared, kw)
            want = call(PageTemplate(src, **ctor), kw)
            if got != want:
                ctx.violation('something of an earlier render() call is visible in a later one: the call does not return what a fresh instance '
                              'returns for the same arguments', {'src': src, 'constructor': sorted(ctor), 'calls': [sorted((k, getattr(v, '__name__', v)) for k, v in x.items()) for x in seq[:i + 1]]},
                              expected=want, actual=got)
                break
        n += 1
    return n


def gated_interleavings(ctx):
    """n threads render one shared template object with different arguments; every gate() call hands control back to the
    harness, which lets the threads advance in the order of a schedule.  Each thread must return what it returns alone."""
    from chameleon import PageTemplate
    n_done = 0
    for _ in range(ctx.budget(60, 1500)):
        src = ctx.rng.choice(GATED)
        n = ctx.rng.choice([2, 2, 3])
        args = [{'xs': list(range(10 * (i + 1), 10 * (i + 1) + ctx.rng.randint(1, 4))), 'v': 'T%d' % i} for i in range(n)]
        t = PageTemplate(src)
        solo = [t(gate=lambda: '', **a) for a in args]
        sched = [ctx.rng.randrange(n) for _ in range(ctx.rng.randint(3, 14))]
        go = [threading.Semaphore(0) for _ in range(n)]
        arrived = [threading.Semaphore(0) for _ in range(n)]
        done = [False] * n
        res = [None] * n

        def run(i):
            def gate():
                arrived[i].release()
                go[i].acquire()
                return ''
            go[i].acquire()
            try:
                res[i] = t(gate=gate, **args[i])
            except BaseException as e:
                res[i] = 'raised %s' % type(e).__name__
            done[i] = True
            arrived[i].release()
        ths = [threading.Thread(target=run, args=(i,), daemon=True) for i in range(n)]
        for th in ths:
            th.start()
        for i in sched + list(range(n)) * 40:
            if all(done):
                break
            if done[i]:
                continue
            go[i].release()
            if not arrived[i].acquire(timeout=20):
                raise RuntimeError('gated render thread did not come back')
        for th in ths:
            th.join(5)
        ctx.count('evaluations', n)
        n_done += 1
        if res != solo:
            ctx.violation('concurrent render() calls on a shared template, interleaved between their steps, return something else than alone',
                          {'src': src, 'args': args, 'schedule': sched}, expected=solo, actual=res)
    return n_done


def snapshot(kw):
    """deep, address-free description of the argument objects"""
    def d(v, depth=0):
        if depth > 6:
            return '...'
        if isinstance(v, (str, int, float, bool, type(None))):
            return v
        if isinstance(v, (list, tuple)):
            return [type(v).__name__] + [d(x, depth + 1) for x in v]
        if isinstance(v, dict):
            return {'dict': [[d(k, depth + 1), d(x, depth + 1)] for k, x in v.items()]}
        if isinstance(v, (set, frozenset)):
            return {'set': sorted(map(repr, v))}
        if callable(v) and not hasattr(v, '__dict__'):
            return 'callable'
        if hasattr(v, '__dict__'):
            return {'obj': type(v).__name__, 'attrs': {k: d(x, depth + 1) for k, x in sorted(vars(v).items()) if not callable(x)}}
        return repr(type(v))
    return {k: d(v) for k, v in kw.items() if k != 'R'}       # R is the harness's own recorder: calling it is its job


def reproduce_finding(ctx, f):
    if f['id'] == 'D-14b':
        from chameleon import PageTemplate
        t = PageTemplate('<div class="a" tal:content="attrs.pop(\'class\', \'gone\')"/>')
        return [t(), t()] == ['<div class="a">a</div>', '<div class="a">gone</div>']
    return None


def replay(ctx, case):
    v = case.get('violation', case)
    c = v['input']
    if 'schedule' in c:
        d = tempfile.mkdtemp(prefix='c14_')
        try:
            return real_schedule(d, c['threads'], c['schedule'], c.get('auto_reload', True))
        finally:
            shutil.rmtree(d, ignore_errors=True)
    if 'src' in c:
        return {'impl': pipeline.run_impl({'src': c['src'], 'vars': c.get('vars', []), 'objs': c.get('objs', [])})}
    return {'case': c}

"""C16 — file templates follow their files; the loader resolves names predictably."""
import itertools
import os
import sys
import re
import shutil
import tempfile

import core

PID = 'C16'
PROOF_MODULES = ['ChamProofs.Props.C16', 'ChamProofs.Props.C16Fresh']
THEOREMS = ['ChamVerif.Sys.C16_follows', 'ChamVerif.Sys.inv_init', 'ChamVerif.Sys.C16_no_recompile', 'ChamVerif.Sys.C16_frozen_without_autoreload',
            'ChamVerif.Sys.C16_stale_counterexample', 'ChamVerif.Sys.C16_first_match', 'ChamVerif.Sys.C16_not_found', 'ChamVerif.Sys.C16_abs_path',
            'ChamVerif.Sys.C16_default_extension', 'ChamVerif.Sys.C16_no_default_extension', 'ChamVerif.Sys.C16_same_instance',
            'ChamVerif.Sys.C16_relative_first',
            'ChamVerif.Sys.inv_stepH',
            'ChamVerif.Sys.C16_follows_fresh',
            'ChamVerif.Sys.invH_init']
LEVEL_TEXT = ('Proved in Lean by refinement: for every history (no length bound) of file modifications that move the time stamp forward, renders, '
              'macro listings and macro uses, the cook_check/cook state machine of an auto-reloading file template observes exactly what the '
              'specification "a file template is its file" observes — body, content type and macro set of the latest version and nothing of '
              'earlier ones (C16_follows, invariant Inv established by inv_init and preserved by every step); the number of compilations '
              'over any history is at most the number of file changes plus one (C16_no_recompile, potential-function argument), and '
              'without auto_reload a cooked template never re-reads (C16_frozen_without_autoreload). Loader: first match along the '
              'search path, absolute paths honoured, default extension exactly for dot-less names, same instance for the same name, the '
              'template\'s own directory first (C16_first_match … C16_relative_first). C16_stale_counterexample is the D-16a witness '
              '(macros of a dropped version stay) under the old cook. The state machine is tied to BaseTemplateFile/TemplateLoader by '
              'running the same histories on real temporary directories (mtimes set with os.utime), bare writes included.'
              ' The refinement also holds when time stamps do not move forward: it is enough that every change gives the file a stamp it has not had before in the history, later or earlier (C16_follows_fresh; roll-backs, restored backups, clock corrections).')
LEVEL_NOTE = ('Trusted: Lean kernel; the harness\'s reading of observations (version markers in the output). Modelled, not verified: the '
              'file system (a file is (version, mtime)); package-relative specs (pkg:path) are judged by the oracle only. D-16a was '
              'repaired in /repo (fix: 84c10e9). Interpretation I-4: the registry is keyed by the spec as passed.')
RULE = ('(a) all histories up to length 5 (quick: 4) over {modify(v,t), write(v), utime(t), render, names, use(m)} with 3 versions differing in body, '
        'macro set and XML declaration, auto_reload on/off, plus random histories to length 14; (b) loader: 1..3 search directories x file '
        'layouts x specs (relative, nested, absolute, dotted, dot-less, padded) x default_extension set/unset; load: next to the template. '
        'Non-trivial iff a history has >= 2 modifications and >= 2 reads, or a loader case has the file in >= 2 directories.')
TRUSTED = []
ASSUMPTIONS = []

VERSIONS = [
    (['a', 'b'], False), (['a'], False), (['b', 'c'], True), ([], False), (['a', 'b', 'c'], True),
]


def body(k):
    ms, xml = VERSIONS[k]
    return ('<?xml version="1.0"?>' if xml else '') + '<div>V%d;' % k + ''.join('<p metal:define-macro="%s">M%s%d;</p>' % (m, m, k) for m in ms) + '</div>'


class World:
    """one real file + one real PageTemplateFile (cook calls counted)"""

    def __init__(self, d, auto, v0, t0):
        from chameleon import PageTemplate, PageTemplateFile
        self.path = os.path.join(d, 'w%d.pt' % id(self))
        self.mtime = t0
        self._write(v0)
        os.utime(self.path, (t0, t0))
        cooks = [0]

        class T(PageTemplateFile):
            def cook(s, body):
                cooks[0] += 1
                return PageTemplateFile.cook(s, body)
        self.cooks = cooks
        self.t = T(self.path, auto_reload=auto)
        self.user = PageTemplate('<x metal:use-macro="t.macros[m]"/>')

    def _write(self, v):
        with open(self.path, 'w') as f:
            f.write(body(v))

    def apply(self, op):
        k = op[0]
        if k == 'write':
            self._write(op[1])
            os.utime(self.path, (self.mtime, self.mtime))
            return None
        if k == 'utime':
            self.mtime = op[1]
            os.utime(self.path, (op[1], op[1]))
            return None
        if k == 'modify':
            self._write(op[1])
            self.mtime = op[2]
            os.utime(self.path, (op[2], op[2]))
            return None
        if k == 'render':
            out = self.t()
            m = re.search(r'V(\d+);', out)
            return {'rendered': int(m.group(1)), 'xml': self.t.content_type == 'text/xml'}
        if k == 'names':
            return {'names': sorted(self.t.macros.names)}
        if k == 'use':
            try:
                out = self.user(t=self.t, m=op[1])
            except KeyError:
                return {'macro': None}
            m = re.search(r'M%s(\d+);' % op[1], out)
            return {'macro': int(m.group(1)) if m else -1}
        raise ValueError(op)


def canon_model(o):
    if o is None:
        return None
    if 'names' in o:
        return {'names': sorted(o['names'])}
    return o


def histories(rng, n_exh, n_rand):
    alpha = [('modify', 1), ('modify', 2), ('write', 1), ('utime',), ('render',), ('names',), ('use', 'a'), ('use', 'b')]
    out = []
    for L in range(1, n_exh + 1):
        for tup in itertools.product(alpha, repeat=L):
            if not any(o[0] in ('render', 'names', 'use') for o in tup):
                continue
            out.append(list(tup))
    for _ in range(n_rand):
        L = rng.randint(5, 14)
        out.append([rng.choice(alpha + [('modify', 3), ('modify', 4), ('modify', 0), ('write', 2), ('use', 'c')]) for _ in range(L)])
    return out


def concretise(rng, hist, monotone):
    """give time stamps: monotone histories move forward at every change; others may also go back or stand still"""
    t = 10
    ops = []
    if monotone == 'distinct':
        # every change gives the file a time stamp it never had before in this history — later or *earlier* (a roll-back that
        # preserves time stamps, a restored backup, a clock correction): a modification all the same
        pool = [x for x in rng.sample(range(1, 80), 40) if x != 10]
        for o in hist:
            if o[0] == 'modify':
                ops.append(['modify', o[1], pool.pop()])
            elif o[0] == 'utime':
                ops.append(['utime', pool.pop()])
            else:
                ops.append(list(o))
        return ops
    for o in hist:
        if o[0] == 'modify':
            t = t + rng.randint(1, 3) if monotone else rng.choice([t, t + 1, max(1, t - 1), t + 2])
            ops.append(['modify', o[1], t])
        elif o[0] == 'utime':
            t = t + rng.randint(1, 3) if monotone else rng.choice([t + 1, max(1, t - 1)])
            ops.append(['utime', t])
        else:
            ops.append(list(o))
    return ops


def run_real(d, auto, ops):
    w = World(d, auto, 0, 10)
    obs = [w.apply(op) for op in ops]
    os.unlink(w.path)
    return obs, w.cooks[0]


def correspondence(ctx):
    d = tempfile.mkdtemp(prefix='c16_')
    try:
        hs = histories(ctx.rng, 3 if ctx.tier == 'quick' else 4, ctx.budget(400, 6000))
        reqs, reals = [], []
        for h in hs:
            auto = ctx.rng.random() < 0.8
            ops = concretise(ctx.rng, h, monotone=ctx.rng.random() < 0.5)
            reqs.append({'op': 'reload', 'auto': auto, 'versions': [[ms, x] for ms, x in VERSIONS], 'version': 0, 'mtime': 10, 'ops': ops})
            reals.append(run_real(d, auto, ops))
        outs = core.par_batch(reqs)
        for r, (obs, cooks), o in zip(reqs, reals, outs):
            m = o.get('ok')
            ctx.count('correspondence_cases')
            if m is None:
                ctx.disagree('reload: model error', {'ops': r['ops'], 'auto': r['auto']}, model=o, impl=obs)
                continue
            mo = [canon_model(x) for x in m['obs']]
            if mo != obs or m['cooks'] != cooks:
                ctx.disagree('file template history: model and implementation observe different things', {'ops': r['ops'], 'auto': r['auto']},
                             model={'obs': mo, 'cooks': m['cooks']}, impl={'obs': obs, 'cooks': cooks})
        # loader
        reqs, reals = [], []
        for _ in range(ctx.budget(300, 8000)):
            case = loader_case(ctx.rng, d)
            reqs.append({'op': 'loader', 'search_path': case['search_path'], 'default_extension': case['ext_model'], 'files': case['files'],
                         'loads': case['loads']})
            reals.append(run_loader(case))
        outs = core.par_batch(reqs)
        for r, real, o in zip(reqs, reals, outs):
            ctx.count('correspondence_cases')
            m = o.get('ok')
            if m != real:
                ctx.disagree('loader: model and implementation resolve differently', {k: r[k] for k in ('search_path', 'default_extension', 'files', 'loads')},
                             model=m, impl=real)
    finally:
        shutil.rmtree(d, ignore_errors=True)


NAMES = ['a.pt', 'b.pt', 'c', 'sub/x.pt', 'x.y.pt', 'c.pt', 'sub/c', 'v1.2/index', 'v1.2/index.pt', '.header', '.header.pt', 'sub/x']


def loader_case(rng, root):
    base = os.path.join(root, 'L%d' % rng.randrange(10 ** 9))
    dirs = [os.path.join(base, 'd%d' % i) for i in range(rng.randint(1, 3))]
    files = []
    for dname in dirs:
        for n in rng.sample(NAMES, rng.randint(0, 5)):
            files.append(os.path.join(dname, n))
    ext = rng.choice([None, 'pt', '.pt', 'txt'])
    loads = []
    for _ in range(rng.randint(1, 6)):
        n = rng.choice(NAMES + ['c', 'a', 'b', 'missing.pt', 'sub/x', 'x.y', 'v1.2/index', '.header', 'v1.2/other', '.hidden'])
        r = rng.random()
        if r < 0.15 and files:
            n = rng.choice(files)                      # absolute
        elif r < 0.25:
            n = ' ' + n + rng.choice(['', ' ', '\n'])  # padded
        loads.append(n)
    return {'base': base, 'search_path': dirs, 'files': files, 'ext': ext, 'ext_model': None if ext is None else '.' + ext.lstrip('.'), 'loads': loads}


def run_loader(case):
    from chameleon import PageTemplateFile
    from chameleon.loader import TemplateLoader
    for f in case['files']:
        os.makedirs(os.path.dirname(f), exist_ok=True)
        with open(f, 'w') as fh:
            fh.write('<p>%s</p>' % f)
    for dname in case['search_path']:
        os.makedirs(dname, exist_ok=True)
    loader = TemplateLoader(search_path=list(case['search_path']), default_extension=case['ext'])
    ids = {}
    out = []
    for spec in case['loads']:
        try:
            t = loader.load(spec, PageTemplateFile)
        except ValueError as e:
            m = re.match(r'Template not found: (.*)\.$', str(e), re.S)
            out.append({'not_found': m.group(1) if m else str(e)})
            continue
        ids.setdefault(id(t), len(ids))
        out.append({'id': ids[id(t)], 'filename': str(t.filename)})
    shutil.rmtree(case['base'], ignore_errors=True)
    return out


def symlink_scenarios(ctx):
    """a file template is the file its *name* leads to now: a path through a symbolic link follows the link when it is re-pointed,
    keeps the name it was given (so `load:` looks next to the link, and a loader result is `<search dir>/<name>`)"""
    from chameleon import PageTemplateFile, PageTemplateLoader
    d = tempfile.mkdtemp(prefix='c16l_')
    try:
        for rel in ('releases/1', 'releases/2', 'shared', 'site'):
            os.makedirs(os.path.join(d, rel))
        for i, rel in enumerate(('releases/1', 'releases/2')):
            p = os.path.join(d, rel, 'page.pt')
            open(p, 'w').write('<p>release %d</p>' % (i + 1))
            os.utime(p, (1000000000 + 1000 * i, 1000000000 + 1000 * i))
        cur = os.path.join(d, 'current')
        os.symlink(os.path.join('releases', '1'), cur)
        name = os.path.join(cur, 'page.pt')
        t = PageTemplateFile(name, auto_reload=True)
        got = [t()]
        os.symlink(os.path.join('releases', '2'), cur + '.new')
        os.replace(cur + '.new', cur)
        got.append(t())
        got.append(t.filename)
        ctx.count('evaluations', 3)
        want = ['<p>release 1</p>', '<p>release 2</p>', name]
        if got != want:
            ctx.violation('a file template reached through a symbolic link does not follow the file its name leads to (or loses its name)',
                          {'history': 'current -> releases/1; render; current -> releases/2; render; filename'}, expected=want, actual=got)
        # a linked template file: `load:` is relative to the template's name, the loader's result is named <search dir>/<name>
        open(os.path.join(d, 'shared', 'page.pt'), 'w').write('<div tal:define="h load: helper.pt">${structure: h()}</div>')
        open(os.path.join(d, 'shared', 'helper.pt'), 'w').write('<b>helper in shared</b>')
        open(os.path.join(d, 'site', 'helper.pt'), 'w').write('<b>helper in site</b>')
        os.symlink(os.path.join('..', 'shared', 'page.pt'), os.path.join(d, 'site', 'page.pt'))
        sp = os.path.join(d, 'site', 'page.pt')
        got = [PageTemplateFile(sp)()]
        lt = PageTemplateLoader([os.path.join(d, 'site')]).load('page.pt')
        got += [lt.filename, lt()]
        ctx.count('evaluations', 3)
        want = ['<div><b>helper in site</b></div>', sp, '<div><b>helper in site</b></div>']
        if got != want:
            ctx.violation('a template file that is a symbolic link keeps the name it was found under (load: next to it; loader result filename)',
                          {'layout': 'site/page.pt -> ../shared/page.pt; helper.pt in both directories'}, expected=want, actual=got)
    finally:
        shutil.rmtree(d, ignore_errors=True)


def oracle(ctx):
    nt = 0
    symlink_scenarios(ctx)
    d = tempfile.mkdtemp(prefix='c16_')
    try:
        # (1) monotone histories against the specification, directly
        hs = histories(ctx.rng, 3 if ctx.tier == 'quick' else 4, ctx.budget(600, 10000))
        for h in hs:
            if any(o[0] == 'write' for o in h):
                continue
            ops = concretise(ctx.rng, h, monotone=True if ctx.rng.random() < 0.6 else 'distinct')
            obs, cooks = run_real(d, True, ops)
            ctx.count('evaluations')
            cur = 0
            changes = 0
            reads = 0
            for op, ob in zip(ops, obs):
                if op[0] == 'modify':
                    cur = op[1]
                    changes += 1
                elif op[0] == 'utime':
                    changes += 1
                elif op[0] == 'render':
                    reads += 1
                    exp = {'rendered': cur, 'xml': VERSIONS[cur][1]}
                elif op[0] == 'names':
                    reads += 1
                    exp = {'names': sorted(VERSIONS[cur][0])}
                elif op[0] == 'use':
                    reads += 1
                    exp = {'macro': cur if op[1] in VERSIONS[cur][0] else None}
                if op[0] in ('render', 'names', 'use') and ob != exp:
                    ctx.violation('an auto-reloading file template does not show the latest version of its file (body / macros / content type)',
                                  {'ops': ops, 'at': op}, expected=exp, actual=ob)
                    break
            else:
                if cooks > changes + 1:
                    ctx.violation('the template was recompiled although its file had not changed', {'ops': ops}, expected='<= %d compilations' % (changes + 1),
                                  actual=cooks)
            if changes >= 2 and reads >= 2:
                nt += 1
        # (2) loader against a direct reference
        for _ in range(ctx.budget(500, 15000)):
            case = loader_case(ctx.rng, d)
            real = run_loader(case)
            ctx.count('evaluations')
            exp = []
            ids = {}
            bykey = {}
            for spec in case['loads']:
                if spec in bykey:
                    exp.append(bykey[spec])
                    continue
                s = spec.strip()
                if case['ext'] is not None and '.' not in s:
                    s += '.' + case['ext'].lstrip('.')
                fn = None
                if os.path.isabs(s):
                    fn = s
                else:
                    for dname in case['search_path']:
                        if os.path.join(dname, s) in case['files']:
                            fn = os.path.join(dname, s)
                            break
                if fn is None:
                    exp.append({'not_found': s})
                    continue
                r = {'id': len(ids), 'filename': fn}
                ids[len(ids)] = 1
                bykey[spec] = r
                exp.append(r)
            if sum(1 for dname in case['search_path'] for n in NAMES if os.path.join(dname, n) in case['files']) >= 2:
                nt += 1
            if real != exp:
                ctx.violation('TemplateLoader.load: first match along the search path / default extension only for dot-less names / same '
                              'instance for the same name', {k: case[k] for k in ('search_path', 'files', 'ext', 'loads')}, expected=exp, actual=real)
        # (2b) the public loader with formats: the instance belongs to the (name, format) pair - one name loaded as a page template
        # and as a text template gives two objects of the two classes, each the same on every later load
        from chameleon import PageTemplateLoader
        from chameleon.zpt.template import PageTemplateFile as _PTF, PageTextTemplateFile as _PTTF
        fdir = os.path.join(d, 'formats')
        os.makedirs(fdir, exist_ok=True)
        for nm in ('note.txt', 'page.pt'):
            with open(os.path.join(fdir, nm), 'w') as f:
                f.write('<p>${v}</p>')
        for _ in range(ctx.budget(20, 300)):
            loader = PageTemplateLoader([fdir])
            seq = [(ctx.rng.choice(['note.txt', 'page.pt']), ctx.rng.choice([None, 'xml', 'text'])) for _ in range(ctx.rng.randint(2, 6))]
            seenobj = {}
            ctx.count('evaluations')
            nt += 1
            for nm, fmt in seq:
                t = loader.load(nm, fmt) if fmt else loader.load(nm)
                kind = fmt or 'xml'
                want_cls = _PTTF if kind == 'text' else _PTF
                prev = seenobj.setdefault((nm, kind), t)
                out = t(v='<x>')
                want_out = b'<p><x></p>' if kind == 'text' else '<p>&lt;x&gt;</p>'
                if type(t) is not want_cls or prev is not t or out != want_out:
                    ctx.violation('PageTemplateLoader.load(name, format): the instance must be of the format\'s class and the same for the same '
                                  '(name, format)', {'loads': seq, 'at': [nm, fmt]}, expected={'class': want_cls.__name__, 'out': repr(want_out)},
                                  actual={'class': type(t).__name__, 'same_instance': prev is t, 'out': repr(out)})
                    break
        # (3) load: looks next to the template first
        from chameleon import PageTemplateFile
        for i in range(ctx.budget(30, 400)):
            base = os.path.join(d, 'R%d' % i)
            own, other = os.path.join(base, 'own'), os.path.join(base, 'other')
            os.makedirs(own)
            os.makedirs(other)
            name = ctx.rng.choice(['inc.pt', 'sub.inc.pt'])
            in_own = ctx.rng.random() < 0.7
            in_other = ctx.rng.random() < 0.8 or not in_own
            if in_own:
                open(os.path.join(own, name), 'w').write('<b>OWN</b>')
            if in_other:
                open(os.path.join(other, name), 'w').write('<b>OTHER</b>')
            open(os.path.join(own, 'main.pt'), 'w').write('<div tal:define="t load: %s">${structure: t()}</div>' % name)
            prepend = ctx.rng.random() < 0.7
            # the template's own directory may itself be on the search path, after another directory that has the name too
            layout = ctx.rng.choice(['other', 'other+own', 'own+other', 'loader', 'loader'])
            sp = {'other': [other], 'other+own': [other, own], 'own+other': [own, other], 'loader': [other, own]}[layout]

            class T(PageTemplateFile):
                prepend_relative_search_path = prepend
            try:
                if layout == 'loader':
                    from chameleon import PageTemplateLoader
                    prepend = True          # the loader's templates use the default
                    got = PageTemplateLoader(list(sp)).load('main.pt')()
                else:
                    got = T(os.path.join(own, 'main.pt'), search_path=list(sp))()
            except Exception as e:
                got = type(e).__name__
            ctx.count('evaluations')
            nt += 1
            if prepend and in_own:
                exp = '<div><b>OWN</b></div>'
            else:
                first = [dd for dd in sp if (dd == own and in_own) or (dd == other and in_other)]
                if first:
                    exp = '<div><b>%s</b></div>' % ('OWN' if first[0] == own else 'OTHER')
                else:
                    exp = 'ValueError'
            if got != exp:
                ctx.violation('a load: expression inside a file template must look next to that template first', {'own': in_own, 'other': in_other,
                              'prepend_relative_search_path': prepend, 'name': name, 'search_path': layout}, expected=exp, actual=got)
            shutil.rmtree(base, ignore_errors=True)
        # (4) package-relative specs: `pkg:path` as a name, and as an entry of the search path
        nt += package_cases(ctx, d)
    finally:
        shutil.rmtree(d, ignore_errors=True)
    ctx.counters['nontrivial'] = nt
    ctx.sample({'history': [['render'], ['modify', 1, 12], ['names'], ['use', 'b']], 'expected': [{'rendered': 0, 'xml': False}, None, {'names': ['a']}, {'macro': None}]})


PKG_FILES = {'tpl/a.pt': 'PA', 'tpl/c': 'PC-plain', 'tpl/c.pt': 'PC-ext', 'tpl/sub/b.pt': 'PB', 'tpl/v1.2/index': 'PI-plain',
             'tpl/v1.2/index.pt': 'PI-ext', 'other/a.pt': 'OA'}


def package_cases(ctx, d):
    """a throw-away package on sys.path; every spec is resolved by a reference and compared with what the loader renders"""
    import importlib
    from chameleon import PageTemplateFile
    from chameleon.loader import TemplateLoader
    pkg = 'c16pkg_%d_%d' % (os.getpid(), ctx.rng.randrange(10 ** 6))
    root = os.path.join(d, 'pkgroot')
    for rel, body in PKG_FILES.items():
        fn = os.path.join(root, pkg, rel)
        os.makedirs(os.path.dirname(fn), exist_ok=True)
        with open(fn, 'w') as fh:
            fh.write('<p>%s</p>' % body)
    open(os.path.join(root, pkg, '__init__.py'), 'w').close()
    plain = os.path.join(d, 'plain')
    os.makedirs(plain)
    with open(os.path.join(plain, 'a.pt'), 'w') as fh:
        fh.write('<p>DIR-A</p>')
    sys.path.insert(0, root)
    importlib.invalidate_caches()
    n = 0
    try:
        for _ in range(ctx.budget(60, 1500)):
            ext = ctx.rng.choice([None, '.pt'])
            kind = ctx.rng.choice(['spec', 'path', 'mixed'])
            if kind == 'spec':
                sp = []
                rel = ctx.rng.choice(['tpl/a.pt', 'tpl/c', 'tpl/sub/b.pt', 'tpl/v1.2/index', 'tpl/missing.pt', 'other/a.pt'])
                spec = '%s:%s' % (pkg, rel)
                # the whole spec is tested for a dot: the package name has none
                name = rel + ext if (ext and '.' not in spec) else rel
                exp = PKG_FILES.get(name)
            else:
                sp = ['%s:tpl' % pkg] if kind == 'path' else ctx.rng.choice([[plain, '%s:tpl' % pkg], ['%s:tpl' % pkg, plain], ['%s:other' % pkg, '%s:tpl' % pkg]])
                spec = ctx.rng.choice(['a.pt', 'c', 'sub/b.pt', 'v1.2/index', 'nope.pt'])
                name = spec + ext if (ext and '.' not in spec) else spec
                exp = None
                for entry in sp:
                    if entry == plain:
                        if name == 'a.pt':
                            exp = 'DIR-A'
                            break
                    else:
                        got = PKG_FILES.get(entry.split(':', 1)[1] + '/' + name)
                        if got is not None:
                            exp = got
                            break
            loader = TemplateLoader(search_path=list(sp), default_extension=ext)
            try:
                t = loader.load(spec, PageTemplateFile)
                out = t()
                same = loader.load(spec, PageTemplateFile) is t
            except (ValueError, OSError) as e:
                out, same = type(e).__name__, True
            ctx.count('evaluations')
            n += 1
            want = '<p>%s</p>' % exp if exp is not None else None
            ok = (out == want) if want is not None else out in ('ValueError', 'FileNotFoundError', 'OSError')
            if not ok or not same:
                ctx.violation('package-relative spec: resolution / default extension / same instance', {'package_files': sorted(PKG_FILES),
                              'search_path': [x.replace(pkg, 'PKG') for x in sp], 'spec': spec.replace(pkg, 'PKG'), 'ext': ext},
                              expected=want or 'not found', actual={'rendered': out, 'same_instance': same})
    finally:
        sys.path.remove(root)
        for m in [m for m in sys.modules if m.startswith(pkg)]:
            del sys.modules[m]
    return n


def reproduce_finding(ctx, f):
    return None


def replay(ctx, case):
    v = case.get('violation', case)
    c = v['input']
    if 'ops' in c:
        d = tempfile.mkdtemp(prefix='c16_')
        try:
            obs, cooks = run_real(d, c.get('auto', True), c['ops'])
        finally:
            shutil.rmtree(d, ignore_errors=True)
        return {'obs': obs, 'cooks': cooks}
    return {'case': c}

"""C20 — text-mode templates copy their source verbatim except for ${...} and $$."""
import itertools
import os
import shutil
import tempfile

import core
import pipeline
import talgen

PID = 'C20'
PROOF_MODULES = ['ChamProofs.Props.C20', 'ChamProofs.Props.C20Expr']
THEOREMS = ['ChamVerif.C20_build_verbatim', 'ChamVerif.C20_eval_text', 'ChamVerif.C20_render_verbatim',
            'ChamVerif.C20_build_interp',
            'ChamVerif.eval_text_interp',
            'ChamVerif.C20_render_text_expr_text']
LEVEL_TEXT = ('Proved in Lean on the whole render function of the pipeline model: a text-mode template whose source holds no "${" renders as '
              'its source with newlines normalised and "$$" collapsed — every other character ("<", "&", quotes, tags, tal:-like text, '
              'processing instructions) is copied (C20_render_verbatim, for every source string and configuration; the build step '
              'C20_build_verbatim shows the single token never reaches the element parser); a text-mode template whose source the Interpolator '
              'splits into pre, one expression and post (C06_text_expr_text proves that split for pre ++ "${" ++ e ++ "}" ++ post) renders to '
              'pre ++ t ++ post, t the unescaped string form of the value (C20_render_text_expr_text, on the whole render function: build, compile '
              'pass, interpreter). Delimiting at the own brace, the "$" parity rule and texts with any number of expressions are the theorems '
              'of the Interpolator model shared with C06 (C06_candidate_own_brace, C06_dollar_run_even/_odd, C06_text_parts), tied '
              'to the code in text mode by correspondence over an exhaustive alphabet enumeration plus part-list texts, and judged on the '
              'implementation by a constructive reference; the bytes clause of PageTextTemplateFile is judged on files in several encodings.')
LEVEL_NOTE = ('D-20b (character entities inside a ${...} expression were decoded in text mode too) was repaired in /repo (fix: 8a4f2a3; TCfg.decodeInterp in the model: C20_render_text_expr_text needs no hypothesis about "&" any more). Trusted: Lean kernel; the pipeline model (validated by correspondence in text mode). Interpretation I-2: CR/CRLF are '
              'normalised to LF in text mode too (documented for every non-XML content type); a text that begins with "<?xml" is sniffed as text/xml and keeps them (textBody in the model; the theorems are stated for it). The D-20a defect (a text template '
              'starting with "<" was parsed as markup) was repaired in /repo (fix: cf315bd).')
RULE = ('(a) every string up to length 5 (quick: 4) over {<, >, &, $, {, }, a, ", newline, é, /, ?, ${x}}; (b) part-list texts: literal runs rich in markup / TAL-looking attributes / PIs / entities / $ runs '
        'and ${expr} parts with brace- and quote-rich expressions x bindings holding markup; (c) file templates in utf-8 with and '
        'without BOM. Non-trivial iff the text contains a markup character and a $.')
TRUSTED = []
ASSUMPTIONS = []

ALPHA = ['<', '>', '&', '$', '{', '}', 'a', '"', '\n', 'é', '/', '?', 'X']      # X is replaced by ${x}
LITS = ['<b>', '</b>', '<p tal:content="x">', '<?python y = 1 ?>', '<!-- c -->', '<![CDATA[', ']]>', '&amp;', '&lt;', '&', '<', '>', '$$', '$',
        'x $ y', '{', '}', '} {', 'é', '\n', ' \n  ', '<?xml version="1.0"?>', '<!DOCTYPE html>', "it's", '"q"', '$$$$', '<a href="${', '<br/>',
        '<tal:block replace="x"/>', 'metal:use-macro="m"', '${', '$ {x}', 'i18n:translate=""', '</', '<!', '<?', '\n\n', '\n \n', '}\n', 'p { margin: 0 }\n', '\n\t\n',
        # CR / CRLF are line ends (normalised to LF, interpretation I-2); form feed, the information separators, NEL and the Unicode
        # line / paragraph separators are ordinary characters of a text - with and without a carriage return elsewhere in the source
        '\r\n', 'a\r\nb', '\r', '\x0c', 'page 1\x0cpage 2', '\x0b', '\x1c', '\x1d\x1e', '\x85', '\u2028', 'a\u2029b', '\x0c\r\n', 'z\x85']
EXPRS = [("x", '<V&>'), ("y", 'Zoë'), ("'}'", '}'), ("{'a': 1}['a']", '1'), ("'<' + y + '>'", '<Zoë>'), ("len({1, 2})", '2'), ("f'{y}!'", 'Zoë!'),
         ("n", '7'), ("1 < 2", 'True'), ("'$$'", '$$'), ("'{0}'.format(y)", 'Zoë'), ("'\"'", '"'), ('"\'"', "'"),
         ("str({'k': '}'}['k'])", '}'), ("none", ''), ("max(1,\n\n 2)", '2'), ("'a' +\n \n 'b'", 'ab'), ("(y\n\n)", 'Zoë'), ("[n,\n\t\n n][0]", '7'), ("'<b>'", '<b>'), ("x | y", '<V&>'), ("nope | y", 'Zoë'), ("structure: x", '<V&>'),
         # an ampersand in front of letters that begin a legacy entity name, without the ';' that would make it a character reference
         ("'?p=2&copy=1'", '?p=2&copy=1'), ("'a&region=eu&notify=1'", 'a&region=eu&notify=1'), ("n&n", '7'), ("'&apos;'", '&apos;'), ("'&#65'", '&#65'),
         ("'&foo;'", '&foo;'), ("'&'", '&'), ("'x&y'", 'x&y'),
         # what would be a character entity in markup is ordinary text here (D-20b, fixed)
         ("'a &amp; b'", 'a &amp; b'), ("'&lt;' + y", '&lt;Zoë'), ("len('&#65;')", '5'), ("'&quot;'", '&quot;')]
VARS = [['x', {'str': '<V&>'}], ['y', {'str': 'Zoë'}], ['n', 7], ['none', None]]


D20B = {'src': "${'a &amp; b'}", 'cfg': {'text_mode': True}}


def reference(parts):
    """-> (expected, ok) left to right; ok False when the text holds a `${` that is not one of the expression parts"""
    out = []
    pending = ''
    ok = True
    for kind, v in parts:
        if kind == 'lit':
            pending += v
            continue
        run = len(pending) - len(pending.rstrip('$'))
        if run % 2 == 1:
            if '${' in pending[:-1] or '${' in v['src'][1:]:
                ok = False
            pending += v['src']
            out.append(pending.replace('$$', '$'))
            pending = ''
        else:
            if '${' in pending:
                ok = False
            out.append(pending.replace('$$', '$'))
            pending = ''
            out.append(v['val'])
    if '${' in pending:
        ok = False
    out.append(pending.replace('$$', '$'))
    return ''.join(out), ok


def partcase(rng):
    parts = []
    for _ in range(rng.randint(1, 6)):
        if rng.random() < 0.55:
            parts.append(('lit', rng.choice(LITS)))
        else:
            e, val = rng.choice(EXPRS)
            parts.append(('expr', {'src': '${%s}' % e, 'val': val}))
    exp, ok = reference(parts)
    if not ok:
        return None
    text = ''.join(v if k == 'lit' else v['src'] for k, v in parts)
    # a literal `$` directly followed by a literal starting with `{`, or `${` spelled across literals
    if '${' in ''.join((v if k == 'lit' else '\0') for k, v in parts):
        return None
    nt = any(ch in text for ch in '<&') and '$' in text
    # a text that begins with an XML declaration keeps its line ends (it is sniffed as text/xml); every other one has CR / CRLF
    # normalised to LF (interpretation I-2)
    if not text.startswith('<?xml'):
        exp = exp.replace('\r\n', '\n').replace('\r', '\n')
    return {'src': text, 'vars': VARS, 'objs': [], 'cfg': {'text_mode': True}}, exp, nt


def enum_cases(n):
    for k in range(0, n + 1):
        for tup in itertools.product(ALPHA, repeat=k):
            yield ''.join(tup)


def enum_reference(s):
    """reference for alphabet strings: split on X -> parts"""
    parts = []
    for i, piece in enumerate(s.split('X')):
        if i:
            parts.append(('expr', {'src': '${x}', 'val': '<V&>'}))
        if piece:
            parts.append(('lit', piece))
    return reference(parts)


def correspondence(ctx):
    cases = []
    n = 3 if ctx.tier == 'quick' else 4
    for s in enum_cases(n):
        cases.append({'src': s.replace('X', '${x}'), 'vars': VARS, 'objs': [], 'cfg': {'text_mode': True}})
    while len(cases) < ctx.budget(4000, 60000):
        c = partcase(ctx.rng)
        if c:
            cases.append(c[0])
    # texts with stray `${` and arbitrary soups: the model and the code must still agree (errors included)
    for _ in range(ctx.budget(600, 10000)):
        s = ''.join(ctx.rng.choice(LITS + ['${x}', '${y}', '${', '}', '$']) for _ in range(ctx.rng.randint(1, 6)))
        cases.append({'src': s, 'vars': VARS, 'objs': [], 'cfg': {'text_mode': True}})
    pipeline.run_cases(ctx, cases, what='text mode')


def oracle(ctx):
    nt = 0
    cases = []
    n = 4 if ctx.tier == 'quick' else 5
    for s in enum_cases(n):
        exp, ok = enum_reference(s)
        if ok:
            cases.append(({'src': s.replace('X', '${x}'), 'vars': VARS, 'objs': [], 'cfg': {'text_mode': True}}, exp,
                          ('$' in s or 'X' in s) and any(c in s for c in '<&')))
    m = len(cases)
    while len(cases) < m + ctx.budget(4000, 100000):
        c = partcase(ctx.rng)
        if c:
            cases.append(c)
    impls = pipeline.impl_many([c[0] for c in cases])
    for (case, exp, nontrivial), impl in zip(cases, impls):
        ctx.count('evaluations')
        nt += 1 if nontrivial else 0
        if impl.get('out') != exp:
            ctx.violation('text template: output differs from the source with ${expr} replaced by str(value) (unescaped) and $$ by $',
                          {'src': case['src'], 'vars': case['vars']}, expected=exp, actual=impl)
    ctx.cov['exhaustive_alphabet_strings'] = m
    # file-based: bytes in the template's encoding
    d = tempfile.mkdtemp(prefix='c20_')
    try:
        from chameleon import PageTextTemplateFile
        for _ in range(ctx.budget(60, 1500)):
            c = None
            while c is None:
                c = partcase(ctx.rng)
            case, exp, _nt = c
            enc, bom = ctx.rng.choice([('utf-8', b''), ('utf-8', b'\xef\xbb\xbf'), ('utf-16-le', b'\xff\xfe'), ('utf-16-be', b'\xfe\xff')])
            # the `encoding` option of the template decides the bytes of the result
            out_enc = ctx.rng.choice([None, 'utf-8', 'utf-16-le', 'latin-1'])
            if out_enc == 'latin-1':
                try:
                    exp.encode('latin-1')
                except UnicodeEncodeError:
                    out_enc = 'utf-16-le'
            path = os.path.join(d, 't%d.txt' % ctx.rng.randrange(10 ** 9))
            with open(path, 'wb') as f:
                f.write(bom + case['src'].encode(enc))
            kw = {k: talgen.pyval(v, []) for k, v in case['vars']}
            # several calls on one object: the bytes are the same every time (the file's own encoding is not the output encoding)
            try:
                tobj = PageTextTemplateFile(path, **({'encoding': out_enc} if out_enc else {}))
                gots = [tobj.render(**kw) for _ in range(ctx.rng.choice([1, 2, 3]))]
                got = gots[0] if all(g == gots[0] for g in gots) else gots
            except Exception as e:
                got = 'raised %s' % type(e).__name__
            ctx.count('evaluations')
            nt += 1
            if got != exp.encode(out_enc or 'utf-8'):
                ctx.violation('file-based text template: result is not the text encoded to bytes with the template\'s encoding',
                              {'src': case['src'], 'vars': case['vars'], 'file_encoding': enc, 'bom': bool(bom), 'encoding_option': out_enc},
                              expected=repr(exp.encode(out_enc or 'utf-8')), actual=repr(got))
            os.unlink(path)
    finally:
        shutil.rmtree(d, ignore_errors=True)
    ctx.counters['nontrivial'] = nt
    ctx.sample({'template': cases[m][0]['src'], 'expected': cases[m][1]})
    # every ${…} occurrence is evaluated on its own, also when the same expression text stands several times in one text
    from chameleon import PageTextTemplate
    REP = [('${next(n)}. ${next(n)}. ${next(n)}.', lambda: {'n': iter([1, 2, 3])}, '1. 2. 3.'),
           ('To: ${q.pop(0)}\nCc: ${q.pop(0)}\n${q.pop(0)}!', lambda: {'q': ['a@x', 'b@x', '<c&d>']}, 'To: a@x\nCc: b@x\n<c&d>!'),
           ('${c()}${c()}$${c()}${c()}', lambda: {'c': iter('wxyz').__next__}, 'wx${c()}y')]
    for src, mk, want in REP:
        ctx.count('evaluations')
        try:
            got = PageTextTemplate(src)(**mk())
        except Exception as e:
            got = {'exc': type(e).__name__, 'msg': str(e).split('\n')[0][:100]}
        if got != want:
            ctx.violation('text mode: each ${expr} is replaced by the value of that occurrence of expr', {'src': src, 'kwargs': 'iterators / queues'},
                          expected=want, actual=got)
    # D-20b (fixed): entities inside an expression were decoded in text mode too
    r = pipeline.run_impl(dict(D20B, vars=[], objs=[]))
    if r.get('out') != 'a &amp; b':
        ctx.violation('text mode: a character entity inside ${...} is decoded before the expression is compiled', {'src': D20B['src'], 'vars': []},
                      expected='a &amp; b', actual=r, finding=None)


def reproduce_finding(ctx, f):
    return None


def replay(ctx, case):
    v = case.get('violation', case)
    c = v['input']
    if 'file_encoding' in c:
        return {'note': 'file case: re-run the check'}
    impl = pipeline.run_impl({'src': c['src'], 'vars': c.get('vars', VARS), 'objs': [], 'cfg': {'text_mode': True}})
    if v.get('expected') is not None and impl.get('out') != v['expected']:
        ctx.violation('text mode', c, expected=v['expected'], actual=impl)
    return {'impl': impl, 'expected': v.get('expected')}

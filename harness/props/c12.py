"""C12 — render errors keep their type and name the failing expression and position."""
import os
import re
import shutil
import tempfile

import core
import pipeline
import talgen

PID = 'C12'
PROOF_MODULES = ['ChamProofs.Props.C12', 'ChamProofs.Props.C13Exact', 'ChamProofs.Props.C12Loc']
THEOREMS = ['ChamVerif.keeps_evalT', 'ChamVerif.C12_token_set_when_value_raises', 'ChamVerif.C12_record',
            'ChamVerif.C12_base_exception_untouched', 'ChamVerif.C12_macro_records_then_reraises', 'ChamVerif.C12_records_order',
            'ChamVerif.C12_filler_records_failing_expression', 'ChamVerif.C12_handled_records_dropped',
            'ChamVerif.locate_main', 'ChamVerif.locate_lib', 'ChamVerif.C12_lib_record',
            'ChamVerif.C12_record_position_exact']
LEVEL_TEXT = ('Proved in Lean: the TALES evaluator (python pipes, nested prefixes, string parts — all four mutually recursive functions) never '
              'clears __token (keeps_evalT, induction on the fuel over the mutual block), hence whenever evaluating an expression raises, '
              '__token holds an expression position (C12_token_set_when_value_raises); for an exception in the Exception hierarchy the record '
              'attached to the message is exactly the source slice at that position with its line and column, looked up in the source of the template the position belongs to (C12_record; locate_main, locate_lib: '
              'the rendered template, or the library template whose macro was running), and an exception '
              'outside the hierarchy gets no record and is not re-typed (C12_base_exception_untouched, the behaviour after the D-12a fix); a '
              'failure inside a slot filler is recorded at the filler\'s own expression and the macro adds no record of its own '
              '(C12_filler_records_failing_expression, after the D-12d fix); the fallback of tal:on-error starts with at most the records the '
              'list held when the element was entered (C12_handled_records_dropped, whole-interpreter, after the D-12b fix). '
              'Class preservation, original arguments, RenderError mixin, call-site chains over macros and load: and the absence of partial '
              'output are judged on the implementation by the oracle; the interpreter by end-to-end correspondence of error records.'
              " The line and column of a record give back the failing expression's offset exactly (C12_record_position_exact, from C11_location_exact).")
LEVEL_NOTE = ('Trusted: Lean kernel; the interpreter model; ExceptionFormatter\'s text layout is parsed by the harness (" - Expression:", '
              '" - Location:"). Known findings: D-12c (an exception whose class is exactly Exception cannot get the RenderError mixin: '
              'no location in its message). D-12b (records of handled failures stayed in the error list) and D-12d (a failure inside a slot '
              'filler named an expression of the macro) were repaired in /repo.')
RULE = ('skeleton templates (multi-line, several expressions at statement and interpolation sites, inline macros, use-macro and load: '
        'chains over files) x every reached expression occurrence made to raise each of 8 exception classes (builtin, custom with extra '
        'constructor arguments, overriding __str__, KeyboardInterrupt, SystemExit, RecursionError); failures inside slot fillers of external '
        'and in-template macros; one or two failures handled by tal:on-error across a macro boundary followed by a later failure. Non-trivial iff the raising occurrence is '
        'not the first expression of the template, or sits inside a macro / load: chain.')
TRUSTED = []
ASSUMPTIONS = []


class Custom(Exception):
    def __init__(self, a, b):
        super().__init__(a, b)
        self.a = a


class Shouty(ValueError):
    def __str__(self):
        return 'SHOUT'


class NewArgs(Exception):
    """takes its constructor arguments in __new__"""
    def __new__(cls, a, b):
        self = super().__new__(cls, a, b)
        self.code = b
        return self

    def __init__(self, a, b):
        super().__init__(a, b)


class ThreeArgs(LookupError):
    def __init__(self, a, b, c):
        super().__init__(a, b, c)
        self.c = c


class KwOnly(Exception):
    def __init__(self, a, *, detail):
        super().__init__(a)
        self.detail = detail


class Slotted(Exception):
    __slots__ = ('extra',)

    def __init__(self, a):
        super().__init__(a)
        self.extra = a


class OsSub(OSError):
    def __init__(self, a):
        super().__init__(7, a)


class UniSub(UnicodeError):
    """a direct subclass of UnicodeError: no object / start / end attributes (those belong to the Decode/Encode/Translate subclasses)"""


class BaseSub(BaseException):
    """an application-defined control-flow exception outside the Exception hierarchy"""


class NoArgs(Exception):
    def __init__(self, a):
        super().__init__()
        self.a = a


EXC = {
    'NewArgs': lambda k: NewArgs(k, 404), 'ThreeArgs': lambda k: ThreeArgs(k, 2, 3), 'KwOnly': lambda k: KwOnly(k, detail='d'),
    'Slotted': lambda k: Slotted(k), 'OsSub': lambda k: OsSub(k), 'NoArgs': lambda k: NoArgs(k),
    'UnicodeDecodeError': lambda k: UnicodeDecodeError('utf-8', b'\xff', 0, 1, k), 'StopIteration': lambda k: StopIteration(k),
    'AssertionError': lambda k: AssertionError(), 'ImportError': lambda k: ImportError(k, name='m', path='p'),
    'KeyError': lambda k: KeyError(k), 'ZeroDivisionError': lambda k: ZeroDivisionError(k), 'TypeError': lambda k: TypeError(k, 2),
    'Custom': lambda k: Custom(k, {'x': 1}), 'Shouty': lambda k: Shouty(k), 'RuntimeError': lambda k: RuntimeError(k),
    'KeyboardInterrupt': lambda k: KeyboardInterrupt(k), 'SystemExit': lambda k: SystemExit(3), 'RecursionError': lambda k: RecursionError(k),
    'OSError': lambda k: OSError(5, k),
    'GeneratorExit': lambda k: GeneratorExit(k), 'CancelledError': lambda k: __import__('asyncio').CancelledError(k), 'BaseSub': lambda k: BaseSub(k),
    'UnicodeError': lambda k: UnicodeError(k), 'UniSub': lambda k: UniSub(k),
    'UnicodeEncodeError': lambda k: UnicodeEncodeError('ascii', 'h\xe9', 1, 2, k),
    'UnicodeTranslateError': lambda k: UnicodeTranslateError('h\xe9', 1, 2, k),
    'LookupError': lambda k: LookupError(k), 'ValueError': lambda k: ValueError(k, 'v'), 'EOFError': lambda k: EOFError(),
}

SITES = [
    ('<p tal:content="@E@">x</p>', 'content'),
    ('<p tal:define="a 1; b @E@">x</p>', 'define-after-semicolon'),
    ('<p>text\n   more ${@E@} tail</p>', 'interpolation on 2nd line'),
    ('<p title="é ${@E@}">x</p>', 'attribute interpolation after non-ASCII'),
    ('<p tal:attributes="class @E@">x</p>', 'attributes'),
    ('<p tal:condition="@E@">x</p>', 'condition'),
    ('<p tal:repeat="i @E@">x</p>', 'repeat'),
    ('<ul><li tal:repeat="i [1, 2]">${i} ${@E@}</li></ul>', 'inside repeat'),
    ('<p tal:replace="nope | @E@">x</p>', 'pipe alternative'),
    ('<p tal:content="string:a ${@E@} b">x</p>', 'string: part'),
    ('<p tal:content="\n@E@\n">x</p>', 'expression on its own line: column 0'),
    ('<p>${\n@E@\n}</p>', 'interpolated expression on its own line: column 0'),
    ('<p>\n${@E@}</p>', 'interpolation at the start of a line'),
    ('<div metal:define-macro="mm"><b>${@E@}</b></div>', 'inside inline macro'),
    ('<div metal:define-macro="mm"><i tal:content="ok1"/><b tal:content="@E@"/></div>', 'inside inline macro after another expression'),
]


def build(rng):
    site, label = rng.choice(SITES)
    exc = rng.choice(list(EXC))
    pre = rng.choice(['', '<title>${ok1}</title>\n', 'é\n<div>\n  ', '<i tal:content="ok1"/>\n\n'])
    post = '</div>' if '<div>' in pre else ''
    expr = "boom('%s')" % exc
    body = site.replace('@E@', expr)
    src = pre + body + post
    off = src.index(expr)
    line = 1 + src[:off].count('\n')
    col = off - (src[:off].rfind('\n') + 1)
    text = expr
    if label == 'pipe alternative':
        # the token of a pipe is the whole expression
        whole = 'nope | ' + expr
        off2 = src.index(whole)
        text, line, col = whole, 1 + src[:off2].count('\n'), off2 - (src[:off2].rfind('\n') + 1)
    # line endings: positions refer to the text with UNIX newlines (what is tokenised in non-XML mode)
    eol = rng.choice(['\n', '\n', '\n', '\r\n', '\r'])
    return {'src': src.replace('\n', eol), 'exc': exc, 'record': [text, line, col], 'label': label,
            'nontrivial': bool(pre) or label in ('inside repeat', 'define-after-semicolon') or 'macro' in label}


def run(case, files=None):
    """render with a raising `boom`; returns canonical description of what came out"""
    from chameleon import PageTemplate
    from chameleon.exc import RenderError
    made = []

    def boom(name):
        e = EXC[name](name)
        made.append(e)
        raise e
    try:
        out = PageTemplate(case['src'])(boom=boom, ok1='fine')
        return {'out': out}
    except BaseException as e:
        orig = made[-1] if made else None
        return {'raised': type(e).__name__, 'isinstance_original': orig is not None and isinstance(e, type(orig)),
                'is_render_error': isinstance(e, RenderError), 'is_exception': isinstance(e, Exception),
                'args_equal': orig is not None and e.args == orig.args, 'records': pipeline.parse_errors(str(e)) if isinstance(e, Exception) else [],
                'same_object': e is orig}


OUTSIDE = ('KeyboardInterrupt', 'SystemExit', 'GeneratorExit', 'CancelledError', 'BaseSub')     # not Exception subclasses


def judge(case, r):
    exc = case['exc']
    if 'out' in r:
        return 'no exception came out of render() although an expression raised (partial output returned)'
    if exc in OUTSIDE:
        if r['is_exception']:
            return 'an exception outside the Exception hierarchy was turned into an Exception subclass'
        if r['raised'] != exc:
            return 'wrong class'
        return None
    if exc == 'RecursionError':
        if not r['same_object']:
            return 'RecursionError did not pass through unwrapped'
        return None
    if not r['isinstance_original']:
        return 'the exception is no longer an instance of the original class'
    if not r['args_equal']:
        return 'the original arguments are not preserved'
    if not r['is_render_error']:
        return 'the exception is not a RenderError'
    if r['records'] != [case['record']]:
        return 'the message does not name exactly the failing expression with its line and column'
    return None


# ---- call-site chains over files
def chain_case(rng, d):
    """lib.pt defines a macro that raises; mid.pt loads lib; main.pt loads mid: records innermost first"""
    exc = rng.choice(['KeyError', 'Custom', 'Shouty', 'TypeError'])
    # the failing expression stands far into a line of varying layout: the message shows a window of the line with a marker
    pad = 'x' * rng.randint(0, 45) + ' ' * rng.randint(0, 3) + 'y' * rng.randint(0, 12)
    lib = '<html>\n<div metal:define-macro="m">\n  <b class="%s">${boom(\'%s\')}</b>  <i>tail of the line</i>\n</div>\n</html>' % (pad, exc)
    mid = '<x>\n<y tal:define="lib load: lib.pt" metal:use-macro="lib.macros[\'m\']"/>\n</x>'
    # the call site in main.pt: a plain name, or an expression with separately compiled inner parts (string interpolation inside
    # load:, a later pipe alternative) - the record names the whole use-macro expression either way
    use = rng.choice(['mid', 'mid', 'load: ${name}.pt', 'nothere | python: mid', 'load: mid.pt', 'nothere.x | nothere | mid'])
    main = '<main>\n\n<z tal:define="mid load: mid.pt" metal:use-macro="%s"/></main>' % use
    for name, body in (('lib.pt', lib), ('mid.pt', mid), ('main.pt', main)):
        with open(os.path.join(d, name), 'w') as f:
            f.write(body)

    def rec(src, text):
        off = src.index(text)
        return [text, 1 + src[:off].count('\n'), off - (src[:off].rfind('\n') + 1)]
    off = main.index('use-macro="') + len('use-macro="')
    expected = [rec(lib, "boom('%s')" % exc), rec(mid, "lib.macros['m']"),
                [use, 1 + main[:off].count('\n'), off - (main[:off].rfind('\n') + 1)]]
    return exc, expected


def run_chain(d, exc):
    from chameleon import PageTemplateFile
    from chameleon.exc import RenderError

    def boom(name):
        raise EXC[name](name)
    try:
        PageTemplateFile(os.path.join(d, 'main.pt'))(boom=boom, name='mid')
    except Exception as e:
        return {'raised': type(e).__name__, 'is_render_error': isinstance(e, RenderError), 'records': pipeline.parse_errors(str(e)),
                'markers': marker_texts(str(e))}
    return {'out': True}


# ---- failures inside slot fillers, and failures after a handled failure
def _rec(src, text, nth=0):
    off = -1
    for _ in range(nth + 1):
        off = src.index(text, off + 1)
    return [text, 1 + src[:off].count('\n'), off - (src[:off].rfind('\n') + 1)]


def filler_case(rng):
    """the failing expression stands in a metal:fill-slot body: it is the one to be named, followed by the use-macro call site"""
    exc = rng.choice(['KeyError', 'Custom', 'Shouty', 'TypeError', 'ZeroDivisionError'])
    mpre = rng.choice(['', '${ok1}', '<i tal:content="ok1"/>\n  ', '<i tal:define="q ok1">${q}</i>'])
    fpre = rng.choice(['', '${ok1} ', '\n   <i tal:content="ok1"/>', 'é '])
    inner = rng.choice(['${boom(\'%s\')}', '<em tal:content="boom(\'%s\')"/>', '<em tal:repeat="i [1, 2]">${i}${boom(\'%s\')}</em>']) % exc
    lib = '<html>\n<div metal:define-macro="m">%s<b metal:define-slot="s">d</b> ${ok1}</div>\n</html>' % mpre
    inline = rng.random() < 0.4
    use = "template.macros['m']" if inline else "lib.macros['m']"
    head = '<div metal:define-macro="m">%s<b metal:define-slot="s">d</b> ${ok1}</div>\n' % mpre if inline else ''
    main = '<main>\n%s <x metal:use-macro="%s"><u metal:fill-slot="s">%s%s</u></x>\n</main>' % (head, use, fpre, inner)
    return {'lib': lib, 'main': main, 'exc': [exc], 'expected': [_rec(main, "boom('%s')" % exc), _rec(main, use)],
            'kind': 'filler/' + ('inline' if inline else 'external')}


def handled_case(rng):
    """a failure inside a macro is handled by tal:on-error; a later, unrelated failure must be reported alone"""
    e1 = rng.choice(['KeyError', 'Custom', 'TypeError', 'ZeroDivisionError'])
    e2 = rng.choice(['KeyError', 'Shouty', 'TypeError', 'RuntimeError'])
    lib = '<html>\n<div metal:define-macro="m"><b>${ok1}${boom(\'%s\')}</b></div>\n<div metal:define-macro="n"><i>${boom(\'%s\')}</i></div></html>' % (e1, e2)
    later_in_macro = rng.random() < 0.5
    later = '<y metal:use-macro="lib.macros[\'n\']"/>' if later_in_macro else "<i>${boom('%s')}</i>" % e2
    times = rng.choice([1, 1, 2])
    handled = ''.join('<p tal:on-error="string:E%d"><x metal:use-macro="lib.macros[\'m\']"/></p>\n' % i for i in range(times))
    main = '<main>\n%s %s</main>' % (handled, later)
    expected = [_rec(lib, "boom('%s')" % e2, 1 if e1 == e2 else 0), _rec(main, "lib.macros['n']")] if later_in_macro else [_rec(main, "boom('%s')" % e2)]
    return {'lib': lib, 'main': main, 'exc': [e1] * times + [e2], 'expected': expected, 'kind': 'after-handled/' + ('macro' if later_in_macro else 'plain')}


def run_lib(case):
    from chameleon import PageTemplate
    from chameleon.exc import RenderError
    made = []

    def boom(name):
        e = EXC[name](name)
        made.append(e)
        raise e
    try:
        out = PageTemplate(case['main'])(boom=boom, ok1='fine', lib=PageTemplate(case['lib']))
        return {'out': out}
    except Exception as e:
        orig = made[-1] if made else None
        return {'raised': type(e).__name__, 'isinstance_original': orig is not None and isinstance(e, type(orig)),
                'is_render_error': isinstance(e, RenderError), 'records': pipeline.parse_errors(str(e)), 'raised_calls': [type(x).__name__ for x in made]}


def judge_lib(case, r):
    if 'out' in r:
        return 'no exception came out of render() although an expression raised'
    if r['raised'] != case['exc'][-1] or not r['isinstance_original'] or not r['is_render_error']:
        return 'the exception does not keep its class / RenderError mixin'
    if r['records'] != case['expected']:
        return ('the message does not name exactly the failing expression (then the enclosing call sites): ' + case['kind'])
    return None


def recursion_case(rng, d):
    """a template that includes itself (tree rendering) fails `depth` levels down: the call site appears once per level"""
    depth = rng.randint(1, 4)
    exc = rng.choice(['KeyError', 'Custom', 'TypeError'])
    pad = ' ' * rng.randint(0, 6)
    tree = ('<div>\n%s<b>${node[\'label\']()}</b>\n'
            '  <p tal:repeat="child node[\'children\']"><x tal:define="node child" metal:use-macro="load: tree.pt"/></p>\n</div>' % pad)
    main = '<main>\n\n  <y metal:use-macro="load: tree.pt"/></main>'
    for name, body in (('tree.pt', tree), ('main.pt', main)):
        with open(os.path.join(d, name), 'w') as f:
            f.write(body)
    expected = [_rec(tree, "node['label']()")] + [_rec(tree, 'load: tree.pt')] * depth + [_rec(main, 'load: tree.pt')]
    return depth, exc, expected


def run_recursion(d, depth, exc):
    from chameleon import PageTemplateFile
    from chameleon.exc import RenderError

    def ok():
        return 'fine'

    def boom():
        raise EXC[exc](exc)
    node = {'label': boom, 'children': []}
    for _ in range(depth):
        node = {'label': ok, 'children': [node]}
    try:
        PageTemplateFile(os.path.join(d, 'main.pt'))(node=node)
    except Exception as e:
        return {'raised': type(e).__name__, 'is_render_error': isinstance(e, RenderError), 'records': pipeline.parse_errors(str(e))}
    return {'out': True}


SRC_RE = re.compile(r' - Expression: "(.*?)"\n - Filename:   .*?\n - Location:   \(line \d+: col \d+\)\n - Source:     (.*)\n               ( *\^+)')


def marker_texts(text):
    """for every record of a file template: (expression, the part of the shown source line that stands above the ^^^ marker)"""
    out = []
    for m in SRC_RE.finditer(text):
        shown, marker = m.group(2), m.group(3)
        a = len(marker) - len(marker.lstrip(' '))
        out.append([m.group(1), shown[a:a + len(marker.strip())]])
    return out


def correspondence(ctx):
    gen = []
    for _ in range(ctx.budget(1500, 50000)):
        g = talgen.TalGen(ctx.rng, depth=ctx.rng.choice([1, 2]), features={'define', 'condition', 'content', 'replace', 'attributes', 'interp',
                                                                             'pipes', 'prefixes', 'raise', 'repeat', 'omit'})
        gen.append(g.template())
    # failures inside macros of another template and inside the fillers of their slots, also after a handled failure: the
    # model compiles the library template too and looks every record up in the source it belongs to
    import re as _re
    builtin = ['KeyError', 'TypeError', 'ZeroDivisionError', 'RuntimeError']
    k = 0
    while k < ctx.budget(250, 8000):
        c = filler_case(ctx.rng) if ctx.rng.random() < 0.5 else handled_case(ctx.rng)
        if any(e not in builtin for e in c['exc']):
            continue
        k += 1
        sub = lambda s: _re.sub(r"boom\('(\w+)'\)", lambda m: "R('b', None, '%s')" % m.group(1), s)
        gen.append({'src': sub(c['main']), 'vars': [['R', {'fn': 'R'}], ['ok1', {'str': 'fine'}], ['lib', {'template': 1}]], 'objs': [],
                    'libs': [sub(c['lib'])]})
    res = pipeline.run_cases(ctx, gen, what='render error')
    ctx.cov['render_errors_compared'] = sum(1 for c, m, i in res if i.get('exc') == 'render' and m is not None)


def oracle(ctx):
    nt = 0
    hist = {}
    for _ in range(ctx.budget(1500, 50000)):
        case = build(ctx.rng)
        r = run(case)
        ctx.count('evaluations')
        nt += 1 if case['nontrivial'] else 0
        hist[case['exc']] = hist.get(case['exc'], 0) + 1
        j = judge(case, r)
        if j:
            ctx.violation(j, {'src': case['src'], 'exception': case['exc'], 'site': case['label']}, expected=case['record'], actual=r)
    d = tempfile.mkdtemp(prefix='c12_')
    try:
        for _ in range(ctx.budget(150, 3000)):
            exc, expected = chain_case(ctx.rng, d)
            r = run_chain(d, exc)
            ctx.count('evaluations')
            nt += 1
            bad_marker = [m for m in r.get('markers', []) if m[1] != m[0]]
            if bad_marker:
                ctx.violation('the source marker of the message does not stand under the failing expression', {'files': 'main.pt -> mid.pt -> lib.pt',
                              'exception': exc, 'lib': open(os.path.join(d, 'lib.pt')).read()}, expected=[m[0] for m in bad_marker], actual=bad_marker)
            elif r.get('records') != expected or not r.get('is_render_error') or r.get('raised') != exc:
                ctx.violation('call-site chain (macro in a loaded template): records must go from the failing expression outwards',
                              {'files': 'main.pt -> mid.pt -> lib.pt', 'exception': exc}, expected=expected, actual=r)
    finally:
        shutil.rmtree(d, ignore_errors=True)
    d = tempfile.mkdtemp(prefix='c12_')
    try:
        for _ in range(ctx.budget(60, 1500)):
            depth, exc, expected = recursion_case(ctx.rng, d)
            r = run_recursion(d, depth, exc)
            ctx.count('evaluations')
            nt += 1
            if r.get('records') != expected or not r.get('is_render_error') or r.get('raised') != exc:
                ctx.violation('call-site chain of a template that includes itself: one record per level, innermost first',
                              {'files': 'main.pt -> tree.pt -> tree.pt ...', 'depth': depth, 'exception': exc,
                               'tree': open(os.path.join(d, 'tree.pt')).read()}, expected=expected, actual=r)
    finally:
        shutil.rmtree(d, ignore_errors=True)
    kinds = {}
    for _ in range(ctx.budget(400, 8000)):
        case = filler_case(ctx.rng) if ctx.rng.random() < 0.5 else handled_case(ctx.rng)
        r = run_lib(case)
        ctx.count('evaluations')
        nt += 1
        kinds[case['kind']] = kinds.get(case['kind'], 0) + 1
        j = judge_lib(case, r)
        if j:
            ctx.violation(j, {'main': case['main'], 'lib': case['lib'], 'exceptions': case['exc'], 'kind': case['kind']},
                          expected=case['expected'], actual=r)
    ctx.cov['filler_and_handled_kinds'] = kinds
    ctx.cov['exception_histogram'] = hist
    ctx.counters['nontrivial'] = nt
    c0 = build(ctx.rng)
    ctx.sample({'template': c0['src'], 'raising': c0['exc'], 'expected_record': c0['record']})
    # known finding D-12c: plain Exception cannot carry the RenderError mixin
    r = run({'src': "<p>${boom('Plain')}</p>", 'exc': 'Plain'}) if False else None


FIND_SRC = "<p>${boom()}</p>"


def reproduce_finding(ctx, f):
    from chameleon import PageTemplate
    if f['id'] == 'D-12c':
        def boom():
            raise Exception('plain')
        try:
            PageTemplate(FIND_SRC)(boom=boom)
        except Exception as e:
            return ' - Expression:' not in str(e)
    if f['id'] == 'D-12f':
        try:
            PageTemplate('<p>${x &gt; 1 and missing}</p>')(x=2)
        except Exception as e:
            return ' - Expression: "x &gt; 1 and miss"' in str(e)
    return None


def replay(ctx, case):
    v = case.get('violation', case)
    c = v['input']
    if 'main' in c and 'lib' in c:
        cs = {'main': c['main'], 'lib': c['lib'], 'exc': c['exceptions'], 'expected': v.get('expected'), 'kind': c.get('kind', '')}
        r = run_lib(cs)
        j = judge_lib(cs, r)
        if j:
            ctx.violation(j, c, expected=v.get('expected'), actual=r)
        return {'result': r, 'judgement': j}
    if 'src' in c and 'exception' in c:
        cs = {'src': c['src'], 'exc': c['exception'], 'record': v.get('expected'), 'label': c.get('site'), 'nontrivial': True}
        r = run(cs)
        j = judge(cs, r)
        if j:
            ctx.violation(j, c, expected=v.get('expected'), actual=r)
        return {'result': r, 'judgement': j}
    return {'case': c}

"""C09 — METAL: using a macro equals inlining it with its slots filled."""
import core
import pipeline

PID = 'C09'
PROOF_MODULES = ['ChamProofs.Props.C09', 'ChamProofs.Props.C09Name']
THEOREMS = ['ChamVerif.C09_slot_default', 'ChamVerif.C09_slot_filled', 'ChamVerif.C09_locals_private', 'ChamVerif.C09_globals_reach_caller',
            'ChamVerif.C09_resolve_pops_rightmost', 'ChamVerif.C09_updateOwn_get', 'ChamVerif.C09_macro_enter',
            'ChamVerif.C09_macro_names_resolve_in_its_template',
            'ChamVerif.C09_macroname_scoped']
LEVEL_TEXT = ('Proved in Lean on the interpreter model: a define-slot region whose slot variable is empty renders exactly its default content '
              '(C09_slot_default) and one whose variable holds a filler renders exactly that filler, in a copy of the macro\'s scope and with '
              'the i18n settings and cached values of the place where the filler was written (C09_slot_filled); after a macro call the caller\'s '
              'variables are what they were before, updated by the global definitions only — a macro\'s local variables never reach the '
              'caller, its global ones do (C09_locals_private, C09_globals_reach_caller, C09_updateOwn_get); the slot resolution at the '
              'start of a macro function takes the rightmost filler of the deque, i.e. the outermost caller wins in an extend chain '
              '(C09_resolve_pops_rightmost). "Use equals inline" for whole libraries (nested uses, repeated slot names, extend chains, uses '
              'inside repeat/define/fill-slot, other templates, whole templates as macros) is judged on the implementation by rendering '
              'each generated (library, caller) pair and its hand-inlined METAL-free equivalent; the interpreter model is tied to the '
              'code by correspondence on the same-template pairs, on (library template, caller) pairs and on whole templates used as macros; a '
              'macro of another template runs with the template id of its own template (C09_macro_enter), so that `macros` and `template` inside '
              'it denote the library, not the caller (C09_macro_names_resolve_in_its_template).'
              ' After a metal:use-macro has finished, macroname is what it was before, whatever nested uses bound it to (C09_macroname_scoped).')
LEVEL_NOTE = ('Trusted: Lean kernel; the interpreter model; the harness\'s inliner (independent of Chameleon). Macros of other templates '
              '(lib.macros[...]) and whole templates used as macros are in the model since round 6 (library templates are compiled by the '
              'same builder; a macro runs with the macros of the template it was written in: Frame.tid); `load:` is not. Known findings: D-09a (an unused filler is picked up by a '
              'macro used inside the macro\'s body that defines a slot of that name), D-09b (… or by a later sibling use), D-09d (tal:on-error '
              'and i18n:name written on the defining element are applied around the in-place rendering only: they are not part of the macro).')
RULE = ('(library, caller) pairs from a METAL grammar: 1..3 macros with 0..3 slots (repeated slot names allowed), callers filling every subset '
        'of slots plus unknown names, uses inside repeat / define / fill-slot, nesting depth <= 3, extend chains of length <= 3, TAL '
        'statements (define local/global, condition, repeat, content, attributes, interpolation, macroname) inside macro bodies and fillers '
        'x 3 bindings; same-template, other-template and whole-template uses. Non-trivial iff a slot is filled and the macro body or a '
        'filler reads a variable, or the use is nested / extended.')
TRUSTED = []
ASSUMPTIONS = []

VARS = [['u', {'str': 'U<1>'}], ['n', 3], ['xs', {'list': [1, 2]}], ['flag', True]]


class G:
    """generator of METAL libraries and callers as small trees; `metal(t)` and `inline(t)` print the two templates"""

    def __init__(self, rng):
        self.rng = rng
        self.k = 0
        self.macros = {}        # name -> element tree
        self.order = []

    def fresh(self, p):
        self.k += 1
        return '%s%d' % (p, self.k)

    def text(self, scope):
        r = self.rng
        c = r.random()
        if c < 0.3:
            return r.choice(['t ', 'é', ' x ', '\n  '])
        if c < 0.55:
            return '${%s}' % r.choice(scope)
        if c < 0.65:
            return "${macroname | 'direct'}"
        if c < 0.75:
            return "${loc | 'noloc'}"
        if c < 0.87:
            return "${%s | 'unset'}" % r.choice(['gA', 'gB'])        # globals: may have been (re)defined by a macro used earlier
        return r.choice(['a', 'b ', '&amp;'])

    def plain(self, scope, depth):
        """an element without METAL"""
        r = self.rng
        tag = r.choice(['p', 'div', 'b', 'li'])
        attrs = []
        sc = list(scope)
        c = r.random()
        if c < 0.15:
            attrs.append(('tal:define', 'loc %s' % r.choice(["'L'", 'n', 'u'])))
            sc.append('loc')
        elif c < 0.3:
            # a small pool of global names, each definition with its own value: a macro may *re*define a global that
            # the caller or an earlier macro has already defined
            g = r.choice(['gA', 'gB'])
            attrs.append(('tal:define', 'global %s string:%s' % (g, self.fresh('G'))))
        elif c < 0.4:
            attrs.append(('tal:condition', r.choice(['flag', 'not flag', 'n'])))
        elif c < 0.5:
            attrs.append(('tal:repeat', 'i xs'))
            sc.append('i')
        elif c < 0.58:
            attrs.append(('tal:attributes', 'title u'))
        elif c < 0.64:
            attrs.append(('class', 'c${n}'))
        kids = self.kids(sc, depth, allow_slots=False)
        return {'k': 'el', 'tag': tag, 'attrs': attrs, 'kids': kids}

    def kids(self, scope, depth, allow_slots, slots=None, uses=None):
        r = self.rng
        out = []
        for _ in range(r.randint(0, 3)):
            c = r.random()
            if allow_slots and slots and c < 0.35:
                out.append(self.slot(scope, depth, r.choice(slots)))
            elif uses and c < 0.5 and depth > 0:
                out.append(self.use(scope, depth - 1, r.choice(uses)))
            elif c < 0.7 or depth <= 0:
                out.append(self.text(scope))
            else:
                out.append(self.plain(scope, depth - 1))
        return out

    def slot(self, scope, depth, name):
        r = self.rng
        tag = r.choice(['span', 'i', 'div'])
        attrs = []
        if r.random() < 0.2:
            attrs.append(('tal:define', "loc 'S'"))
        return {'k': 'slot', 'name': name, 'tag': tag, 'attrs': attrs, 'kids': [self.text(scope) for _ in range(r.randint(0, 2))]}

    def macro(self, scope, depth, uses):
        r = self.rng
        name = self.fresh('m')
        nslots = r.randint(0, 3)
        slots = [self.fresh('s') for _ in range(nslots)]
        tag = r.choice(['div', 'section', 'ul'])
        attrs = []
        sc = list(scope)
        if r.random() < 0.3:
            attrs.append(('tal:define', "loc 'M%s'" % name))
            sc.append('loc')
        kids = self.kids(sc, depth, True, slots, uses)
        # make sure every slot occurs (repeated names allowed)
        for s in slots:
            if not any(isinstance(k, dict) and k['k'] == 'slot' and k['name'] == s for k in kids):
                kids.append(self.slot(sc, depth, s))
        el = {'k': 'el', 'tag': tag, 'attrs': attrs, 'kids': kids, 'macro': name, 'slots': slots}
        self.macros[name] = el
        self.order.append(name)
        return name

    def extension(self, scope, base):
        """a macro that extends `base`, filling some of its slots (its fillers may define new slots)"""
        r = self.rng
        name = self.fresh('m')
        b = self.macros[base]
        fills = {}
        newslots = []
        for s in all_slots(self, base):
            if r.random() < 0.5:
                kids = [self.text(scope)]
                if r.random() < 0.5:
                    ns = self.fresh('s')
                    newslots.append(ns)
                    kids.append(self.slot(scope, 0, ns))
                fills[s] = {'k': 'el', 'tag': r.choice(['b', 'em']), 'attrs': [], 'kids': kids}
        el = {'k': 'ext', 'tag': 'div', 'macro': name, 'base': base, 'fills': fills, 'slots': newslots}
        self.macros[name] = el
        self.order.append(name)
        return name

    def use(self, scope, depth, mname, how='same'):
        r = self.rng
        fills = {}
        avail = all_slots(self, mname)
        for s in avail:
            if r.random() < 0.55:
                kids = [self.text(scope) for _ in range(r.randint(0, 2))]
                if depth > 0 and r.random() < 0.25:
                    kids.append(self.plain(scope, depth - 1))
                fills[s] = {'k': 'el', 'tag': r.choice(['b', 'em', 'p']), 'attrs': [('tal:define', "loc 'F'")] if r.random() < 0.2 else [], 'kids': kids}
        if r.random() < 0.3:
            fills[self.fresh('zz')] = {'k': 'el', 'tag': 'u', 'attrs': [], 'kids': ['UNKNOWN']}
        wrap = []
        c = r.random()
        if c < 0.2:
            wrap.append(('tal:define', "loc 'C'"))
        elif c < 0.35:
            wrap.append(('tal:repeat', 'j xs'))
        return {'k': 'use', 'macro': mname, 'fills': fills, 'wrap': wrap, 'tag': r.choice(['x', 'div']), 'junk': r.choice(['', ' junk ', '\n'])}


def all_slots(g, mname):
    """the slot names a use of `mname` can fill (through extend chains)"""
    m = g.macros[mname]
    if m['k'] == 'ext':
        return list(m['slots']) + all_slots(g, m['base'])
    return list(m['slots'])


def macro_expr(name, how):
    return {'same': "macros['%s']" % name, 'other': "lib.macros['%s']" % name}[how]


def rep_lead(attrs):
    """the white space between the iterations of a repeat is derived from the text before the element: pin it down"""
    return '\n' if any(k == 'tal:repeat' for k, _ in attrs) else ''


def attrs_src(attrs):
    return ''.join(' %s="%s"' % (k, v.replace('"', '&quot;')) for k, v in attrs)


def metal(g, t, how='same'):
    if isinstance(t, str):
        return t
    if t['k'] == 'el':
        a = list(t['attrs'])
        if t.get('macro') and how != 'other-lib-skip':
            a = [('metal:define-macro', t['macro'])] + a
        return rep_lead(a) + '<%s%s>%s</%s>' % (t['tag'], attrs_src(a), ''.join(metal(g, c, how) for c in t['kids']), t['tag'])
    if t['k'] == 'slot':
        return '<%s%s>%s</%s>' % (t['tag'], attrs_src([('metal:define-slot', t['name'])] + t['attrs']), ''.join(metal(g, c, how) for c in t['kids']), t['tag'])
    if t['k'] == 'ext':
        body = ''.join(metal(g, dict(f, attrs=[('metal:fill-slot', s)] + f['attrs']), how) for s, f in t['fills'].items())
        return '<%s metal:define-macro="%s" metal:extend-macro="%s">%s</%s>' % (t['tag'], t['macro'], macro_expr(t['base'], how if how == 'other' else 'same'), body, t['tag'])
    if t['k'] == 'use':
        body = t['junk'] + ''.join(metal(g, dict(f, attrs=[('metal:fill-slot', s)] + f['attrs']), how) + t['junk'] for s, f in t['fills'].items())
        return rep_lead(t['wrap']) + '<%s%s metal:use-macro="%s">%s</%s>' % (t['tag'], attrs_src(t['wrap']), macro_expr(t['macro'], t.get('how', 'same')), body, t['tag'])
    raise ValueError(t)


def inline(g, t, fills=None, how='same'):
    """METAL-free equivalent; `fills`: slot name -> already inlined filler source, for the macro body being inlined"""
    fills = fills or {}
    if isinstance(t, str):
        return t
    if t['k'] == 'el':
        return rep_lead(t['attrs']) + '<%s%s>%s</%s>' % (t['tag'], attrs_src(t['attrs']), ''.join(inline(g, c, fills, how) for c in t['kids']), t['tag'])
    if t['k'] == 'slot':
        if t['name'] in fills:
            return fills[t['name']]
        return '<%s%s>%s</%s>' % (t['tag'], attrs_src(t['attrs']), ''.join(inline(g, c, fills, how) for c in t['kids']), t['tag'])
    if t['k'] == 'ext':
        # defined in place: an extension renders as a use of its base with its own fillers
        return inline_use(g, t['base'], {s: inline(g, f, fills, how) for s, f in t['fills'].items()}, macro_expr(t['base'], how if how == 'other' else 'same'), how)
    if t['k'] == 'use':
        given = {s: inline(g, f, fills, how) for s, f in t['fills'].items()}
        src = inline_use(g, t['macro'], given, macro_expr(t['macro'], t.get('how', 'same')), how)
        if t['wrap']:
            # (a tal: element would suppress the white space between iterations: an ordinary element with its tag omitted)
            return rep_lead(t['wrap']) + '<div%s tal:omit-tag="">%s</div>' % (attrs_src(t['wrap']), src)
        return src
    raise ValueError(t)


def inline_use(g, mname, given, expr, how):
    m = g.macros[mname]
    name_def = '<tal:block tal:define="macroname string:%s">' % expr.replace('$', '$$')
    if m['k'] == 'ext':
        # the extension's fillers are used unless the caller fills the same slot; slots defined in those fillers see the caller's fills
        eff = {}
        for s, f in m['fills'].items():
            eff[s] = inline(g, f, given, how)
        for s, v in given.items():
            eff[s] = v
        inner = inline_use(g, m['base'], eff, macro_expr(m['base'], how if how == 'other' else 'same'), how)
        return name_def + inner + '</tal:block>'
    body = '<%s%s>%s</%s>' % (m['tag'], attrs_src(m['attrs']), ''.join(inline(g, c, given, how) for c in m['kids']), m['tag'])
    return name_def + body + '</tal:block>'


def make(rng):
    g = G(rng)
    scope = ['u', 'n']
    m1 = g.macro(scope, 1, [])
    names = [m1]
    if rng.random() < 0.7:
        names.append(g.macro(scope, 2, [m1]))
    if rng.random() < 0.4:
        names.append(g.macro(scope, 2, names[:]))
    if rng.random() < 0.45:
        e1 = g.extension(scope, rng.choice(names))
        names.append(e1)
        if rng.random() < 0.4:
            names.append(g.extension(scope, e1))
    # every caller runs in its own copy of the scope (an in-place macro): fillers a use leaves behind in its scope are the
    # known findings D-09a/b and are probed separately
    def caller():
        kids = []
        if rng.random() < 0.4:
            kids.append({'k': 'el', 'tag': 'a', 'attrs': [('tal:define', 'global %s string:%s' % (rng.choice(['gA', 'gB']), g.fresh('G')))], 'kids': []})
        kids.append(g.use(scope, 2, rng.choice(names)))
        kids.append("|${gA | 'unset'}${gB | 'unset'}")         # read the globals after the use
        return {'k': 'el', 'tag': 'div', 'attrs': [], 'kids': kids, 'macro': g.fresh('w'), 'slots': []}
    callers = [caller() for _ in range(rng.randint(1, 3))]
    callers.append(g.plain(scope, 1))
    lib = [g.macros[n] for n in g.order]
    return g, lib, callers


def make_shared(rng):
    """callers with several uses in *one* scope (siblings, extensions included): fillers a use leaves behind are picked up
    by later uses (known findings D-09a/b); the model has the same deque mechanics, so model and implementation must still agree"""
    g = G(rng)
    scope = ['u', 'n']
    names = [g.macro(scope, 1, [])]
    if rng.random() < 0.6:
        names.append(g.macro(scope, 1, []))
    exts = []
    for _ in range(rng.randint(1, 2)):
        exts.append(g.extension(scope, rng.choice(names + exts)))
    # slot names shared between macros make leftovers observable
    kids = []
    for _ in range(rng.randint(2, 4)):
        u = g.use(scope, 1, rng.choice(names + exts + exts))
        u['wrap'] = []
        kids.append(u)
        kids.append('|')
    caller = {'k': 'el', 'tag': 'div', 'attrs': [], 'kids': kids, 'macro': g.fresh('w'), 'slots': []}
    lib = [g.macros[n] for n in g.order]
    return g, lib, [caller]


INLINED = {}


def sources(g, lib, callers):
    m = '<html>' + '\n'.join(metal(g, t) for t in lib) + '|' + '\n'.join(metal(g, t) for t in callers) + '</html>'
    i = '<html>' + '\n'.join(inline(g, t) for t in lib) + '|' + '\n'.join(inline(g, t) for t in callers) + '</html>'
    return m, i


def strip(r):
    return {k: r.get(k) for k in ('out', 'exc', 'cls', 'msg') if k in r}


def correspondence(ctx):
    cases = []
    for _ in range(ctx.budget(900, 30000)):
        g, lib, callers = make(ctx.rng)
        m, i = sources(g, lib, callers)
        cases.append({'src': m, 'vars': VARS, 'objs': []})
    # macros of another template (`lib.macros['m']`) and a whole template used as a macro: the model compiles the other
    # template too (its macros run with their own template's `macros`, error positions are looked up in its source)
    for _ in range(ctx.budget(300, 10000)):
        g, lib, callers = make(ctx.rng)
        for c in callers:
            mark_other(c)
        libsrc = '<html>' + '\n'.join(metal(g, t, 'other') for t in lib) + '</html>'
        csrc = '<html>' + '\n'.join(metal(g, t, 'other') for t in callers) + '</html>'
        cases.append({'src': csrc, 'vars': VARS + [['lib', {'template': 1}]], 'objs': [], 'libs': [libsrc]})
    for _ in range(ctx.budget(100, 3000)):
        g = G(ctx.rng)
        s1, s2 = g.fresh('s'), g.fresh('s')
        whole = {'k': 'el', 'tag': 'html', 'attrs': [], 'kids': ['head ', g.slot(['u'], 0, s1), ' mid ${u} ', g.slot(['u'], 0, s2), ' end']}
        fills = {s: {'k': 'el', 'tag': 'b', 'attrs': [], 'kids': ['F ${n}']} for s in (s1, s2) if ctx.rng.random() < 0.6}
        csrc = '<x metal:use-macro="page">' + ''.join(metal(g, dict(f, attrs=[('metal:fill-slot', s)])) for s, f in fills.items()) + '</x>'
        cases.append({'src': csrc, 'vars': VARS + [['page', {'template': 1}]], 'objs': [], 'libs': [metal(g, whole)]})
    for _ in range(ctx.budget(500, 15000)):
        g, lib, callers = make_shared(ctx.rng)
        m, i = sources(g, lib, callers)
        INLINED[m] = i
        cases.append({'src': m, 'vars': VARS, 'objs': []})
    pipeline.run_cases(ctx, cases, what='METAL')


def judge_disagreement(ctx, d):
    """the model and the implementation differ on a template with several uses in one scope: does the implementation render it
    like the inlined template?"""
    src = d['input'].get('src') if isinstance(d.get('input'), dict) else None
    i = INLINED.get(src)
    if i is None:
        return
    a = pipeline.run_impl({'src': src, 'vars': VARS, 'objs': []})
    b = pipeline.run_impl({'src': i, 'vars': VARS, 'objs': []})
    if strip(a) != strip(b):
        ctx.violation('using a macro does not render like the hand-inlined, METAL-free template (several uses in one scope; the outcome '
                      'also differs from the model of the known filler mechanics)', {'metal': src, 'inlined': i, 'vars': VARS},
                      expected=strip(b), actual=strip(a))


def oracle(ctx):
    nt = 0
    hist = {'same': 0, 'other': 0, 'whole': 0}
    jobs = []
    meta = []
    for _ in range(ctx.budget(1500, 50000)):
        g, lib, callers = make(ctx.rng)
        m, i = sources(g, lib, callers)
        jobs.append({'src': m, 'vars': VARS, 'objs': []})
        jobs.append({'src': i, 'vars': VARS, 'objs': []})
        meta.append((m, i))
    res = pipeline.impl_many(jobs)
    for k, (m, i) in enumerate(meta):
        a, b = res[2 * k], res[2 * k + 1]
        ctx.count('evaluations', 2)
        hist['same'] += 1
        if 'metal:fill-slot' in m and ('${' in m):
            nt += 1
        if strip(a) != strip(b):
            ctx.violation('using a macro does not render like the hand-inlined, METAL-free template', {'metal': m, 'inlined': i, 'vars': VARS},
                          expected=strip(b), actual=strip(a))
    # macros of another template, and a whole template used as a macro
    from chameleon import PageTemplate
    import talgen
    kw = {k: talgen.pyval(v, []) for k, v in VARS}
    for _ in range(ctx.budget(300, 8000)):
        g, lib, callers = make(ctx.rng)
        for c in callers:
            mark_other(c)
        libsrc = '<html>' + '\n'.join(metal(g, t, 'other') for t in lib) + '</html>'
        csrc = '<html>' + '\n'.join(metal(g, t, 'other') for t in callers) + '</html>'
        isrc = '<html>' + '\n'.join(inline(g, t, None, 'other') for t in callers) + '</html>'
        ctx.count('evaluations', 2)
        hist['other'] += 1
        nt += 1
        try:
            libt = PageTemplate(libsrc)
            a = PageTemplate(csrc)(lib=libt, **kw)
        except Exception as e:
            a = 'raised %s: %s' % (type(e).__name__, str(e).split('\n')[0][:80])
        try:
            b = PageTemplate(isrc)(lib=None, **kw)
        except Exception as e:
            b = 'raised %s: %s' % (type(e).__name__, str(e).split('\n')[0][:80])
        if a != b:
            ctx.violation('using a macro of another template does not render like the inlined template', {'library': libsrc, 'caller': csrc, 'inlined': isrc},
                          expected=b, actual=a)
    for _ in range(ctx.budget(100, 2000)):
        # whole template as macro
        g = G(ctx.rng)
        s1, s2 = g.fresh('s'), g.fresh('s')
        whole = {'k': 'el', 'tag': 'html', 'attrs': [], 'kids': ['head ', g.slot(['u'], 0, s1), ' mid ${u} ', g.slot(['u'], 0, s2), ' end']}
        fills = {}
        for s in (s1, s2):
            if ctx.rng.random() < 0.6:
                fills[s] = {'k': 'el', 'tag': 'b', 'attrs': [], 'kids': ['F ${n}']}
        wsrc = metal(g, whole)
        csrc = '<x metal:use-macro="page">' + ''.join(metal(g, dict(f, attrs=[('metal:fill-slot', s)])) for s, f in fills.items()) + '</x>'
        isrc = '<tal:block tal:define="macroname string:page">' + inline(g, whole, {s: inline(g, f) for s, f in fills.items()}) + '</tal:block>'
        ctx.count('evaluations', 2)
        hist['whole'] += 1
        nt += 1
        try:
            a = PageTemplate(csrc)(page=PageTemplate(wsrc), **kw)
            b = PageTemplate(isrc)(**kw)
        except Exception as e:
            a, b = 'raised %s' % type(e).__name__, None
        if a != b:
            ctx.violation('a whole template used as a macro does not render like the inlined template', {'page': wsrc, 'caller': csrc, 'inlined': isrc},
                          expected=b, actual=a)
    # a macro library that changes between uses: the macro that is used is the one the library defines *now*, whichever way the
    # library noticed the change (its own render(), a whole-template use, `macros.names`, write(), or the macro lookup itself)
    import os as _os
    import shutil as _sh
    import tempfile as _tf
    from chameleon import PageTemplateFile
    d = _tf.mkdtemp(prefix='c09_')
    try:
        for how in ('lookup', 'render', 'whole', 'names', 'write'):
            for order in ('lookup-first', 'fresh'):
                v = lambda k: '<html><b metal:define-macro="box">V%d[<i metal:define-slot="s">d%d</i>]</b> page%d</html>' % (k, k, k)
                caller = PageTemplate('<x metal:use-macro="lib.macros[\'box\']"><u metal:fill-slot="s">F</u></x>|<y metal:use-macro="lib.macros[\'box\']"/>')
                whole = PageTemplate('<z metal:use-macro="lib"/>')
                if how == 'write':
                    lib = PageTemplate(v(1))
                else:
                    p = _os.path.join(d, 'lib_%s_%s.pt' % (how, order))
                    open(p, 'w').write(v(1))
                    _os.utime(p, (1000, 1000))
                    lib = PageTemplateFile(p, auto_reload=True)
                outs = []
                if order == 'lookup-first':
                    outs.append(caller(lib=lib))
                if how == 'write':
                    lib.write(v(2))
                else:
                    open(p, 'w').write(v(2))
                    _os.utime(p, (2000, 2000))
                    if how == 'render':
                        lib()
                    elif how == 'whole':
                        whole(lib=lib)
                    elif how == 'names':
                        lib.macros.names
                outs.append(caller(lib=lib))
                ctx.count('evaluations', len(outs))
                nt += 1
                want = (['<b>V1[<u>F</u>]</b>|<b>V1[<i>d1</i>]</b>'] if order == 'lookup-first' else []) + ['<b>V2[<u>F</u>]</b>|<b>V2[<i>d2</i>]</b>']
                if outs != want:
                    ctx.violation('using a macro of a library that changed renders an earlier version of the macro',
                                  {'library_change_noticed_by': how, 'order': order}, expected=want, actual=outs)
    finally:
        _sh.rmtree(d, ignore_errors=True)
    ctx.cov['use_histogram'] = hist
    # a filler that itself uses a macro (handing it fillers for slots that macro does not have) runs in a scope of its own: what it
    # registers must not reach the uses that follow the slot in the outer macro's body
    from chameleon import PageTemplate
    for sname in ('x', 'extras'):
        for inner_has in (False, True):
            lib = PageTemplate(
                '<p metal:define-macro="inner">I%s</p>' % ('[<s metal:define-slot="%s">idef</s>]' % sname if inner_has else '') +
                '<div metal:define-macro="footer">footer[<i metal:define-slot="%s">no extras</i>]</div>' % sname +
                '<div metal:define-macro="outer">O(<b metal:define-slot="main">M</b>)<div metal:use-macro="macros[\'footer\']"/>'
                '<div metal:use-macro="macros[\'footer\']"><em metal:fill-slot="%s">own</em></div></div>' % sname)
            caller = PageTemplate('<x metal:use-macro="lib.macros[\'outer\']"><u metal:fill-slot="main">'
                                  '<q metal:use-macro="lib.macros[\'inner\']"><u metal:fill-slot="%s">STALE</u></q></u></x>' % sname)
            inner_out = '<p>I%s</p>' % ('[<u>STALE</u>]' if inner_has else '')
            want = ('<div>O(<u>%s</u>)<div>footer[<i>no extras</i>]</div><div>footer[<em>own</em>]</div></div>' % inner_out)
            ctx.count('evaluations')
            nt += 1
            try:
                got = caller(lib=lib)
            except Exception as e:
                got = {'exc': type(e).__name__, 'msg': str(e).split('\n')[0][:100]}
            if got != want:
                ctx.violation('a filler that uses a macro itself: the fillers it hands over concern that use only — a later use in the outer macro '
                              'that defines a slot of the same name shows its default content (or its own filler)',
                              {'lib': lib.body, 'caller': caller.body}, expected=want, actual=got)
    # one element that is a filler *and* uses a macro, with fillers of its own: they belong to the macro it uses, also when the outer
    # macro has (and the outer use fills, before or after) a slot of the same name
    lib2 = PageTemplate('<div metal:define-macro="box" class="box"><b metal:define-slot="title">box title</b><p metal:define-slot="body">box body</p></div>'
                        '<div metal:define-macro="page"><h1 metal:define-slot="title">page title</h1><main metal:define-slot="content">page content</main></div>')
    for outer_fill, h1 in (('', 'page title'), ('<h1 metal:fill-slot="title">PAGE</h1>', 'PAGE')):
        for first in (True, False):
            for kids, inner_out in (('<b metal:fill-slot="title">HEAD</b><p metal:fill-slot="body">BODY</p>', '<b>HEAD</b><p>BODY</p>'),
                                    ('<b metal:fill-slot="title">HEAD</b>', '<b>HEAD</b><p>box body</p>'),
                                    ('<p metal:fill-slot="body">BODY ${1 + 1}</p>', '<b>box title</b><p>BODY 2</p>')):
                inner = '<y metal:fill-slot="content" metal:use-macro="lib.macros[\'box\']">%s</y>' % kids
                body = (outer_fill + inner) if first else (inner + outer_fill)
                caller = PageTemplate('<x metal:use-macro="lib.macros[\'page\']">%s</x>' % body)
                want = '<div><h1>%s</h1><div class="box">%s</div></div>' % (h1, inner_out)
                ctx.count('evaluations')
                nt += 1
                try:
                    got = caller(lib=lib2)
                except Exception as e:
                    got = {'exc': type(e).__name__, 'msg': str(e).split('\n')[0][:100]}
                if got != want:
                    ctx.violation('an element that fills a slot and uses a macro: its own fill-slot children fill the slots of the macro it uses',
                                  {'lib': lib2.body, 'caller': caller.body}, expected=want, actual=got)
    # D-09e (fixed): a define-slot inside a translated element of the macro - the filler is part of the message, where the slot stood
    D09E_CASES = [(D09E, '<div><p>Hello <b>d</b> end</p><p>Hello <b>FILL</b> end</p></div>'),
                  ('<div><p metal:define-macro="m" i18n:translate="">Hello <b i18n:name="who"><s metal:define-slot="x">dx</s></b>!</p>'
                   '<x metal:use-macro="template.macros[\'m\']"><f metal:fill-slot="x">W ${1 + 1}</f></x></div>',
                   '<div><p>Hello <b><s>dx</s></b>!</p><p>Hello <b><f>W 2</f></b>!</p></div>'),
                  ('<div><p metal:define-macro="m">A<i i18n:translate="">in <b metal:define-slot="s">d</b> here</i>Z</p>'
                   '<x metal:use-macro="template.macros[\'m\']"><b metal:fill-slot="s"><q tal:on-error="string:E">x${1/0}</q>!</b></x></div>',
                   '<div><p>A<i>in <b>d</b> here</i>Z</p><p>A<i>in <b><q>E</q>!</b> here</i>Z</p></div>')]
    for src, want in D09E_CASES:
        ctx.count('evaluations')
        nt += 1
        try:
            got = PageTemplate(src)()
        except Exception as e:
            got = {'exc': type(e).__name__, 'msg': str(e).split('\n')[0][:100]}
        if got != want:
            ctx.violation('a define-slot inside a translated element: the filler replaces the slot where it stands (inside the message)',
                          {'src': src}, expected=want, actual=got)
    ctx.counters['nontrivial'] = nt
    ctx.sample({'metal': meta[0][0], 'inlined': meta[0][1]})
    # known findings
    r = pipeline.run_impl({'src': D09A, 'vars': [], 'objs': []})
    if r.get('out') != D09A_EXPECT:
        ctx.violation('a fill-slot naming no slot of the used macro must be discarded', {'src': D09A}, expected=D09A_EXPECT, actual=strip(r),
                      finding='D-09a' if r.get('out') == D09A_ACTUAL else None)
    r = pipeline.run_impl({'src': D09B, 'vars': [], 'objs': []})
    if r.get('out') != D09B_EXPECT:
        ctx.violation('an unused filler leaks into a later sibling use', {'src': D09B}, expected=D09B_EXPECT, actual=strip(r),
                      finding='D-09b' if r.get('out') == D09B_ACTUAL else None)
    r = pipeline.run_impl({'src': D09D, 'vars': [], 'objs': []})
    if r.get('out') != D09D_EXPECT:
        ctx.violation('use-macro must render what the defining element renders: its tal:on-error is not part of the macro', {'src': D09D},
                      expected=D09D_EXPECT, actual=strip(r),
                      finding='D-09d' if (r.get('exc') == 'render' and r.get('cls') == 'NameError') else None)


def mark_other(t):
    if isinstance(t, dict):
        if t['k'] == 'use':
            t['how'] = 'other'
            for f in t['fills'].values():
                mark_other(f)
        for c in t.get('kids', []):
            mark_other(c)


D09D = '<p metal:define-macro="m" tal:on-error="string:E">${nosuch}</p>|<x metal:use-macro="macros[\'m\']"/>'
D09D_EXPECT = '<p>E</p>|<p>E</p>'
D09A = ('<a metal:define-macro="n">[<i metal:define-slot="b">nb</i>]</a>|<c metal:define-macro="m">(<x metal:use-macro="macros[\'n\']"/>)</c>|'
        '<y metal:use-macro="macros[\'m\']"><u metal:fill-slot="b">LEAK</u></y>')
D09A_EXPECT = '<a>[<i>nb</i>]</a>|<c>(<a>[<i>nb</i>]</a>)</c>|<c>(<a>[<i>nb</i>]</a>)</c>'
D09A_ACTUAL = '<a>[<i>nb</i>]</a>|<c>(<a>[<i>nb</i>]</a>)</c>|<c>(<a>[<u>LEAK</u>]</a>)</c>'
D09B = ('<a metal:define-macro="n">[<i metal:define-slot="b">nb</i>]</a>|<c metal:define-macro="plain">p</c>|'
        '<y metal:use-macro="macros[\'plain\']"><u metal:fill-slot="b">LEAK</u></y>|<z metal:use-macro="macros[\'n\']"/>')
D09B_EXPECT = '<a>[<i>nb</i>]</a>|<c>p</c>|<c>p</c>|<a>[<i>nb</i>]</a>'
D09B_ACTUAL = '<a>[<i>nb</i>]</a>|<c>p</c>|<c>p</c>|<a>[<u>LEAK</u>]</a>'


D09E = ('<div><p metal:define-macro="m" i18n:translate="">Hello <b metal:define-slot="s">d</b> end</p>'
        '<x metal:use-macro="template.macros[\'m\']"><b metal:fill-slot="s">FILL</b></x></div>')


def reproduce_finding(ctx, f):
    return None


def replay(ctx, case):
    v = case.get('violation', case)
    c = v['input']
    if 'metal' in c:
        a = pipeline.run_impl({'src': c['metal'], 'vars': c.get('vars', VARS), 'objs': []})
        b = pipeline.run_impl({'src': c['inlined'], 'vars': c.get('vars', VARS), 'objs': []})
        if strip(a) != strip(b):
            ctx.violation('use vs inline', c, expected=strip(b), actual=strip(a))
        return {'metal': strip(a), 'inlined': strip(b)}
    return {'case': c}

"""C03 — unmarked markup is reproduced verbatim; tokenising and parsing lose nothing."""
import itertools
import os

import canon
import core
import markupgen
import recorr

PID = 'C03'
PROOF_MODULES = ['ChamProofs.Props.C03', 'ChamProofs.Props.C03Static']
THEOREMS = [
    'ChamVerif.xml_spe_ok',
    'ChamVerif.tokens_concat_of_ok',
    'ChamVerif.tokens_contiguous_of_ok',
    'ChamVerif.C03_tokens_concat',
    'ChamVerif.C03_tokens_contiguous',
    'ChamVerif.C03_tokens_anchored',
    'ChamVerif.C03_dissect',
    'ChamVerif.parseToken_raw',
    'ChamVerif.parseTokens_raw',
    'ChamVerif.staticItems_clean',
    'ChamVerif.C03_static_identity',
    "ChamVerif.C03_static_identity'",
    'ChamVerif.C03_static_hyp_example',
]
LEVEL_TEXT = ('Proved in Lean for every input string: the token stream of the tokenizer regex extracted from the live source '
              'concatenates back to the input, with contiguous, anchored positions (C03_tokens_concat/_contiguous/_anchored, via a '
              'decidable shape check of the regenerated regex and a general covering theorem for backtracking regexes); proved for every tag: '
              'a dissection passing the decidable dissectOK check reassembles to the tag (C03_dissect). Static identity, proved on the model '
              'for every document: the element parser keeps every token (parseTokens_raw: invariant of the queue/index algorithm over any '
              'token list, end-tag folding included), the emitters re-assemble every clean item to its source (staticItems_clean, mutual '
              'induction over the element tree), hence a document whose tokens pass the decidable per-token check and that asks for no '
              'evaluation renders to its newline-normalised source (C03_static_identity; non-vacuous: C03_static_hyp_example, decided by '
              'the kernel with the regenerated regexes). The share of generated documents inside the theorem\'s hypotheses is reported '
              '(static_hyp_docs); the model of parser and emitters is tied to the code by differential correspondence on '
              'grammar-generated and tag-soup documents, and the identity is judged on the implementation by the oracle.')
LEVEL_NOTE = ('Trusted: Lean kernel; extract.py; CPython re modelled by Re.lean (differential-tested every run); the static path of the '
              'model (parser, emitters) as a model of the generated module; tag soup outside dissectOK is known finding D-03b.')
RULE = ('tokenizer: every string over a 12-symbol markup alphabet up to the length bound (exhaustive) plus random longer '
        'strings; non-trivial iff the string contains "<". identity: documents from the markup grammar (well-formed and '
        'tag soup, randomised lexical detail); non-trivial iff the document has >= 1 tag with >= 1 attribute. '
        'distinct_nontrivial counts distinct such strings/documents.')
TRUSTED = ['CPython re engine is modelled by ChamVerif/Re.lean (differential-tested this run on the tokenizer, tag and attribute regexes, all group spans)',
           'ast.unparse/compile/exec of the generated module (static path) — exercised by the end-to-end identity oracle, not proved',
           'C03_static_identity is a theorem about the static path of the model; that the implementation follows that model is '
           'checked by correspondence + oracle']
ASSUMPTIONS = ['no lone surrogates in template sources (cannot be a Lean Char; generators never produce them)',
               'documents on which the tokenizer regex needs exponential time (unclosed long declarations) are skipped by both sides (counted as timeouts)']

ALPH12 = ['<', '>', '/', '!', '-', '?', 'a', ' ', '=', '"', '[', ']']


def impl_tokens(s):
    from chameleon.tokenize import iter_xml
    return [[str(t), t.pos] for t in iter_xml(s)]


def impl_static(doc):
    return canon.render_str(doc)


def token_strings(ctx):
    n = 4 if not ctx.thorough else 6
    out = []
    for k in range(n + 1):
        out.extend(''.join(t) for t in itertools.product(ALPH12, repeat=k))
    ctx.cov['exhaustive_tokenizer_len'] = n
    ctx.cov['exhaustive'] = True
    rnd = []
    for _ in range(ctx.budget(3000, 60000)):
        k = ctx.rng.randint(5, 40)
        rnd.append(''.join(ctx.rng.choice(recorr.ALPH) for _ in range(k)))
    for _ in range(ctx.budget(500, 5000)):
        rnd.append(markupgen.document(ctx.rng, soup=ctx.rng.random() < 0.5))
    return out, rnd


def gen_docs(ctx, quick, thorough):
    docs = list(markupgen.CORPUS)
    docs += [markupgen.document(ctx.rng, soup=ctx.rng.random() < 0.3) for _ in range(ctx.budget(quick, thorough))]
    # U+FEFF is an ordinary character of a str document (only byte input has a byte-order mark): at the start and elsewhere
    docs += ['\ufeff' + d for d in docs[:60]] + ['\ufeff<?xml version="1.0"?><p>x</p>', '\ufeff', '<p>\ufeffx</p>\ufeff', '\ufeff\ufeff<p a="1">x</p>']
    return docs


def correspondence(ctx):
    recorr.run(ctx, ['XML_SPE', 'TAG_PREFIX_NAME', 'SINGLE_ATTR', 'COMMENT', 'CDATA', 'DECL', 'PI', 'XML_DECL',
                     'DOUBLE_HYPHEN'], ctx.budget(300, 4000))
    ex, rnd = token_strings(ctx)
    strs = ex + rnd
    outs = core.par_batch([{'op': 'tokens', 's': s} for s in strs])
    for s, o in zip(strs, outs):
        if o.get('timeout'):
            ctx.count('model_timeouts')
            continue
        try:
            exp = core.limited(impl_tokens, s)
        except core.ImplTimeout:
            ctx.count('impl_timeouts')
            continue
        if o.get('ok') != exp:
            ctx.disagree('iter_xml', s, model=o, impl=exp)
    ctx.count('correspondence_cases', len(strs))
    docs = gen_docs(ctx, 1500, 30000)
    outs = core.par_batch([{'op': 'static', 's': d} for d in docs])
    for d, o in zip(docs, outs):
        if o.get('timeout'):
            ctx.count('model_timeouts')
            continue
        got = o.get('ok')
        if got is not None and 'unsupported' in got:
            ctx.count('static_unsupported')
            continue
        try:
            exp = core.limited(impl_static, d)
        except core.ImplTimeout:
            ctx.count('impl_timeouts')
            continue
        if got != exp:
            ctx.disagree('static render (parse + emit, no statements)', d, model=o, impl=exp)
    ctx.count('correspondence_cases', len(docs))


def normalize_newlines(doc):
    return doc.replace('\r\n', '\n').replace('\r', '\n')


def judge_identity(d, r, info, model, base_info=None, base_model=None):
    """-> None (fine) | (what, finding-or-None)"""
    exp = normalize_newlines(d) if not d.startswith('<?xml') else d
    if 'out' not in r:
        return None            # does not compile: not this property's business (C11 judges the error)
    if r['out'] == exp:
        return None
    inside = bool(info.get('dissect_ok'))
    if inside:
        return ('statement-free document (all tags well dissected) does not render to itself', None)
    # outside the theorem's domain: tag soup.  It is the recorded finding D-03b only if the model
    # instantiated with the *frozen regexes of the unchanged tree* already loses these characters
    # in exactly this way (so a change that widens the lossy domain is not explained by it).
    if base_model == r and base_info is not None and not base_info.get('dissect_ok'):
        return ('tag soup loses characters', 'D-03b')
    return ('statement-free tag-soup document renders to something neither the input nor what the model predicts', None)


def oracle(ctx):
    from chameleon.tokenize import iter_xml
    ex, rnd = token_strings(ctx)
    seen = set()
    for s in ex + rnd:
        try:
            toks = core.limited(lambda: list(iter_xml(s)))
        except core.ImplTimeout:
            ctx.count('impl_timeouts')
            continue
        ctx.count('evaluations')
        if '<' in s:
            seen.add(s)
        pos = 0
        ok = ''.join(toks) == s
        for t in toks:
            if t.pos != pos or len(t) == 0:
                ok = False
            pos += len(t)
        if not ok:
            ctx.violation('token stream does not concatenate back to the input with contiguous positions',
                          s, expected=s, actual=[[str(t), t.pos] for t in toks])
    ctx.sample({'tokenizer_input': '<a b="1">x</a><!-- c', 'tokens': impl_tokens('<a b="1">x</a><!-- c')})
    rewritten_objects(ctx)
    docs = gen_docs(ctx, 3000, 100000)
    if ctx.model_ok:
        infos = core.par_batch([{'op': 'dissect', 's': d} for d in docs])
        models = core.par_batch([{'op': 'static', 's': d} for d in docs])
        binfos = core.par_batch([{'op': 'dissect', 's': d, 'rx': 'baseline'} for d in docs])
        bmodels = core.par_batch([{'op': 'static', 's': d, 'rx': 'baseline'} for d in docs])
    else:
        infos = models = binfos = bmodels = [{} for _ in docs]
    hist = {}
    for d, o, m, bo, bm in zip(docs, infos, models, binfos, bmodels):
        if o.get('timeout') or m.get('timeout') or bo.get('timeout') or bm.get('timeout'):
            ctx.count('model_timeouts')
            continue
        try:
            r = core.limited(impl_static, d)
        except core.ImplTimeout:
            ctx.count('impl_timeouts')
            continue
        ctx.count('evaluations')
        info = o.get('ok') or {}
        if not ctx.model_ok:
            info = {'dissect_ok': True}       # no model: every deviation is judged a violation
        kind = ('rejected' if 'out' not in r else 'inside-domain' if info.get('dissect_ok') else 'soup-outside-domain')
        if info.get('static_hyp'):
            # inside the hypotheses of C03_static_identity: the model must render the source (theorem instance), and so must the code
            ctx.count('static_hyp_docs')
            exp0 = normalize_newlines(d) if not d.startswith('<?xml') else d
            if (m.get('ok') or {}).get('out') != exp0:
                ctx.disagree('C03_static_identity instance: the model does not render a document inside the hypotheses to itself', d, model=m.get('ok'), impl=r)
            if r.get('out') != exp0:
                ctx.violation('a statement-free document inside the hypotheses of the static-identity theorem does not render to itself', d, expected=exp0, actual=r)
        hist[kind] = hist.get(kind, 0) + 1
        if markupgen.has_tag_with_attr(d) and 'out' in r:
            seen.add(d)
        j = judge_identity(d, r, info, m.get('ok'), bo.get('ok'), bm.get('ok'))
        if j:
            exp = normalize_newlines(d) if not d.startswith('<?xml') else d
            ctx.violation(j[0], d, expected=exp, actual=r, finding=j[1])
    ctx.cov['identity_domain_histogram'] = hist
    ctx.sample({'document': docs[-1], 'rendered': impl_static(docs[-1])})
    ctx.counters['nontrivial'] = len(seen)


def rewritten_objects(ctx):
    """one template object that cooks two texts in a row (`write()` again, or the file rewritten under auto_reload): the second text
    is reproduced by its own rules - CR/CRLF normalised unless *it* is an XML document - whatever the first one was"""
    import shutil
    import tempfile
    from chameleon import PageTemplate, PageTemplateFile
    xml = '<?xml version="1.0"?>\r\n<a b="1">x\r\n</a>'
    html = '<div a=\'1\'>\r\n  <br>\rtext &amp; more</div>\r\n'
    d = tempfile.mkdtemp(prefix='c03_')
    n = 0
    try:
        for first, second in ((xml, html), (html, xml), (xml, xml), (html, html)):
            want = second if second.startswith('<?xml') else normalize_newlines(second)
            t = PageTemplate(first)
            t()
            t.write(second)
            got = t()
            ctx.count('evaluations')
            n += 1
            if got != want:
                ctx.violation('a statement-free text given to a template object that held another document before is not reproduced by its own '
                              'rules (CR/CRLF to LF outside XML mode)', {'first': first, 'second': second, 'how': 'write()'}, expected=want, actual=got)
            p = os.path.join(d, 't%d.pt' % n)
            with open(p, 'w', newline='') as f:
                f.write(first)
            os.utime(p, (1000, 1000))
            tf = PageTemplateFile(p, auto_reload=True)
            tf()
            with open(p, 'w', newline='') as f:
                f.write(second)
            os.utime(p, (2000, 2000))
            got = tf()
            ctx.count('evaluations')
            if got != want:
                ctx.violation('a statement-free file rewritten under auto_reload is not reproduced by its own rules', {'first': first, 'second': second,
                              'how': 'auto_reload'}, expected=want, actual=got)
    finally:
        shutil.rmtree(d, ignore_errors=True)


def reproduce_finding(ctx, f):
    r = impl_static(f['input'])
    return 'out' in r and r['out'] != f['input']


def replay(ctx, case):
    v = case.get('violation', case)
    s = v['input']
    r = impl_static(s)
    out = {'input': s, 'tokens': impl_tokens(s), 'static': r}
    exp = normalize_newlines(s) if not s.startswith('<?xml') else s
    if 'out' in r and r['out'] != exp:
        ctx.violation('statement-free document does not render to itself', s, expected=exp, actual=r)
    return out

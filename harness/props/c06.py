"""C06 — ${...} interpolation is delimited correctly and $$ escapes it."""
import ast
import html

import core
import pipeline
import talgen

PID = 'C06'
PROOF_MODULES = ['ChamProofs.Props.C06', 'ChamProofs.Ties', 'ChamProofs.Props.C06Regex', 'ChamProofs.Props.C06Loop', 'ChamProofs.Props.C06Parts', 'ChamProofs.Props.C06Text']
THEOREMS = ['ChamVerif.undouble_no_dollar', 'ChamVerif.undouble_pair', 'ChamVerif.scan_append', 'ChamVerif.C06_own_brace',
            'ChamVerif.tie_builder_defaults', 'ChamVerif.C06Loop.tie_bracesReq', 'ChamVerif.C06Loop.star_any', 'ChamVerif.C06Loop.matchAt_shape',
            'ChamVerif.C06Loop.search_braces', 'ChamVerif.C06Loop.search_no_dollar', 'ChamVerif.C06Loop.candidate_round',
            'ChamVerif.C06Loop.C06_candidate_own_brace', 'ChamVerif.C06Loop.C06_interp_step',
            'ChamVerif.C06Parts.C06_parts_text_lit', 'ChamVerif.C06Parts.C06_parts_text_expr',
            'ChamVerif.C06Loop.tie_entity2',
            'ChamVerif.C06Loop.decodeEntities_no_amp',
            'ChamVerif.C06Loop.C06_interp_step_gen',
            'ChamVerif.C06Loop.C06_text_expr_text',
            'ChamVerif.C06Loop.C06_dollar_run_even',
            'ChamVerif.C06Loop.C06_dollar_run_odd',
            'ChamVerif.C06Loop.undouble_replicate',
            'ChamVerif.C06Loop.C06_text_parts',
            'ChamVerif.C06Parts.C06_three_parts_render',
            'ChamVerif.C06Parts.C06_interp_value',
            'ChamVerif.C06Parts.C06_interp_text_escaped']
LEVEL_TEXT = ('Proved in Lean: the bracket/quote scanner the model uses to reject candidates is compositional (scan_append) and therefore an '
              'expression with balanced brackets and closed string literals followed by "}" and anything else is certainly invalid '
              '(C06_own_brace): among the candidates "${ e } … }" none longer than the one ending at the expression\'s own closing brace can be '
              'accepted, whatever braces, quotes or "$" the expression contains; "$$" collapses to "$" and text without "$" is untouched '
              '(undouble_*). The Interpolator loop, on the regex regenerated from the live class (tie_bracesReq: it is "\\$({(?P<expression>.*)})" with '
              'DOTALL, re-checked every run): for every text the first match starts at the first "$" that is followed by "{…}" and runs to the '
              'last "}" of the text (search_braces, from star_any: the greedy ".*" of the backtracking engine tries its continuation from the end of '
              'the input downwards; search_no_dollar: no "$", no match); each round of the candidate loop takes everything up to that last "}" '
              'and either accepts it or cuts the text there (candidate_round); hence in pre ++ "${" ++ e ++ "}" ++ post, for every pre without "$", '
              'every e and every post — whatever braces they contain —, if the longer candidates are rejected with an ExpressionError and e compiles, '
              'the loop returns exactly e and consumes exactly "${e}" (C06_candidate_own_brace, induction over the "}" of post; non-vacuous: the '
              'premises are kernel-evaluated for a concrete text on the regenerated regexes), and compileInterp yields the literal, the expression part '
              'and the parts of post (C06_interp_step); rendering the parts copies a literal and replaces an expression part by the converted value of exactly that expression, in order (C06_parts_text_lit / _expr); all of this for both settings of the entity-decoding step (the real call decodes: an expression without "&" is not changed by it, decodeEntities_no_amp on the regenerated entity regex). A whole text of literal runs without "$" and any number of ${e} parts is split into exactly those literals and expressions, in order, each token at its own offset (C06_text_parts, induction over the parts); a run of "$" before "${" follows the parity rule: 2j dollars give j literal ones and a live expression, 2j+1 give j+1 literal ones and the braces are ordinary text (C06_dollar_run_even / _odd, undouble_replicate); the value of the interpolation node for text-expression-text is pre ++ value ++ post, the expression evaluated once with __token at it, and a string value is inserted escaped (C06_interp_value, C06_interp_text_escaped). Still by correspondence only: the optional-braces regex ($name), entity decoding inside '
              'expressions, the parity rule for a run of "$" before "${", and the premise "longer candidates are rejected" for the Python grammar '
              '(ast.parse is the judge there; differential-tested every run). A constructive oracle builds texts from part lists in every '
              'interpolation context and under every on/off switch.')
LEVEL_NOTE = ('Trusted: Lean kernel; that Python rejects unbalanced brackets (differential-tested against ast.parse every run); the '
              'interpreter model. Known finding D-06a: "$$" is not collapsed in attribute values, comments and CDATA that contain no "${".')
RULE = ('texts built from part lists: literal runs (with $, $$, {, }, quotes, entities) and ${expr} parts whose expressions are rich in '
        'braces / string literals / "$" (dict and set displays, f-strings, format strings), in element text, "- and \'-quoted attributes, '
        'comments, CDATA and string: expressions, under meta:interpolation on/off nestings, <!--? comments and '
        'enable_comment_interpolation=False. Non-trivial iff some expression contains a brace, quote or $, or a $$ is adjacent to ${.')
TRUSTED = []
ASSUMPTIONS = []

LITS = ['a', ' b ', '$$', 'x $ y', '{', '}', '{}', '$', "it's", '"q"', '&amp;', '&lt;', 'é', '$$$$', 'k: v', '} {', '$x', '$ {x}', '(', ']',
        # a run of `$` that is *not* adjacent to what follows: white space (a line break in particular) in between
        '$\n', 'x$\n', '$$$\n', '$$\n', '\n', '$ ', '$\t', '$\n\n', '$\n ']
EXPRS = [
    ("x", 'X'), ("'}'", '}'), ("'${'", '${'), ("{'a': 1}['a']", '1'), ("'{' + x + '}'", '{X}'), ("len({1, 2})", '2'), ("f'{x}!'", 'X!'),
    ("'%s}' % x", 'X}'), ("x if x else '}'", 'X'), ("dict(a='}')['a']", '}'), ("'a &amp; b'", 'a & b'), ("1 &lt; 2", 'True'),
    ("'$$'", '$$'), ("'{0}'.format(x)", 'X'), ("[y for y in 'ab'][1]", 'b'), ("{k: v for k, v in [('p', 'q')]}['p']", 'q'), ("'\"'", '"'),
    ('"\'"', "'"), ("x.lower() + '{'", 'x{'), ("str({'k': '}'}['k'])", '}'),
]


def build(rng, ctx_kind):
    """-> (text source, expected rendering of that text, nontrivial?, n_exprs)"""
    src, exp = [], []
    nt = False
    nexp = 0
    prev_lit_dollar_odd = False
    for _ in range(rng.randint(1, 5)):
        if rng.random() < 0.5:
            lit = rng.choice(LITS)
            if ctx_kind in ('dq',) and '"' in lit:
                lit = lit.replace('"', '')
            if ctx_kind in ('sq',) and "'" in lit:
                lit = lit.replace("'", '')
            if ctx_kind == 'comment' and '--' in lit:
                continue
            src.append(lit)
            # expected of a literal run is computed on the whole concatenation later
            exp.append(('lit', lit))
        else:
            e, val = rng.choice(EXPRS)
            if ctx_kind == 'dq' and '"' in e:
                continue
            if ctx_kind == 'sq' and "'" in e:
                continue
            if ctx_kind in ('cdata', 'comment') and ('&' in e):
                pass
            src.append('${%s}' % e)
            exp.append(('expr', val))
            nexp += 1
            if any(ch in e for ch in '{}\'"$'):
                nt = True
    return src, exp, nt, nexp


def reference(parts, esc):
    """left-to-right reference: literal runs are joined, `$$` -> `$`; an expression part that directly
    follows an odd run of `$` is escaped by it (stays literal text, with the `$$` pairs collapsed)"""
    out = []
    i = 0
    n = len(parts)
    pending = ''          # literal text accumulated
    evaluated = 0
    stray = False         # a literal stretch that contains `${` which is not one of our expression parts
    while i < n:
        kind, v = parts[i]
        if kind == 'lit':
            pending += v
        else:
            run = len(pending) - len(pending.rstrip('$'))
            if run % 2 == 1:
                # `$` + `${e}`  ==  `$$` + `{e}`: literal
                if '${' in pending[:-1] or '${' in v['src'][1:]:
                    stray = True
                pending = pending + v['src']
                out.append(pending.replace('$$', '$'))
                pending = ''
            else:
                if '${' in pending:
                    stray = True
                out.append(pending.replace('$$', '$'))
                pending = ''
                out.append(esc(v['val']))
                evaluated += 1
        i += 1
    if '${' in pending:
        stray = True
    out.append(pending.replace('$$', '$'))
    return ''.join(out), (evaluated if not stray else None)


def make_case(rng):
    kind = rng.choice(['text', 'dq', 'sq', 'comment', 'cdata', 'string', 'text-off', 'comment-verbatim', 'comment-opt-off', 'cdata-off'])
    base = {'text-off': 'text', 'comment-verbatim': 'comment', 'comment-opt-off': 'comment', 'cdata-off': 'cdata'}.get(kind, kind)
    src, exp, nt, nexp = build(rng, base)
    # attach source text to expr parts
    parts = []
    for s, (k, v) in zip(src, exp):
        parts.append((k, v if k == 'lit' else {'src': s, 'val': v}))
    text = ''.join(src)
    cfg = {}
    if base == 'text' or base == 'string':
        def esc(v):
            return html.escape(v, quote=False)
    elif base == 'dq':
        def esc(v):
            return html.escape(v, quote=False).replace('"', '&quot;')
    elif base == 'sq':
        def esc(v):
            return html.escape(v, quote=False).replace("'", '&#39;')
    elif base == 'comment':
        def esc(v):
            return html.escape(v, quote=False)
    else:
        def esc(v):
            return v
    off = kind in ('text-off', 'comment-verbatim', 'comment-opt-off', 'cdata-off')
    has_interp = '${' in text
    if off:
        rendered, evaluated = text, 0
        if reference(parts, esc)[1] is None:
            return None
        if kind == 'text-off':
            rendered = text.replace('$$', '$')      # text nodes are still un-doubled (documented for text)
    else:
        rendered, evaluated = reference(parts, esc)
        if evaluated is None:
            return None          # a stray `${` that is not an expression part: outside the property's texts
        if not has_interp and base in ('dq', 'sq', 'comment', 'cdata'):
            return None          # D-06a territory ($$ not collapsed without ${): judged separately
    if base == 'text':
        tsrc = '<p>%s</p>' % text
        texp = '<p>%s</p>' % rendered
        if kind == 'text-off':
            tsrc = '<div meta:interpolation="false"><p>%s</p></div>' % text
            texp = '<div><p>%s</p></div>' % rendered
    elif base == 'dq':
        tsrc = '<p a="%s">t</p>' % text
        texp = '<p a="%s">t</p>' % rendered
    elif base == 'sq':
        tsrc = "<p a='%s'>t</p>" % text
        texp = "<p a='%s'>t</p>" % rendered
    elif base == 'comment':
        if text.endswith('-') or '--' in text or text.startswith(('!', '?', '>')):
            return None
        tsrc = '<!--%s-->' % text
        texp = '<!--%s-->' % rendered
        if kind == 'comment-verbatim':
            tsrc = '<!--?%s-->' % text
            texp = '<!--%s-->' % text
        elif kind == 'comment-opt-off':
            cfg = {'enable_comment_interpolation': False}
            texp = '<!--%s-->' % text
    elif base == 'cdata':
        if ']]' in text:
            return None
        tsrc = '<![CDATA[%s]]>' % text
        texp = '<![CDATA[%s]]>' % rendered
        if kind == 'cdata-off':
            tsrc = '<div meta:interpolation="off">%s</div>' % tsrc
            texp = '<div><![CDATA[%s]]></div>' % text
    else:
        if '"' in text or '|' in text or ';' in text:
            return None
        tsrc = '<p tal:content="string:%s">t</p>' % text
        # inside string: also `$name` interpolates; avoid `$x`-like literals
        import re as _re
        if _re.search(r'\$[A-Za-z]', text):
            return None
        texp = '<p>%s</p>' % rendered
    if '<' in text.replace('&lt;', '') and base in ('text', 'dq', 'sq', 'string'):
        return None
    return {'src': tsrc, 'vars': [['x', {'str': 'X'}]], 'objs': [], 'cfg': cfg}, texp, nt or ('$$$' in text), kind


def correspondence(ctx):
    gen = []
    for _ in range(ctx.budget(1200, 40000)):
        g = talgen.TalGen(ctx.rng, depth=ctx.rng.choice([1, 2]), features={'interp', 'define', 'content', 'attributes', 'condition'})
        gen.append(g.template())
    nests = [nest_case(ctx.rng)[0] for _ in range(ctx.budget(200, 6000))]
    pipeline.run_cases(ctx, gen + nests, what='interpolation')
    # the own-brace hypothesis against Python itself: balanced e  =>  e + '}' + x is a SyntaxError
    bad = 0
    for e, _ in EXPRS:
        e2 = html.unescape(e)
        for x in ['', ' x', ' ${y', "'", ' }']:
            try:
                ast.parse(e2 + '}' + x, mode='eval')
                bad += 1
                ctx.disagree('Python accepted "<balanced expression>}<more>"', e2 + '}' + x)
            except SyntaxError:
                pass
            ctx.count('correspondence_cases')


def nest_case(rng):
    """a tree of elements, some of which switch interpolation on or off for their subtree, with text, comment and CDATA leaves
    before, between and after the switching children: a leaf is interpolated iff the nearest enclosing switch (or the default) says so,
    and only then is its expression evaluated"""
    cnt = [0]
    log = []

    def leaf(on):
        cnt[0] += 1
        i = cnt[0]
        e = "${R('k%d', %d)}" % (i, i)
        shown = str(i) if on else e
        if on:
            log.append('k%d' % i)
        kind = rng.choice(['text', 'text', 'comment', 'cdata'])
        if kind == 'comment':
            return '<!-- c%s -->' % e, '<!-- c%s -->' % shown
        if kind == 'cdata':
            return '<![CDATA[d%s]]>' % e, '<![CDATA[d%s]]>' % shown
        return 't%s;' % e, 't%s;' % shown

    def node(on, depth):
        setting = rng.choice([None, None, 'true', 'false', 'on', 'off'])
        on2 = on if setting is None else setting in ('true', 'on')
        src = '<div%s>' % (' meta:interpolation="%s"' % setting if setting else '')
        exp = '<div>'
        for _ in range(rng.randint(1, 4)):
            a, b = node(on2, depth - 1) if (depth > 0 and rng.random() < 0.5) else leaf(on2)
            src += a
            exp += b
        return src + '</div>', exp + '</div>'
    s, e = node(True, 3)
    a, b = leaf(True)
    return {'src': s + a, 'vars': [['R', {'fn': 'R'}]], 'objs': [], 'cfg': {}}, e + b, list(log)


def oracle(ctx):
    nests = [nest_case(ctx.rng) for _ in range(ctx.budget(400, 15000))]
    for (case, exp, log), impl in zip(nests, pipeline.impl_many([n[0] for n in nests])):
        ctx.count('evaluations')
        if impl.get('out') != exp or impl.get('log') != log:
            ctx.violation('meta:interpolation: text, comments and CDATA of a subtree are interpolated iff the nearest enclosing switch says so — '
                          'also after a child that switched it the other way has closed — and a switched-off expression is not evaluated',
                          case, expected={'out': exp, 'log': log}, actual=impl)
    cases = []
    while len(cases) < ctx.budget(2500, 80000):
        c = make_case(ctx.rng)
        if c is not None:
            cases.append(c)
    impls = pipeline.impl_many([c[0] for c in cases])
    nt = set()
    hist = {}
    for (case, exp, nontrivial, kind), impl in zip(cases, impls):
        ctx.count('evaluations')
        hist[kind] = hist.get(kind, 0) + 1
        if nontrivial:
            nt.add(case['src'])
        if impl.get('out') != exp:
            ctx.violation('interpolation: expression not delimited at its own closing brace, or $$ / literal characters not preserved, '
                          'or a switched-off context was interpolated', case, expected=exp, actual=impl)
    ctx.cov['context_histogram'] = hist
    ctx.counters['nontrivial'] = len(nt)
    ctx.sample({'template': cases[0][0]['src'], 'expected': cases[0][1]})
    # named and numeric character references inside an expression are decoded before it is evaluated (D-06c, fixed: &xi; was not)
    ENT = [("'&xi;'", '\u03be'), ("'&Xi;'", '\u039e'), ("'&pi;'", '\u03c0'), ("'&#x41;'", 'A'), ("'&#65;'", 'A'), ("'&#x4A;'", 'J'), ("'&eacute;'", '\u00e9'),
           ("'&x41;'", '&amp;x41;'), ("'&xyz;'", '&amp;xyz;'), ("'&nosuch;'", '&amp;nosuch;'), ("len('&lt;&gt;&amp;')", '3'),
           # D-06d, fixed: &apos; (predefined in XML, missing from the HTML 4 table) was not decoded
           # a raw & that begins no character reference stays (also when a legacy entity name without ';' follows it)
           ("'?p=1&region=eu'", '?p=1&amp;region=eu'), ("'a&copy=1'", 'a&amp;copy=1'), ("'x&lt'", 'x&amp;lt'), ("'&notify;'", '&amp;notify;'),
           ("len('&#128;')", '1'), ("'&#128;' == chr(128)", 'True'),
           ("len(&apos;ab&apos;)", '2'), ("&apos;a&apos; + &quot;b&quot; + &#39;c&#39;", 'abc')]
    for e, want in ENT:
        for src, exp in (('<p>${%s}</p>' % e, '<p>%s</p>' % want), ('<p a="${%s}">t</p>' % e, '<p a="%s">t</p>' % want)):
            ctx.count('evaluations')
            r = pipeline.run_impl({'src': src, 'vars': []})
            if r.get('out') != exp:
                ctx.violation('character entities inside an expression are decoded before evaluation (and nothing else is)', {'src': src, 'vars': []},
                              expected=exp, actual=r)
    # D-06a
    r = pipeline.run_impl({'src': '<p a="$$">$$</p>', 'vars': []})
    if r.get('out') != '<p a="$">$</p>':
        ctx.violation('$$ is not collapsed to $', {'src': '<p a="$$">$$</p>'}, expected='<p a="$">$</p>', actual=r,
                      finding='D-06a' if r.get('out') == '<p a="$$">$</p>' else None)


def reproduce_finding(ctx, f):
    return None


def replay(ctx, case):
    v = case.get('violation', case)
    c = v['input']
    impl = pipeline.run_impl(c)
    if v.get('expected') is not None and impl.get('out') != v['expected']:
        ctx.violation('interpolation', c, expected=v['expected'], actual=impl)
    return {'impl': impl, 'expected': v.get('expected')}

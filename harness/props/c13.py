"""C13 — tal:on-error replaces exactly the failed element's output with the fallback."""
import re

import core
import pipeline
import talgen

PID = 'C13'
PROOF_MODULES = ['ChamProofs.Props.C13', 'ChamProofs.Props.C13Exact', 'ChamProofs.Props.C13Loc']
THEOREMS = ['ChamVerif.C13_handler_exact', 'ChamVerif.C13_error_bound', 'ChamVerif.good_all', 'ChamVerif.good_eval', 'ChamVerif.C13_exact',
            'ChamVerif.C13_pass_through', 'ChamVerif.C13_base_exception_propagates',
            'ChamVerif.C13_error_position_exact']
LEVEL_TEXT = ('Proved in Lean on the whole interpreter model: rendering only appends to the output — for every node, scope, state and fuel the '
              'evaluator leaves what was on the output stack untouched and extends the current stream at its end, also when it raises '
              '(good_all / good_eval: induction on the fuel over all four mutually recursive functions and every node kind, macro calls, '
              'slot fillers and translation sub-streams included); hence when the guarded element raises an Exception, tal:on-error '
              'continues with the fallback from exactly the output before the element, with error bound and the handler called once — '
              'whether or not an expression position is known, i.e. also when the failure comes out of an internal macro or a slot filler '
              '(C13_exact; the position is unknown exactly then: C13_error_bound, the behaviour after the D-13c fix), renders the element unchanged when nothing fails (C13_pass_through) and lets exceptions outside the '
              'Exception hierarchy through (C13_base_exception_propagates). In detail: the handler step of tal:on-error (the `except Exception` branch of visit_OnError as modelled by '
              'onErrorHandle) leaves exactly the output from before the element — whatever the element had emitted, however many '
              'translation sub-streams were open — increments the handler-call count once and binds `error` '
              '(C13_handler_exact, C13_error_bound; for the per-node saved length the code has after the D-13a fix). The node interpreter '
              'these lemmas are about is tied to the code by end-to-end correspondence (output, evaluation log, handler-call count) on '
              'generated templates with nested handlers and planted failures, and judged by an independent constructive oracle.'
              " error.lineno / error.offset give back the failing expression's offset exactly (C13_error_position_exact, from C11_location_exact).")
LEVEL_NOTE = ('Trusted: Lean kernel; the node interpreter as a model of the generated Python (validated by correspondence, not proved). '
              'The theorems hold for the per-node saved length (sharedFallbackVar = false), the behaviour of /repo after the D-13a fix.')
RULE = ('constructive family: trees of elements with tal:on-error on any subset (nesting <= 4, with omit-tag, define, condition, translation '
        'blocks, in-place macro definitions and slot fillers of macros whose body has a handler of its own in between) '
        'and raising points first/middle/last, inside and after inner handlers; expected output computed by the generator. A case is '
        'non-trivial iff a handler fired after its element had already emitted output. Plus talgen templates (onerror-heavy) for '
        'model/implementation correspondence.')
TRUSTED = ['python semantics of try/except in the generated module']
ASSUMPTIONS = ['the raising expressions raise the planted exception class with the planted key as argument']


class Boom(Exception):
    pass


def gen_tree(rng, depth, k):
    """-> node dict; k is a counter list for unique keys"""
    r = rng.random()
    if depth <= 0 or r < 0.25:
        r2 = rng.random()
        if r2 < 0.45:
            return {'t': 'text', 's': rng.choice(['a', 'b c', 'x', '1', ' '])}
        if r2 < 0.75:
            k[0] += 1
            return {'t': 'val', 'key': 'k%d' % k[0], 's': rng.choice(['v', 'w&w', '7'])}
        k[0] += 1
        return {'t': 'boom', 'key': 'k%d' % k[0], 'exc': rng.choice(['ZeroDivisionError', 'KeyError', 'RuntimeError', 'ValueError', 'Exception', 'KeyboardInterrupt'] if rng.random() < 0.15 else ['ZeroDivisionError', 'KeyError', 'RuntimeError', 'ValueError'])}
    if rng.random() < 0.12:
        # tal:switch with cases that may carry tal:on-error and fail: a handled failure of a case must not re-open the switch
        k[0] += 1
        cases = []
        for _ in range(rng.choice([2, 3, 3])):
            e = mk_elem(rng, depth - 1, k, plain=True)
            e['case'] = rng.choice(['a', 'a', 'b', 'default'])
            cases.append(e)
        return {'t': 'switch', 'value': rng.choice(['a', 'a', 'b', 'c']), 'kids': cases}
    return mk_elem(rng, depth, k)


def mk_elem(rng, depth, k, plain=False):
    kids = [gen_tree(rng, depth - 1, k) for _ in range(rng.choice([1, 2, 2, 3]))]
    k[0] += 1
    if rng.random() < 0.15 and depth > 0 and not plain:
        # the children become the filler of a slot of a macro defined in the prelude; the macro's own element may carry on-error
        return {'t': 'use', 'name': 'm%d' % k[0], 'macro_onerror': rng.random() < 0.5, 'fb': 'M%d' % k[0], 'kids': kids}
    return {'t': 'elem', 'tag': rng.choice(['p', 'div', 'b', 'i']), 'attrs': rng.choice([[], [('class', 'c')], [('id', 'x'), ('title', 'T')], [('class', ''), ('id', 'x')], [('alt', '')]]),
            'onerror': rng.random() < 0.5, 'fb': 'F%d' % k[0], 'structure': rng.random() < 0.2,
            'wrap': rng.choice([None, None, None, 'define', 'omit', 'omit-true', 'condition', 'translate'] + ([] if plain else ['macro'])), 'kids': kids}


def to_src(n, defs=None, lib=False):
    if defs is None:
        defs = []
    if n['t'] == 'use':
        # the handler sits on an element *inside* the macro (tal:on-error on the defining element itself is not part of the macro: D-09d)
        oe = ' tal:on-error="string:%s"' % n['fb'] if n['macro_onerror'] else ''
        defs.append('<p metal:define-macro="%s"><span%s>M[<b metal:define-slot="s">D</b>]</span></p>' % (n['name'], oe))
        return '<x metal:use-macro="%smacros[\'%s\']"><u metal:fill-slot="s">%s</u></x>' % ('lib.' if lib else '', n['name'], ''.join(to_src(c, defs, lib) for c in n['kids']))
    if n['t'] == 'text':
        return n['s']
    if n['t'] == 'switch':
        return '<div tal:switch="\'%s\'">%s</div>' % (n['value'], ''.join(to_src(c, defs, lib) for c in n['kids']))
    if n['t'] == 'val':
        return "${R('%s', '%s')}" % (n['key'], n['s'])
    if n['t'] == 'boom':
        return "${R('%s', None, '%s')}" % (n['key'], n['exc'])
    a = ''.join(' %s="%s"' % kv for kv in n['attrs'])
    if n.get('case'):
        a += ' tal:case="%s"' % ('default' if n['case'] == 'default' else "'%s'" % n['case'])
    if n['onerror']:
        a += ' tal:on-error="%s"' % (("structure '<u>%s</u>'" % n['fb']) if n['structure'] else ('string:%s' % n['fb']))
    if n['wrap'] == 'repeat':
        a += ' tal:repeat="q [1, 2]"'
    elif n['wrap'] == 'define':
        a += ' tal:define="q 1"'
    elif n['wrap'] == 'omit':
        a += ' tal:omit-tag=""'
    elif n['wrap'] == 'omit-true':
        # a tal:omit-tag expression that says "omit": no tags, in the normal rendering and in the fallback alike
        a += ' tal:omit-tag="%s"' % ('True' if len(n['fb']) % 2 else "'y'")
    elif n['wrap'] == 'condition':
        a += ' tal:condition="True"'
    elif n['wrap'] == 'translate':
        a += ' i18n:translate=""'
    elif n['wrap'] == 'macro':
        a += ' metal:define-macro="d%s"' % n['fb']
    return '<%s%s>%s</%s>' % (n['tag'], a, ''.join(to_src(c, defs, lib) for c in n['kids']), n['tag'])


class Raised(Exception):
    def __init__(self, cls, key):
        self.cls = cls
        self.key = key


def expected(n, st):
    """reference semantics of the family; st = {'log': [], 'handled': 0, 'nontrivial': False}"""
    if n['t'] == 'text':
        return n['s']
    if n['t'] == 'val':
        st['log'].append(n['key'])
        return n['s'].replace('&', '&amp;')
    if n['t'] == 'boom':
        st['log'].append(n['key'])
        raise Raised(n['exc'], n['key'])
    if n['t'] == 'switch':
        # the first case that matches (equal value, or `default`) closes the switch *before* it renders: a failure of that
        # case, handled by its own tal:on-error, does not let a later case render
        out, open_ = [], True
        for c in n['kids']:
            if open_ and (c['case'] == 'default' or c['case'] == n['value']):
                open_ = False
                if c['onerror']:
                    st['nontrivial'] = True
                out.append(expected(c, st))
        return '<div>%s</div>' % ''.join(out)
    if n['t'] == 'use':
        before = len(st['log'])
        try:
            return '<p><span>M[<u>%s</u>]</span></p>' % ''.join(expected(c, st) for c in n['kids'])
        except Raised as e:
            if not n['macro_onerror'] or e.cls in ('KeyboardInterrupt',):
                raise
            st['handled'] += 1
            st['nontrivial'] = True
            return '<p><span>%s</span></p>' % n['fb']
    a = ''.join(' %s="%s"' % kv for kv in n['attrs'])
    omit = n['wrap'] in ('omit', 'omit-true')
    reps = 2 if n['wrap'] == 'repeat' else 1

    def body():
        out = []
        for i in range(reps):
            inner = ''.join(expected(c, st) for c in n['kids'])
            if n['wrap'] == 'translate':
                # the translated message is the content with white space collapsed and trimmed
                inner = re.sub(r'\s+', ' ', inner).strip()
            out.append(inner if omit else '<%s%s>%s</%s>' % (n['tag'], a, inner, n['tag']))
        return ''.join(out)
    if not n['onerror']:
        return body()
    emitted_before = len(st['log'])
    try:
        return body()
    except Raised as e:
        if e.cls in ('KeyboardInterrupt',):
            raise
        st['handled'] += 1
        if len(st['log']) > emitted_before + 1 or any(c['t'] == 'text' for c in n['kids'][:1]):
            st['nontrivial'] = True
        fb = ('<u>%s</u>' % n['fb']) if n['structure'] else n['fb']
        return fb if omit else '<%s%s>%s</%s>' % (n['tag'], a, fb, n['tag'])


def constructive_cases(ctx, n):
    out = []
    for _ in range(n):
        k = [0]
        pre = ctx.rng.choice(['', 'PRE ', '<hr/>'])
        post = ctx.rng.choice(['', ' POST', '<br/>'])
        tree = {'t': 'elem', 'tag': 'section', 'attrs': [], 'onerror': ctx.rng.random() < 0.3, 'fb': 'TOP', 'structure': False,
                'wrap': None, 'kids': [gen_tree(ctx.rng, ctx.rng.choice([1, 2, 3, 4]), k) for _ in range(ctx.rng.choice([1, 2, 3]))]}
        defs = []
        # the macros may live in another template object (created without an on_error_handler of its own: the handler that is
        # called is the rendered template's)
        uselib = ctx.rng.random() < 0.4
        body = to_src(tree, defs, uselib)
        if uselib and defs:
            src = pre + body + post
        else:
            uselib = False
            src = ('<tal:block condition="False">%s</tal:block>' % ''.join(defs) if defs else '') + pre + body + post
        st = {'log': [], 'handled': 0, 'nontrivial': False}
        try:
            exp = {'out': pre + expected(tree, st) + post, 'log': st['log'], 'handled': st['handled']}
        except Raised as e:
            exp = {'exc': e.cls, 'key': e.key, 'log': st['log']}
        case = {'src': src, 'vars': [['R', {'fn': 'R'}]], 'objs': []}
        if uselib:
            case['vars'] = case['vars'] + [['lib', {'template': 1}]]
            case['libs'] = ['<html>%s</html>' % ''.join(defs)]
        out.append((case, exp, st['nontrivial']))
    return out


def judge(case, exp, impl):
    if 'out' in exp:
        if impl.get('out') != exp['out']:
            return 'output is not "before + fallback + after" as the on-error semantics prescribes'
        if impl.get('log') != exp['log']:
            return 'evaluation log differs from the reference'
        if impl.get('handled') != exp['handled']:
            return 'on_error_handler was not called once per handled failure'
        return None
    if impl.get('exc') != 'render' or impl.get('cls') != exp['exc']:
        return 'an unhandled failure must propagate with its class'
    return None


def correspondence(ctx):
    cons = constructive_cases(ctx, ctx.budget(600, 20000))
    feats = {'define', 'condition', 'repeat', 'content', 'replace', 'omit', 'attributes', 'onerror', 'interp', 'raise', 'pipes'}
    gen = []
    for _ in range(ctx.budget(800, 30000)):
        g = talgen.TalGen(ctx.rng, features=feats, depth=3)
        gen.append(g.template())
    pipeline.run_cases(ctx, [c for c, _, _ in cons] + gen, what='on-error rendering')


def oracle(ctx):
    cons = constructive_cases(ctx, ctx.budget(1500, 60000))
    nt = set()
    impls = pipeline.impl_many([c for c, _, _ in cons])
    for (case, exp, nontrivial), impl in zip(cons, impls):
        ctx.count('evaluations')
        if nontrivial:
            nt.add(case['src'])
        j = judge(case, exp, impl)
        if j:
            ctx.violation(j, case, expected=exp, actual=impl)
    ctx.counters['nontrivial'] = len(nt)
    ctx.sample({'template': cons[0][0]['src'], 'expected': cons[0][1]})
    # the fallback can read `error`: class, value, and the line and column of the expression that failed — wherever on its line it starts
    from chameleon import PageTemplate
    FB = "string:${error.type.__name__}|${error.value}|${error.lineno}|${error.offset}"
    ERR_SITES = ['<p tal:on-error="FB">${boom()}</p>', '<p tal:on-error="FB" tal:content="\nboom()\n">x</p>', '<div tal:on-error="FB">\n${boom()}</div>',
                 '<div tal:on-error="FB"><i tal:define="a 1; b boom()">x</i></div>', '<div tal:on-error="FB">text\n   more <b tal:content="boom()"/></div>',
                 '<p tal:on-error="FB" tal:attributes="title\nboom()">x</p>', '<p tal:on-error="FB">${\nboom()\n}</p>',
                 '<ul tal:on-error="FB"><li tal:repeat="i [1, 2]">${i}\n${boom()}</li></ul>']

    def boom():
        raise ValueError('bang')
    for site in ERR_SITES:
        for pre in ('', 'first line\n', '\n\n  <hr/>'):
            src = pre + site.replace('FB', FB)
            off = src.index('boom()')
            line = 1 + src[:off].count('\n')
            col = off - (src[:off].rfind('\n') + 1)
            tag = site[1:site.index(' ')]
            want = '%s<%s>ValueError|bang|%d|%d</%s>' % (pre, tag, line, col, tag)
            ctx.count('evaluations')
            try:
                got = PageTemplate(src)(boom=boom)
            except Exception as e:
                got = {'exc': type(e).__name__, 'msg': str(e).split('\n')[0][:100]}
            if got != want:
                ctx.violation('the fallback of tal:on-error reads error.type / value / lineno / offset of the expression that failed',
                              {'src': src}, expected=want, actual=got)
    # any Exception is handled, whatever its class does with its arguments: constructors that do not take what ends up in `args`,
    # that format their argument, keyword-only or argument-less ones, OSError's errno dispatch, KeyError's quoting
    class Validation(Exception):
        def __init__(self, field, reason):
            super().__init__('%s: %s' % (field, reason))
            self.field = field

    class Status(Exception):
        def __init__(self, code):
            super().__init__('status %s' % code)
            self.code = code

    class KwOnly(Exception):
        def __init__(self, *, detail='d'):
            super().__init__(detail)

    class NoArgs(Exception):
        def __init__(self):
            super().__init__('fixed text')

    class Two(Exception):
        def __str__(self):
            return 'two:%s/%s' % self.args
    EXC = [(lambda: Validation('quantity', 'must be positive'), 'Validation', 'quantity: must be positive'), (lambda: Status(503), 'Status', 'status 503'),
           (lambda: KwOnly(detail='x<y'), 'KwOnly', 'x&lt;y'), (NoArgs, 'NoArgs', 'fixed text'), (lambda: Two(1, 2), 'Two', 'two:1/2'),
           (lambda: OSError(2, 'No such file'), 'FileNotFoundError', '[Errno 2] No such file'), (lambda: KeyError('k'), 'KeyError', "'k'"),
           (lambda: UnicodeDecodeError('utf-8', b'x', 0, 1, 'bad'), 'UnicodeDecodeError', "'utf-8' codec can't decode byte 0x78 in position 0: bad")]
    for mk, name, text in EXC:
        calls = []

        def fail(mk=mk):
            raise mk()
        src = '<b>a</b><div class="box" tal:on-error="string:failed (${error.type.__name__}): ${error.value}">x ${fail()} y</div><b>z</b>'
        want = '<b>a</b><div class="box">failed (%s): %s</div><b>z</b>' % (name, text)
        ctx.count('evaluations')
        try:
            got = PageTemplate(src, on_error_handler=calls.append)(fail=fail)
        except Exception as e:
            got = {'exc': type(e).__name__, 'msg': str(e).split('\n')[0][:100]}
        if got != want or len(calls) != 1 or type(calls[0]).__name__ != name:
            ctx.violation('tal:on-error handles any Exception: the fallback reads error.type and error.value, the handler is called once',
                          {'src': src, 'raises': name}, expected={'out': want, 'handler_calls': 1}, actual={'out': got, 'handler_calls': [type(c).__name__ for c in calls]})
    # D-13d: tal:on-error written on a metal:fill-slot element is dropped (the filler is stored before the handler is wrapped around it)
    r = pipeline.run_impl({'src': D13D, 'vars': []})
    if r.get('out') != D13D_EXPECT:
        ctx.violation('tal:on-error on a fill-slot element must handle a failure of the filler', {'src': D13D}, expected=D13D_EXPECT, actual=r,
                      finding='D-13d' if (r.get('exc') == 'render' and r.get('cls') == 'NameError') else None)
    # D-13e: with a dynamic tal:omit-tag the fallback never has the tags, even when the expression says "keep them"
    r = pipeline.run_impl({'src': D13E, 'vars': []})
    if r.get('out') != D13E_EXPECT:
        ctx.violation('the fallback shows the start tag with the static attributes and the end tag', {'src': D13E}, expected=D13E_EXPECT, actual=r,
                      finding='D-13e' if r.get('out') == 'x' else None)
    ctx.sample({'template': 'A<p tal:on-error="string:E">B<i tal:on-error="string:F">${1/0}</i>C${1/0}</p>D',
                'rendered': pipeline.run_impl({'src': 'A<p tal:on-error="string:E">B<i tal:on-error="string:F">${1/0}</i>C${1/0}</p>D', 'vars': []}).get('out')})


D13D = ('<div metal:define-macro="m"><i metal:define-slot="s">d</i></div>|<div metal:use-macro="template.macros[\'m\']">'
        '<b metal:fill-slot="s" tal:on-error="string:oops">${bad}</b></div>')
D13D_EXPECT = '<div><i>d</i></div>|<div><b>oops</b></div>'
D13E = '<div class="c" tal:omit-tag="False" tal:on-error="string:x">${bad}</div>'
D13E_EXPECT = '<div class="c">x</div>'


def replay(ctx, case):
    v = case.get('violation', case)
    c = v['input']
    impl = pipeline.run_impl(c)
    if v.get('expected') is not None:
        j = judge(c, v['expected'], impl)
        if j:
            ctx.violation(j, c, expected=v['expected'], actual=impl)
    return {'input': c, 'impl': impl, 'expected': v.get('expected')}

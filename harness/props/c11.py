"""C11 — template errors surface as TemplateError with the exact source location."""
import ast

import core
import pipeline
import talgen

PID = 'C11'
PROOF_MODULES = ['ChamProofs.Props.C11', 'ChamProofs.Props.C03', 'ChamProofs.Props.C11Clause', 'ChamProofs.Ties', 'ChamProofs.Props.C11Loc']
THEOREMS = ['ChamVerif.anchored_slice', 'ChamVerif.anchored_lstripBy', 'ChamVerif.anchored_rstripBy', 'ChamVerif.anchored_stripBy',
            'ChamVerif.anchored_split_parts', 'ChamVerif.C11_split_anchored', 'ChamVerif.C11_split_counterexample_before_fix',
            'ChamVerif.C11_quirk_fixed', 'ChamVerif.C11_location_line', 'ChamVerif.C03_tokens_anchored',
            'ChamVerif.splitParts_anchored', 'ChamVerif.C11_defines_error_anchored', 'ChamVerif.C11_attributes_error_anchored',
            'ChamVerif.C11_substitution_error_anchored',
            'ChamVerif.tie_whitelists', 'ChamVerif.C11Loc.lineStart_body', 'ChamVerif.C11Loc.C11_location_exact']
LEVEL_TEXT = ('Proved in Lean for every source, token and argument: the position algebra of Token keeps tokens anchored — a slice, a left/right/'
              'both-sided strip and every part of split(sep) of an anchored token is again the source slice at its position '
              '(anchored_slice, anchored_*stripBy, C11_split_anchored; the last for the separator-counting split /repo has after the D-11a '
              'fix, with the pre-fix behaviour refuted by a concrete witness), starting from the tokenizer\'s tokens which are anchored for '
              'every input (C03_tokens_anchored); line = 1 + newlines before the position (C11_location_line). For the clause parsers themselves: every error of parse_defines, '
              'parse_attributes and parse_substitution on a clause that is a source slice and needs none of the text surgery of split_parts '
              '(no ";;", no entity, no NUL: the decidable side condition clauseSimple) carries a token that is again a source slice '
              '(C11_defines_error_anchored, C11_attributes_error_anchored, C11_substitution_error_anchored, via splitParts_anchored). The other raise sites of the parser, '
              'the TAL clause parsers, the program builder and the compiler checks are modelled (class, message, token, offset, line, column) '
              'and tied to the code by correspondence on planted faults; the oracle judges source[offset:offset+len(token)] == token, the '
              'exception class and non-rejection of the fault-free base on the implementation alone.')
LEVEL_NOTE = ('Trusted: Lean kernel; the model of the raise sites (validated by correspondence); Python\'s SyntaxError messages are taken from '
              'ast.parse by the harness. Line and column identify the offset exactly, for every source and offset: the offset is the start of the reported line (the position after the line-1-th line feed) plus the column, and no line feed lies between (C11_location_exact; only \\n is a line end: form feed, U+0085, U+2028 are ordinary characters). Known findings: D-11b (tokens of expressions containing entities, ";;" or newlines are the transformed '
              'text), D-11c (unknown expression prefix: LookupError), '
              'D-11d (tal:repeat with two clauses: AssertionError), D-01a (tal:switch and tal:case on one element: AssertionError), D-11f '
              '(undeclared prefix in an attribute name: KeyError).')
RULE = ('valid skeleton templates (multi-line, non-ASCII, statements on nested elements) x error kinds from a 16-entry catalogue x every '
        'site the kind can be planted at (each ;-part of define/attributes incl. after ;; and entities, ${} in text and attributes on any '
        'line/column, every statement argument). Non-trivial iff the planted fault sits after a ";", an escape, an entity, a newline or a '
        'non-ASCII character.')
TRUSTED = []
ASSUMPTIONS = []

BAD_EXPRS = ['1 +', 'a b', ')', 'x ===', "'unterminated", '1 2', 'not', 'lambda', 'a..b', '(1,']


def syntax_msg(e):
    try:
        ast.parse(e, mode='eval')
    except SyntaxError as ex:
        return ex.msg
    return None


def skeletons(rng):
    """(prefix, suffix) pairs around a planted element, with newlines and non-ASCII text before the fault"""
    pre = rng.choice(['', 'é ü\n', '<div class="c">\n  ', '<html>\n<body>\n\t<p>intro ${1}</p>\n  ', 'text &amp; more\n\n',
                      # characters that str.splitlines() takes for line ends but that are not: only \\n counts (lines are what an editor shows)
                      'page 1\x0cpage 2\n  ', 'a\x0bb \x1c\x1d\x1e c\n', 'next\x85line \u2028 sep \u2029 para\n\n '])
    post = rng.choice(['', '\n</div>' if pre.startswith('<div') else '', '\n  </body>\n</html>' if pre.startswith('<html') else ''])
    if pre.startswith('<div') and not post:
        post = '</div>'
    if pre.startswith('<html') and not post:
        post = '</body></html>'
    return pre, post


def plant(rng):
    """-> (src, expected {cls, token, offset} or finding id, nontrivial, base_src)"""
    pre, post = skeletons(rng)
    bad = rng.choice(BAD_EXPRS)
    kind = rng.choice(['content', 'replace', 'condition', 'define1', 'define2', 'define-after-escape', 'attributes2', 'attributes-after-escape',
                       'interp-text', 'interp-attr', 'repeat', 'omit', 'switch', 'case', 'pipe-alt', 'string-part', 'not-prefix',
                       'define-syntax', 'dup-attr', 'content+replace', 'end-tag', 'reserved', 'reserved-tuple', 'case-no-switch',
                       'bad-interpolation', 'name-outside', 'comment--', 'fill-no-use', 'entity-before', 'newline-in-expr',
                       'unknown-tal', 'unknown-prefix', 'repeat-two', 'switch+case', 'undeclared-ns',
                       'define-n', 'define-n', 'attributes-n', 'attributes-n', 'i18n-attributes-n',
                       'unknown-data', 'unknown-data', 'data-content-bad', 'empty-value', 'empty-value'])
    el = None
    exp = None
    finding = None
    cfg = {}
    nontrivial = bool(pre)
    good = '1'

    def at(s, sub, nth=0):
        i = -1
        for _ in range(nth + 1):
            i = s.index(sub, i + 1)
        return i
    if kind == 'empty-value':
        # the offending text is empty: the token is '' and stands where the missing statement / expression would stand
        st, val, cls, delta = rng.choice([('define', '', 'LanguageError', 0), ('repeat', '', 'LanguageError', 0), ('condition', '', 'ExpressionError', 0),
                                          ('attributes', '', 'ExpressionError', 0), ('content', '', 'ExpressionError', 0), ('replace', '', 'ExpressionError', 0),
                                          ('content', 'structure ', 'ExpressionError', 10), ('define', 'x ', 'ExpressionError', 2),
                                          ('on-error', '', 'ExpressionError', 0), ('content', '  ', 'ExpressionError', 2), ('switch', '', 'ExpressionError', 0),
                                          ('repeat', 'x ', 'ExpressionError', 2)])
        el = '<p tal:%s="%s">x</p>' % (st, val)
        base = '<p tal:%s="%s">x</p>' % (st, {'define': 'x 1', 'repeat': 'x [1]', 'attributes': 'title 1'}.get(st, '1'))
        exp = (cls, '', len(pre) + el.index('="') + 2 + delta)
        nontrivial = True
    elif kind in ('content', 'replace', 'condition', 'omit', 'switch'):
        st = {'omit': 'omit-tag'}.get(kind, kind)
        el = '<p tal:%s="%s">x</p>' % (st, bad)
        base = '<p tal:%s="%s">x</p>' % (st, good)
        exp = ('ExpressionError', bad, len(pre) + at(el, bad))
    elif kind == 'case':
        el = '<div tal:switch="1"><p tal:case="%s">x</p></div>' % bad
        base = el.replace(bad, good)
        exp = ('ExpressionError', bad, len(pre) + at(el, bad))
    elif kind == 'repeat':
        el = '<p tal:repeat="i %s">x</p>' % bad
        base = '<p tal:repeat="i [1]">x</p>'
        exp = ('ExpressionError', bad, len(pre) + at(el, bad))
    elif kind == 'define1':
        el = '<p tal:define="a %s">x</p>' % bad
        base = '<p tal:define="a 1">x</p>'
        exp = ('ExpressionError', bad, len(pre) + at(el, bad))
    elif kind == 'define2':
        el = '<p tal:define="a 1; b %s">x</p>' % bad
        base = '<p tal:define="a 1; b 2">x</p>'
        exp = ('ExpressionError', bad, len(pre) + at(el, bad))
        nontrivial = True
    elif kind in ('define-n', 'attributes-n'):
        # 3..5 ;-separated parts of varying width, the invalid expression in any of them
        n = rng.randint(3, 5)
        k = rng.randrange(n)
        names = ['a', 'bb', 'c', 'dddd', 'e']
        vals = ['1', "'xy'", '22', 'a', '(1, 2)']
        sep = rng.choice(['; ', ';', ' ;  ', ';\n   '])
        parts = ['%s %s' % (names[i], bad if i == k else vals[i]) for i in range(n)]
        gparts = ['%s %s' % (names[i], vals[i]) for i in range(n)]
        st = 'define' if kind == 'define-n' else 'attributes'
        el = '<p tal:%s="%s">x</p>' % (st, sep.join(parts))
        base = '<p tal:%s="%s">x</p>' % (st, sep.join(gparts))
        exp = ('ExpressionError', bad, len(pre) + at(el, bad))
        nontrivial = True
    elif kind == 'i18n-attributes-n':
        # an illegal i18n:attributes entry (two message ids) in the third or a later part
        n = rng.randint(3, 4)
        k = rng.randrange(n)
        names = ['title', 'alt', 'summary', 'abbr']
        parts = [names[i] + (' id%d' % i if i % 2 else '') for i in range(n)]
        badpart = names[k] + ' one two'
        gparts = list(parts)
        parts[k] = badpart
        sep = rng.choice(['; ', '; ', ';', ';\n', ';\n     '])
        el = '<p %s i18n:attributes="%s">x</p>' % (' '.join('%s="v"' % nm for nm in names[:n]), sep.join(parts))
        base = '<p %s i18n:attributes="%s">x</p>' % (' '.join('%s="v"' % nm for nm in names[:n]), sep.join(gparts))
        exp = None           # judged by source[offset:offset+len(token)] == token and the class
        nontrivial = True
    elif kind == 'define-after-escape':
        el = "<p tal:define=\"a 'x;;y'; b %s\">x</p>" % bad
        base = "<p tal:define=\"a 'x;;y'; b 2\">x</p>"
        exp = ('ExpressionError', bad, len(pre) + at(el, bad))
        finding = 'D-11b'
        nontrivial = True
    elif kind == 'attributes2':
        el = '<p tal:attributes="a 1; b %s">x</p>' % bad
        base = '<p tal:attributes="a 1; b 2">x</p>'
        exp = ('ExpressionError', bad, len(pre) + at(el, bad))
        nontrivial = True
    elif kind == 'attributes-after-escape':
        el = "<p tal:attributes=\"a 'x;;y'; b %s\">x</p>" % bad
        base = "<p tal:attributes=\"a 'x;;y'; b 2\">x</p>"
        exp = ('ExpressionError', bad, len(pre) + at(el, bad))
        finding = 'D-11b'
        nontrivial = True
    elif kind == 'interp-text':
        if '}' in bad or "'" in bad or '(' in bad:
            bad = '1 +'
        el = '<p>some text\n  and ${%s} more</p>' % bad
        base = '<p>some text\n  and ${1} more</p>'
        exp = ('ExpressionError', bad, len(pre) + at(el, bad))
        nontrivial = True
    elif kind == 'interp-attr':
        if '}' in bad or "'" in bad or '(' in bad:
            bad = 'a b'
        el = '<p title="t ${%s}">x</p>' % bad
        base = '<p title="t ${1}">x</p>'
        exp = ('ExpressionError', bad, len(pre) + at(el, bad))
    elif kind == 'pipe-alt':
        el = '<p tal:content="nope | %s">x</p>' % bad
        base = '<p tal:content="nope | 1">x</p>'
        exp = ('ExpressionError', bad, len(pre) + at(el, bad))
        nontrivial = True
    elif kind == 'string-part':
        if '}' in bad or "'" in bad or '(' in bad:
            bad = '1 +'
        el = '<p tal:content="string:a ${%s} b">x</p>' % bad
        base = '<p tal:content="string:a ${1} b">x</p>'
        exp = ('ExpressionError', bad, len(pre) + at(el, bad))
    elif kind == 'not-prefix':
        el = '<p tal:condition="not: %s">x</p>' % bad
        base = '<p tal:condition="not: 1">x</p>'
        exp = ('ExpressionError', bad, len(pre) + el.index('not: ') + 5)
    elif kind == 'define-syntax':
        part = rng.choice(['1a b', 'a', '(a b) c'])
        # the token is the whole ;-part including its leading white space: a blank, or the line break of a one-part-per-line layout
        ws = rng.choice([' ', ' ', '\n', '\n    ', '\n\t'])
        el = '<p tal:define="x 1;%s%s">x</p>' % (ws, part)
        base = '<p tal:define="x 1;%sy 2">x</p>' % ws
        off = len(pre) + el.index(';' + ws + part) + 1
        exp = ('LanguageError', ws + part, off)
        nontrivial = True
    elif kind == 'dup-attr':
        ws = rng.choice([' ', ' ', '\n', '\n    '])
        el = '<p tal:attributes="a 1;%sa 2">x</p>' % ws
        base = '<p tal:attributes="a 1;%sb 2">x</p>' % ws
        exp = ('LanguageError', ws + 'a 2', len(pre) + el.index(';' + ws + 'a 2') + 1)
        nontrivial = True
    elif kind == 'content+replace':
        el = '<p tal:content="1" tal:replace="2">x</p>'
        base = '<p tal:content="1">x</p>'
        exp = ('LanguageError', '1', len(pre) + el.index('"1"') + 1)
    elif kind == 'end-tag':
        el = '<p>x</p></q>'
        base = '<p>x</p>'
        exp = ('ParseError', '</q>', len(pre) + el.index('</q>'))
    elif kind == 'reserved':
        nm = rng.choice(['econtext', 'rcontext', '__x'])
        el = '<p tal:define="a 1; %s 2">x</p>' % nm
        base = '<p tal:define="a 1; b 2">x</p>'
        exp = ('TranslationError', nm, len(pre) + el.index(nm))
        nontrivial = True
    elif kind == 'reserved-tuple':
        nm = rng.choice(['econtext', 'rcontext'])
        el = '<p tal:define="(a, %s) (1, 2)">x</p>' % nm
        base = '<p tal:define="(a, b) (1, 2)">x</p>'
        exp = ('TranslationError', nm, len(pre) + el.index(nm))
        nontrivial = True
    elif kind == 'case-no-switch':
        el = '<p tal:case="1">x</p>'
        base = '<p>x</p>'
        exp = ('LanguageError', '1', len(pre) + el.index('"1"') + 1)
    elif kind == 'bad-interpolation':
        el = '<p meta:interpolation="maybe">x</p>'
        base = '<p meta:interpolation="on">x</p>'
        exp = ('LanguageError', 'maybe', len(pre) + el.index('maybe'))
    elif kind == 'name-outside':
        el = '<p><b i18n:name="nm">x</b></p>'
        base = '<p i18n:translate=""><b i18n:name="nm">x</b></p>'
        exp = ('TranslationError', 'nm', len(pre) + el.index('nm'))
    elif kind == 'comment--':
        el = '<!-- a -- b --><p>x</p>'
        base = '<!-- a - b --><p>x</p>'
        exp = ('ParseError', '--', len(pre) + el.index(' -- ') + 1)
    elif kind == 'fill-no-use':
        el = '<p metal:fill-slot="s">x</p>'
        base = '<p>x</p>'
        exp = ('LanguageError', 's', len(pre) + el.index('"s"') + 1)
    elif kind == 'entity-before':
        el = '<p tal:define="a 1 &lt; 2; b %s">x</p>' % bad
        base = '<p tal:define="a 1 &lt; 2; b 2">x</p>'
        exp = ('ExpressionError', bad, len(pre) + at(el, bad))
        finding = 'D-11b'
        nontrivial = True
    elif kind == 'newline-in-expr':
        el = '<p tal:content="1 +\n  ">x</p>'
        base = '<p tal:content="1 +\n  1">x</p>'
        exp = ('ExpressionError', '1 +', len(pre) + el.index('1 +'))
        nontrivial = True
    elif kind == 'unknown-data':
        # the data-<prefix>-<name> spelling of an unknown statement (enable_data_attributes): the token is the statement's name
        pfx = rng.choice(['tal', 'metal', 'i18n'])
        other = rng.choice(['', ' data-id="7"', ' class="c"'])
        el = '<p%s data-%s-foo="1">x</p>' % (other, pfx)
        base = '<p%s>x</p>' % other
        exp = ('CompilationError', 'foo', len(pre) + el.index('-foo') + 1)
        cfg = {'enable_data_attributes': True}
        nontrivial = True
    elif kind == 'data-content-bad':
        el = '<p data-id="7" data-tal-content="%s">x</p>' % bad
        base = '<p data-id="7" data-tal-content="1">x</p>'
        exp = ('ExpressionError', bad, len(pre) + at(el, bad))
        cfg = {'enable_data_attributes': True}
        nontrivial = True
    elif kind == 'unknown-tal':
        el = '<p tal:foo="1">x</p>'
        base = '<p>x</p>'
        exp = ('CompilationError', 'foo', len(pre) + el.index('foo'))
    elif kind == 'unknown-prefix':
        el = '<p tal:content="foo: 1">x</p>'
        base = '<p tal:content="1">x</p>'
        exp = ('ExpressionError', 'foo: 1', len(pre) + el.index('foo: 1'))
        finding = 'D-11c'
    elif kind == 'repeat-two':
        el = '<p tal:repeat="x y; z w">x</p>'
        base = '<p tal:repeat="x [1]">x</p>'
        exp = ('LanguageError', 'x y; z w', len(pre) + el.index('x y; z w'))
        finding = 'D-11d'
    elif kind == 'switch+case':
        el = '<p tal:switch="1" tal:case="1">x</p>'
        base = '<p tal:switch="1">x</p>'
        exp = ('LanguageError', '1', len(pre) + el.index('"1"') + 1)
        finding = 'D-01a'
    else:
        el = '<p foo:bar="1">x</p>'
        base = '<p>x</p>'
        exp = ('ParseError', 'foo:bar', len(pre) + el.index('foo:bar'))
        finding = 'D-11f'
    src = pre + el + post
    base_src = pre + base + post
    oracle = []
    m = syntax_msg(bad)
    if m:
        oracle.append([bad, m])
    oracle.append(['1 +', syntax_msg('1 +')])
    case = {'src': src, 'vars': [['nope2', 1]], 'objs': [], 'pyoracle': oracle, 'cfg': cfg}
    return case, exp, finding, nontrivial or kind in ('define2', 'attributes2'), base_src, kind


def correspondence(ctx):
    cases = [plant(ctx.rng) for _ in range(ctx.budget(2500, 60000))]
    pipeline.run_cases(ctx, [c[0] for c in cases], what='compile error')
    gen = []
    for _ in range(ctx.budget(300, 10000)):
        g = talgen.TalGen(ctx.rng, depth=2)
        gen.append(g.template())
    pipeline.run_cases(ctx, gen, what='valid template')


def oracle(ctx):
    cases = [plant(ctx.rng) for _ in range(ctx.budget(3000, 100000))]
    impls = pipeline.impl_many([c[0] for c in cases])
    bases = pipeline.impl_many([{'src': c[4], 'vars': [['nope2', 1]], 'objs': [], 'cfg': c[0].get('cfg', {})} for c in cases])
    nt = set()
    hist = {}
    for (case, exp, finding, nontrivial, base_src, kind), impl, base in zip(cases, impls, bases):
        ctx.count('evaluations')
        hist[kind] = hist.get(kind, 0) + 1
        if nontrivial:
            nt.add(case['src'])
        src = case['src']
        norm = src.replace('\r\n', '\n')
        problems = []
        if impl.get('exc') != 'TemplateError':
            problems.append('not a TemplateError: %s %s' % (impl.get('exc', 'rendered'), impl.get('cls', '')))
        else:
            tok, off = impl.get('token'), impl.get('offset')
            if norm[off:off + len(tok)] != tok:
                problems.append('source[offset:offset+len(token)] != token')
            if exp is not None and (tok != exp[1] or off != exp[2]):
                problems.append('token/offset is not the offending substring %r at %d' % (exp[1], exp[2]))
            line = 1 + norm[:off].count('\n')
            col = off - (norm[:off].rfind('\n') + 1)
            if (impl.get('line'), impl.get('col')) != (line, col) and not problems:
                problems.append('line/column do not match the offset')
        if problems:
            ctx.violation('; '.join(problems), {'src': src, 'kind': kind, 'cfg': case.get('cfg', {})}, expected={'cls': exp[0], 'token': exp[1], 'offset': exp[2]} if exp else None,
                          actual={k: impl.get(k) for k in ('exc', 'cls', 'msg', 'token', 'offset', 'line', 'col')}, finding=finding)
        # a template without such an error is never rejected
        if base.get('exc') in ('TemplateError', 'other'):
            ctx.violation('a template without a language error is rejected', {'src': base_src, 'kind': kind + ' (fault-free base)'}, actual=base)
    ctx.cov['fault_kind_histogram'] = hist
    ctx.counters['nontrivial'] = len(nt)
    ctx.sample({'template': cases[0][0]['src'], 'expected': cases[0][1]})
    # what failed to compile earlier in this process must not matter: after a template that is rejected deep inside a region where
    # interpolation is switched off (the program builder is left in the middle of its element stack), an invalid ${...} in a later
    # template is still rejected, at its place, and a valid one is still evaluated
    from chameleon import PageTemplate
    from chameleon.exc import TemplateError
    FIRST = ['<div meta:interpolation="false"><p><b tal:content="x" tal:replace="y">t</b></p></div>',
             '<div meta:interpolation="off"><ul><li metal:fill-slot="s">x</li></ul></div>',
             '<div meta:interpolation="false"><i meta:interpolation="true"><b i18n:name="n">t</b></i></div>',
             '<div meta:interpolation="true"><p meta:interpolation="false"><b tal:switch="a" tal:case="b">t</b></p></div>']
    PROBES = [('<html>\n  <p>caf\u00e9 ${1 +}</p>\n</html>', '1 +'), ('<p><!-- ${a b} --></p>', 'a b'), ('<p><![CDATA[${x ===}]]></p>', 'x ==='),
              ('<p title="${1 +}">t</p>', '1 +')]
    for first in FIRST:
        try:
            PageTemplate(first)
        except Exception:
            pass
        for src, tok in PROBES:
            ctx.count('evaluations')
            try:
                PageTemplate(src)
                got = 'compiled'
            except TemplateError as e:
                got = (str(getattr(e, 'token', None)), getattr(e, 'offset', None))
            except Exception as e:
                got = type(e).__name__
            if got != (tok, src.index(tok)):
                ctx.violation('an invalid ${...} is not rejected (or not at its place) after an earlier template of the process was rejected',
                              {'src': src, 'compiled_before': first}, expected=(tok, src.index(tok)), actual=got)
        try:
            got = PageTemplate('<p>${a + b}<!-- ${a} --></p>')(a=1, b=2)
        except Exception as e:
            got = type(e).__name__
        if got != '<p>3<!-- 1 --></p>':
            ctx.violation('a valid template renders differently after an earlier template of the process was rejected',
                          {'src': '<p>${a + b}<!-- ${a} --></p>', 'compiled_before': first}, expected='<p>3<!-- 1 --></p>', actual=got)


def judge_disagreement(ctx, d):
    """the implementation reports another location than the model (which reproduces the known findings D-11b..f exactly): if that
    location does not identify the offending substring, it is a failing input that no listed finding explains"""
    case, impl = d.get('input'), d.get('impl') or {}
    if not isinstance(case, dict) or 'src' not in case or impl.get('exc') != 'TemplateError':
        return
    norm = case['src'].replace('\r\n', '\n')
    tok, off = impl.get('token'), impl.get('offset')
    if not isinstance(tok, str) or not isinstance(off, int):
        return
    line = 1 + norm[:off].count('\n')
    col = off - (norm[:off].rfind('\n') + 1)
    if norm[off:off + len(tok)] != tok or (impl.get('line'), impl.get('col')) != (line, col):
        ctx.violation('source[offset:offset+len(token)] != token, or line/column do not belong to the offset (and the deviation is not the one '
                      'the model of the known findings reproduces)', {'src': case['src'], 'kind': 'correspondence disagreement'},
                      expected=d.get('model'), actual={k: impl.get(k) for k in ('exc', 'cls', 'msg', 'token', 'offset', 'line', 'col')})


def reproduce_finding(ctx, f):
    if f['id'] == 'D-11g':
        from chameleon import PageTemplate
        try:
            PageTemplate('<div tal:define="my-var 1">x</div>')
            return False
        except SyntaxError as e:
            return type(e) is SyntaxError
        except Exception:
            return False
    if f['id'] in ('D-11h', 'D-11i', 'D-11j'):
        from chameleon import PageTemplate
        from chameleon.exc import TemplateError
        src = f['input']['src']
        try:
            PageTemplate(src)
            return False
        except TemplateError as e:
            if f['id'] != 'D-11i':
                return False
            # the token is not where the error says it is
            tok = getattr(e, 'token', None)
            off = getattr(e, 'offset', None)
            return tok is not None and off is not None and src[off:off + len(tok)] != str(tok)
        except AttributeError:
            return f['id'] == 'D-11h'
        except LookupError as e:
            return f['id'] == 'D-11j' and type(e) is LookupError
        except Exception:
            return False
    return None


def replay(ctx, case):
    v = case.get('violation', case)
    c = v['input']
    impl = pipeline.run_impl({'src': c['src'], 'vars': [['nope2', 1]], 'cfg': c.get('cfg', {})})
    return {'impl': impl, 'expected': v.get('expected')}

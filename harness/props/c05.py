"""C05 — variable scoping: locals end with their element, globals persist."""
import builtins
import re
import html

import core
import pipeline
import talgen

PID = 'C05'
PROOF_MODULES = ['ChamProofs.Props.C05', 'ChamProofs.Props.C05Eval', 'ChamProofs.Props.C05Global', 'ChamProofs.Props.C05Multi']
THEOREMS = ['ChamVerif.C05_bracket_restores', 'ChamVerif.C05_bracket_frame', 'ChamVerif.ScopeStore.C05_copy_sees_same',
            'ChamVerif.ScopeStore.C05_copy_local_private', 'ChamVerif.ScopeStore.C05_global_through_copy',
            'ChamVerif.Dict.get_set_same', 'ChamVerif.Dict.get_set_other', 'ChamVerif.Root.rk_all', 'ChamVerif.C05_local_define_restores',
            'ChamVerif.C05_repeat_restores',
            'ChamVerif.C05_global_unpack',
            'ChamVerif.storeGlobals_tie',
            'ChamVerif.C05_local_defines_restore', 'ChamVerif.C05_repeat_restores_all', 'ChamVerif.C05_tuple_define_runs']
LEVEL_TEXT = ('Proved in Lean on the whole interpreter model: when an element with a local tal:define of a name is finished, the name is bound to '
              'exactly what it was bound to before — the outer binding visible again unchanged, or undefined again — for every body (macro '
              'calls, repeats, on-error, global definitions of the same name included), scope, state and fuel (C05_local_define_restores, '
              'using rk_all: the root dictionary of a scope is constant within a function, by induction on the fuel over the four '
              'evaluator functions and every node kind); the same for the loop variable of a local tal:repeat, after any number of iterations '
              '(C05_repeat_restores). On the dictionary level, for every dictionary, name and value: the backup/restore bracket the compiler puts around every local '
              'assignment re-establishes the previous binding, present or absent alike, and touches no other name (C05_bracket_restores, '
              'C05_bracket_frame); on the two-level Scope store: a copy (the scope a macro or slot filler runs in) sees exactly the '
              'original\'s bindings, its local assignments never reach the original, and a set_global through it is what the original '
              'reads (C05_copy_sees_same, C05_copy_local_private, C05_global_through_copy). The Scope model is tied to utils.Scope by '
              'operation-sequence correspondence; the node interpreter (define/repeat/on-error scoping) by end-to-end correspondence with '
              'scope probes and colliding names; the property itself is judged on the implementation by a constructive reference.'
              ' A global definition of several names leaves every name bound to its own item in the render context (C05_global_unpack with storeGlobals_tie; the behaviour of /repo after the D-05g fix).'
              ' Any list of local clauses — single names, tuples, aliases, a name defined more than once — leaves every name it defined as it was before the element, and so does a tuple of loop variables (C05_local_defines_restore, C05_repeat_restores_all over restore_get: the last backup entry of a name decides, and it is the binding the element started with; C05_tuple_define_runs: the hypotheses are met).')
LEVEL_NOTE = ('Trusted: Lean kernel; harness. The interpreter theorems cover local tal:define lists (single names, tuples, aliases, repeated names) and local tal:repeat variables (single or tuple); global definitions are covered by C05_global_unpack, the correspondence and the constructive oracle. Known findings D-05b (local restore hides a global set inside), D-05c (an exception handled by '
              'tal:on-error skips the restore), D-05d (translate/decode/on_error_handler cannot be shadowed), D-05e (repeat rebound).')
RULE = ('(a) random operation sequences (length <= 12 quick / 40 thorough) on utils.Scope vs the model store; (b) talgen templates with names '
        'drawn from a pool that includes builtins and helper names, with scope probes; (c) constructive nestings define > repeat > define '
        'with colliding names and probes before/inside/after, each name initially bound or not. Non-trivial iff a name is defined where '
        'an outer binding of the same name exists or it is a builtin/helper name.')
TRUSTED = []
ASSUMPTIONS = ['probe values are plain ints/strs (their str() is what the probe shows)']

POOL = ['a', 'b', 'x', 'len', 'str', 'id', 'type', 'list', 'get', 'getname', 're', 'functools', 'intern', 'convert', 'target_language',
        # names the engine itself looks up while evaluating *other* expressions (exception classes of pipes and exists:)
        'NameError', 'AttributeError', 'LookupError', 'TypeError', 'ValueError', 'Exception', 'KeyError']
# another expression, next to every probe: a pipe whose first alternative raises, and an exists: of an unbound name
OTHER = "{${nosuch_qq | 'F'}${exists: nosuch_qq}}"
OTHER_OUT = '{F0}'


def with_other(src, exp, probes):
    for P in probes:
        src = src.replace(P, P + OTHER)
    return src, re.sub(r'(\[[^\]]*\])', lambda m: m.group(1) + OTHER_OUT, exp)


def scope_ops(rng, n):
    ops = [['new', [[{'str': k}, v] for k, v in [('a', 1), ('b', {'str': 's'})][:rng.randint(0, 2)]]]]
    handles = 1
    for _ in range(n):
        h = rng.randrange(handles)
        k = rng.choice(['a', 'b', 'c', 'len'])
        r = rng.random()
        if r < 0.15:
            ops.append(['copy', h])
            handles += 1
        elif r < 0.35:
            ops.append(['set', h, k, rng.choice([1, 2, {'str': 'v'}, None])])
        elif r < 0.45:
            ops.append(['del', h, k])
        elif r < 0.6:
            ops.append(['setglobal', h, k, rng.choice([7, {'str': 'g'}])])
        elif r < 0.85:
            ops.append(['get', h, k])
        elif r < 0.95:
            ops.append(['iter', h])
        else:
            ops.append(['update', h, [[{'str': k}, 9]]])
    return ops


def run_scope_impl(ops):
    from chameleon.utils import Scope
    scopes = []
    outs = []

    def val(v):
        return v['str'] if isinstance(v, dict) else v

    def show(v):
        if isinstance(v, str):
            return {'str': v}
        return v
    for op in ops:
        if op[0] == 'new':
            scopes.append(Scope({k['str']: val(v) for k, v in op[1]}))
            outs.append(len(scopes) - 1)
        elif op[0] == 'copy':
            scopes.append(scopes[op[1]].copy())
            outs.append(len(scopes) - 1)
        elif op[0] == 'set':
            scopes[op[1]][op[2]] = val(op[3])
            outs.append(None)
        elif op[0] == 'del':
            try:
                del scopes[op[1]][op[2]]
                outs.append(None)
            except KeyError:
                outs.append('KeyError')
        elif op[0] == 'setglobal':
            scopes[op[1]].set_global(op[2], val(op[3]))
            outs.append(None)
        elif op[0] == 'get':
            m = object()
            v = scopes[op[1]].get(op[2], m)
            outs.append('<missing>' if v is m else show(v))
        elif op[0] == 'iter':
            outs.append(list(scopes[op[1]]))
        elif op[0] == 'update':
            scopes[op[1]].update({k['str']: val(v) for k, v in op[2]})
            outs.append(None)
    return outs


# ---- constructive family
def probe(n):
    return "[${%s | 'U'}]" % n


def show(v):
    return html.escape(str(v), quote=False)


def undefined_form(n):
    """what a probe shows for a name no template variable binds"""
    if n == 'target_language':
        return ''          # render() always binds it (to None, which inserts nothing)
    if n in builtins.__dict__:
        return show(getattr(builtins, n))
    return 'U'


def family(rng, count):
    cases = []
    for _ in range(count):
        n = rng.choice(POOL)
        init = rng.choice([None, 'I'])
        kind = rng.choice(['define', 'repeat', 'define-repeat', 'define-define', 'global', 'global-inner', 'tuple', 'tuple-repeat',
                           'macro-global', 'macro-local', 'use-macro-global', 'same-define', 'same-repeat', 'same-define-repeat'])
        v1, v2 = 'V1', 'V2'
        env0 = init if init else None
        P = probe(n)

        def s(v):
            return undefined_form(n) if v is None else v
        if kind == 'define':
            src = '%s<div tal:define="%s \'%s\'">%s</div>%s' % (P, n, v1, P, P)
            exp = '[%s]<div>[%s]</div>[%s]' % (s(env0), v1, s(env0))
        elif kind == 'repeat':
            src = '%s<i tal:repeat="%s [\'r1\', \'r2\']">%s</i>%s' % (P, n, P, P)
            exp = '[%s]<i>[r1]</i><i>[r2]</i>[%s]' % (s(env0), s(env0))
        elif kind == 'define-repeat':
            src = '%s<div tal:define="%s \'%s\'">%s<i tal:repeat="%s [\'r1\']">%s</i>%s</div>%s' % (P, n, v1, P, n, P, P, P)
            exp = '[%s]<div>[%s]<i>[r1]</i>[%s]</div>[%s]' % (s(env0), v1, v1, s(env0))
        elif kind == 'define-define':
            src = '%s<div tal:define="%s \'%s\'">%s<b tal:define="%s \'%s\'">%s</b>%s</div>%s' % (P, n, v1, P, n, v2, P, P, P)
            exp = '[%s]<div>[%s]<b>[%s]</b>[%s]</div>[%s]' % (s(env0), v1, v2, v1, s(env0))
        elif kind == 'same-define':
            # nested elements whose clauses are the same text, character for character
            src = '%s<div tal:define="%s \'%s\'">%s<b tal:define="%s \'%s\'">%s</b>%s</div>%s' % (P, n, v1, P, n, v1, P, P, P)
            exp = '[%s]<div>[%s]<b>[%s]</b>[%s]</div>[%s]' % (s(env0), v1, v1, v1, s(env0))
        elif kind == 'same-repeat':
            src = '%s<i tal:repeat="%s [\'r1\']">%s<b tal:repeat="%s [\'r1\']">%s</b>%s</i>%s' % (P, n, P, n, P, P, P)
            exp = '[%s]<i>[r1]<b>[r1]</b>[r1]</i>[%s]' % (s(env0), s(env0))
        elif kind == 'same-define-repeat':
            # (a one-character string: the definition binds it, the loop iterates over its one character)
            src = '%s<div tal:define="%s \'r\'">%s<i tal:repeat="%s \'r\'">%s</i>%s</div>%s' % (P, n, P, n, P, P, P)
            exp = "[%s]<div>[r]<i>[r]</i>[r]</div>[%s]" % (s(env0), s(env0))
        elif kind == 'global':
            src = '%s<div tal:define="global %s \'%s\'">%s</div>%s' % (P, n, v1, P, P)
            exp = '[%s]<div>[%s]</div>[%s]' % (s(env0), v1, v1)
        elif kind == 'global-inner':
            src = '%s<div><b tal:define="global %s \'%s\'">%s</b>%s</div>%s' % (P, n, v1, P, P, P)
            exp = '[%s]<div><b>[%s]</b>[%s]</div>[%s]' % (s(env0), v1, v1, v1)
        elif kind in ('tuple', 'tuple-repeat'):
            # a second name m, bound or not independently of n
            m = rng.choice([x for x in ['m', 'b', 'q', 'id'] if x != n])
            init_m = rng.choice([None, 'J'])
            Pm = probe(m)

            def sm(v):
                return undefined_form(m) if v is None else v
            if kind == 'tuple':
                src = '%s%s<div tal:define="(%s, %s) (\'%s\', \'%s\')">%s%s</div>%s%s' % (P, Pm, n, m, v1, v2, P, Pm, P, Pm)
                exp = '[%s][%s]<div>[%s][%s]</div>[%s][%s]' % (s(env0), sm(init_m), v1, v2, s(env0), sm(init_m))
            else:
                src = '%s%s<i tal:repeat="(%s, %s) [(\'%s\', \'%s\')]">%s%s</i>%s%s' % (P, Pm, n, m, v1, v2, P, Pm, P, Pm)
                exp = '[%s][%s]<i>[%s][%s]</i>[%s][%s]' % (s(env0), sm(init_m), v1, v2, s(env0), sm(init_m))
            vars_ = ([[n, {'str': init}]] if init else []) + ([[m, {'str': init_m}]] if init_m else [])
            src, exp = with_other(src, exp, [P, Pm])
            cases.append(({'src': src, 'vars': vars_, 'objs': []}, exp, n))
            continue
        elif kind == 'macro-global':
            # a global (re)defined inside an inline macro is visible after the macro, also when it was a global before
            pre = rng.choice(['', '<u tal:define="global %s \'G0\'"></u>' % n])
            src = '%s<div metal:define-macro="mm"><i tal:define="global %s \'%s\'">%s</i></div>%s' % (pre, n, v1, P, P)
            exp = '%s<div><i>[%s]</i></div>[%s]' % ('<u></u>' if pre else '', v1, v1)
        elif kind == 'use-macro-global':
            pre = rng.choice(['', '<u tal:define="global %s \'G0\'"></u>' % n])
            src = ('<tal:block condition="False"><div metal:define-macro="mm"><i tal:define="global %s \'%s\'">%s</i></div></tal:block>'
                   '%s<x metal:use-macro="macros[\'mm\']"/>%s' % (n, v1, P, pre, P))
            exp = '%s<div><i>[%s]</i></div>[%s]' % ('<u></u>' if pre else '', v1, v1)
        else:
            # a macro's local variables never reach the caller
            src = '%s<div metal:define-macro="mm"><i tal:define="%s \'%s\'">%s</i>%s</div>%s' % (P, n, v1, P, P, P)
            exp = '[%s]<div><i>[%s]</i>[%s]</div>[%s]' % (s(env0), v1, s(env0), s(env0))
        # the repeat separator: "\n" + indentation; keep everything on one line and account for it
        if 'repeat' in kind and kind == 'repeat':
            exp = exp.replace('</i><i>', '</i>\n' + ' ' * (len(P) + len(OTHER)) + '<i>')   # "\n" + one space per character of the preceding source line
        vars_ = [[n, {'str': init}]] if init else []
        src, exp = with_other(src, exp, [P])
        cases.append(({'src': src, 'vars': vars_, 'objs': []}, exp, n))
    return cases


MACRO = '<metal:m define-macro="m">(m)</metal:m>'
USE = '<b metal:use-macro="template.macros[\'m\']"/>'
SHOWN = {'1': '1', "'s'": 's', '(3, 4)': '(3, 4)', '[5]': '[5]', 'None': ''}


def multi_case(rng):
    """definitions and loops of 1–3 names, local or global, some of the names already globally defined, with macro calls inside the
    element and after it (a macro call refreshes the scope from the render context): what every name shows inside, and afterwards"""
    names = rng.sample(['a', 'b', 'c', 'd', 'q'], rng.choice([1, 2, 2, 3]))
    vals = [rng.choice(list(SHOWN)) for _ in names]
    kind = rng.choice(['define', 'define', 'repeat'])
    is_global = rng.random() < 0.65
    glob = 'global ' if is_global else ''
    pre_names = [n for n in names if rng.random() < 0.4]
    target = names[0] if len(names) == 1 else '(%s)' % ', '.join(names)
    value = vals[0] if len(names) == 1 else '(%s)' % ', '.join(vals)
    value2 = vals[0] if len(names) == 1 else '(%s)' % ', '.join(reversed(vals))
    shown = ' '.join('${%s}' % n for n in names)
    # a local definition that shadows a global one is D-05f territory once a macro has been called inside it: no call there
    inner_use = USE if (rng.random() < 0.6 and (is_global or not pre_names)) else ''
    iu = '(m)' if inner_use else ''
    pre = ''.join('<i tal:define="global %s \'old-%s\'"/>' % (n, n) for n in pre_names)
    pre_out = '<i/>' * len(pre_names)
    r1 = ' '.join(SHOWN[v] for v in vals)
    r2 = r1 if len(names) == 1 else ' '.join(SHOWN[v] for v in reversed(vals))
    if kind == 'define':
        el = '<div tal:define="%s%s %s">[%s]%s[%s]</div>' % (glob, target, value, shown, inner_use, shown)
        el_out = '<div>[%s]%s[%s]</div>' % (r1, iu, r1)
        last = vals
    else:
        el = '<tal:r repeat="%s%s [%s, %s]">[%s]%s[%s];</tal:r>' % (glob, target, value, value2, shown, inner_use, shown)
        el_out = '[%s]%s[%s];[%s]%s[%s];' % (r1, iu, r1, r2, iu, r2)
        last = vals if len(names) == 1 else list(reversed(vals))
    tail = USE + '[%s]' % ' '.join("${%s | 'U'}" % n for n in names)
    after = []
    for n, v in zip(names, last):
        if is_global:
            after.append(SHOWN[v])
        else:
            after.append('old-%s' % n if n in pre_names else 'U')
    exp = '(m)' + pre_out + el_out + '(m)[%s]' % ' '.join(after)
    return {'src': MACRO + pre + el + tail, 'vars': [], 'objs': []}, exp


def correspondence(ctx):
    # (a) Scope operation sequences
    n = 12 if not ctx.thorough else 40
    seqs = [scope_ops(ctx.rng, ctx.rng.randint(1, n)) for _ in range(ctx.budget(1500, 40000))]
    outs = core.par_batch([{'op': 'scope', 'ops': s} for s in seqs])
    for s, o in zip(seqs, outs):
        exp = run_scope_impl(s)
        if o.get('ok') != exp:
            ctx.disagree('utils.Scope operation sequence', s, model=o, impl=exp)
    ctx.count('correspondence_cases', len(seqs))
    # (b) templates with colliding names
    gen = []
    for _ in range(ctx.budget(1200, 40000)):
        g = talgen.TalGen(ctx.rng, depth=ctx.rng.choice([1, 2, 3]), colliding=True,
                          features={'define', 'repeat', 'condition', 'content', 'interp', 'onerror', 'omit', 'pipes'})
        gen.append(g.template())
    # (c) global definitions of several names (define and repeat), read after a macro call has refreshed the scope from the render context
    multi = [{'src': D05G, 'vars': [], 'objs': []}] + [multi_case(ctx.rng)[0] for _ in range(ctx.budget(160, 4000))]
    pipeline.run_cases(ctx, gen + multi, what='scoping')


def reserved_cases():
    """every reserved name x every way of binding a variable: local / global, single / tuple member (each position),
    first / later clause, tal:define / tal:repeat"""
    try:
        from chameleon.compiler import COMPILER_INTERNALS_OR_DISALLOWED
        internals = sorted(COMPILER_INTERNALS_OR_DISALLOWED)
    except Exception:
        internals = ['econtext', 'rcontext']
    out = []
    for nm in internals + ['__x', '__token']:
        for g in ('', 'global '):
            out.append(('<p tal:define="%s%s 1">x</p>' % (g, nm), nm, True))
            out.append(('<p tal:define="%s(a, %s) (1, 2)">x</p>' % (g, nm), nm, True))
            out.append(('<p tal:define="%s(%s, a) (1, 2)">x</p>' % (g, nm), nm, True))
            out.append(('<p tal:define="a 1; %s%s a">x</p>' % (g, nm), nm, True))
            out.append(('<div><p tal:define="b 2"><i tal:define="%s%s b">x</i></p></div>' % (g, nm), nm, True))
    for nm in internals + ['__token']:
        for g in ('', 'global '):
            out.append(('<p tal:repeat="%s%s xs">x</p>' % (g, nm), nm, True))
            out.append(('<p tal:repeat="%s(a, %s) ((1, 2),)">x</p>' % (g, nm), nm, True))
    return out


def oracle(ctx):
    fam = family(ctx.rng, ctx.budget(1500, 50000))
    impls = pipeline.impl_many([c for c, _, _ in fam])
    nt = set()
    for (case, exp, n), impl in zip(fam, impls):
        ctx.count('evaluations')
        if case['vars'] or n in builtins.__dict__ or n in ('get', 'getname', 're', 'functools', 'intern', 'convert', 'target_language'):
            nt.add(case['src'] + str(case['vars']))
        if impl.get('out') != exp:
            ctx.violation('a local binding is not limited to its element, or a global does not persist, or an outer binding is not restored',
                          case, expected=exp, actual=impl)
    for src, nm, must in reserved_cases():
        r = pipeline.run_impl({'src': src, 'vars': [['xs', {'list': [1]}]]})
        ctx.count('evaluations')
        if not (r.get('exc') == 'TemplateError' and r.get('token') == nm):
            ctx.violation('a name reserved by the compiler is not rejected at compile time with its location', {'src': src},
                          expected='TemplateError with token %r' % nm, actual=r,
                          finding='D-05a2' if nm.startswith('__') and 'tal:repeat' in src else None)
    # D-05f: a macro call (`econtext.update(rcontext)` afterwards) makes a global visible again inside an element that shadows it
    # names that an *earlier* template of this process was given as extra builtins are ordinary variable names for every other template
    from chameleon import PageTemplate
    PageTemplate('<p>${label} ${item}</p>', extra_builtins={'label': 'B1', 'item': 'B2', 'q9': 'B3'})()
    later = [('<p tal:define="label \'L\'">${label}</p>', {}, '<p>L</p>'), ('<b tal:repeat="item [1, 2]">${item}</b>', {}, '<b>1</b>\n<b>2</b>'),
             ('<p>${label}</p>', {'label': 'K'}, '<p>K</p>'), ('<p>${label | \'F\'}</p>', {'label': 'K'}, '<p>K</p>'),
             ('<p tal:define="global q9 7">${q9}</p>[${q9}]', {}, '<p>7</p>[7]'), ('<p>${q9 | \'undefined\'}</p>', {}, '<p>undefined</p>')]
    for src, kw, want in later:
        ctx.count('evaluations')
        try:
            got = PageTemplate(src)(**kw)
        except Exception as e:
            got = {'exc': type(e).__name__, 'msg': str(e).split('\n')[0][:100]}
        if got != want:
            ctx.violation('a name that another template was given as an extra builtin earlier in the process is an ordinary variable name here',
                          {'src': src, 'kwargs': repr(kw), 'earlier': "PageTemplate(…, extra_builtins={'label': …, 'item': …, 'q9': …})"},
                          expected=want, actual=got)
    ms = [multi_case(ctx.rng) for _ in range(ctx.budget(300, 10000))]
    for (case, exp), r in zip(ms, pipeline.impl_many([m[0] for m in ms])):
        ctx.count('evaluations')
        if r.get('out') != exp:
            ctx.violation('a definition or loop of several names, local or global: every name shows its own item inside the element (also after a '
                          'macro call), a global one keeps its last value afterwards, a local one is restored', case, expected=exp, actual=r)
    r = pipeline.run_impl({'src': D05G, 'vars': []})
    ctx.count('evaluations')
    if r.get('out') != D05G_EXPECT:
        ctx.violation('a global definition of several names must give each name its own item, also after a macro call has refreshed the scope',
                      {'src': D05G}, expected=D05G_EXPECT, actual=r)
    r = pipeline.run_impl({'src': D05F, 'vars': []})
    if r.get('out') != D05F_EXPECT:
        ctx.violation('a local definition that shadows a global must stay visible until its element ends (also after a macro was used inside)',
                      {'src': D05F}, expected=D05F_EXPECT, actual=r, finding='D-05f' if r.get('out') == D05F_ACTUAL else None)
    # known findings (re-checked): D-05b, D-05c
    ctx.counters['nontrivial'] = len(nt)
    ctx.sample({'template': fam[0][0]['src'], 'vars': fam[0][0]['vars'], 'expected': fam[0][1]})


# D-05g (fixed in /repo, 34eed14): a global definition of several names kept the whole value under each name in the render context;
# a macro call refreshes the scope from it
D05G = ('<metal:m define-macro="m">(m)</metal:m><div tal:define="global (a, b) (1, 2)">[${a} ${b}]</div>'
        '<b metal:use-macro="template.macros[\'m\']"/>[${a} ${b}]<i tal:define="global (p, q) [\'P\', (3, 4)]; global r q"/>'
        '<b metal:use-macro="template.macros[\'m\']"/>[${p} ${q} ${r}]')
D05G_EXPECT = '(m)<div>[1 2]</div>(m)[1 2]<i/>(m)[P (3, 4) (3, 4)]'
D05F = '<a tal:define="global g \'G\'"></a><div tal:define="g \'L\'">${g}<b metal:define-macro="a">A</b>${g}</div>'
D05F_EXPECT = '<a></a><div>L<b>A</b>L</div>'
D05F_ACTUAL = '<a></a><div>L<b>A</b>G</div>'
FINDINGS = {
    'D-05b': ('<p tal:define="x 1"><i tal:define="global x 2"/></p>[${x | \'U\'}]', {}, '<p><i></i></p>[2]'),
    'D-05h': ('<div tal:define="decode 1">${decode}</div>', {}, '<div>1</div>'),
    'D-05c': ('<p tal:on-error="string:E" tal:define="x 1">${1/0}</p>[${x | \'U\'}]', {}, '<p>E</p>[U]'),
}


def reproduce_finding(ctx, f):
    if f['id'] in FINDINGS:
        src, kw, ideal = FINDINGS[f['id']]
        r = pipeline.run_impl({'src': src, 'vars': []})
        return r.get('out') is not None and r.get('out') != ideal
    return None


def replay(ctx, case):
    v = case.get('violation', case)
    c = v['input']
    if isinstance(c, dict) and 'src' in c:
        impl = pipeline.run_impl({'src': c['src'], 'vars': c.get('vars', []), 'objs': c.get('objs', [])})
        if v.get('expected') is not None and isinstance(v['expected'], str) and impl.get('out') != v['expected']:
            ctx.violation('scoping', c, expected=v['expected'], actual=impl)
        return {'impl': impl, 'expected': v.get('expected')}
    return {'case': c}

"""C18 — template-language markup never leaks and is independent of prefix spelling."""
import re

import core
import pipeline
import talgen

PID = 'C18'
PROOF_MODULES = ['ChamProofs.Props.C18', 'ChamProofs.Ties']
THEOREMS = ['ChamVerif.C18_names_allowed', 'ChamVerif.C18_language_attr_dropped', 'ChamVerif.C18_only_language_dropped',
            'ChamVerif.C18_others_preserved', 'ChamVerif.C18_data_ordinary_untouched', 'ChamVerif.C18_data_control_is_language',
            'ChamVerif.C18_unpack_prefix_invariant', 'ChamVerif.C18_zip_counterexample', 'ChamVerif.C18_quirk_fixed',
            'ChamVerif.tie_dropNs', 'ChamVerif.tie_defaultNamespaces']
LEVEL_TEXT = ('Proved in Lean for every start tag (any attribute list, tal:attributes list and i18n:attributes list): each named entry of '
              'the prepared attribute list is a static attribute that is not dropped, a tal:attributes target or an i18n:attributes name '
              '(C18_names_allowed, invariant over the three phases of prepare_attributes); exactly the attributes whose resolved namespace is a '
              'language namespace, or that declare one, are dropped (C18_language_attr_dropped / C18_only_language_dropped); every other '
              'attribute keeps value, quote, spacing and "=" in source order (C18_others_preserved); the data-attribute conversion never '
              'fails, removes exactly the data-<p>-<name> attributes whose prefix is bound to a language namespace and leaves every other '
              'attribute in place (C18_data_ordinary_untouched, C18_data_control_is_language); the namespaced dictionary a start tag yields '
              'depends on the attributes only through their resolved (URI, local name, value) (C18_unpack_prefix_invariant). '
              'C18_zip_counterexample is the D-18a witness under the old positional pairing. That whole templates render identically '
              'across spellings, and that language elements are omitted, is judged end to end by the metamorphic oracle and by '
              'correspondence of the pipeline model on the re-spelled templates.')
LEVEL_NOTE = ('Trusted: Lean kernel; the pipeline model (validated by correspondence). D-18a (positional pairing, KeyError for data-x-y) was '
              'repaired in /repo (fix: e277656, 94e0279). Known finding D-18b: a namespace declaration leaks out of its element when an '
              'unclosed tag precedes the end tag.')
RULE = ('talgen templates (all statement kinds, macros excluded) with foreign attributes mixed in (declared foreign prefix, xml:lang, data-foo, '
        'data-x-y, default xmlns) x 4 re-spellings (prefix renamed with declarations on a root ancestor; renamed with the declaration on '
        'the element itself; data-<prefix>-<name> with enable_data_attributes; unprefixed on tal:/metal:/i18n: elements) x '
        'enable_data_attributes on/off x restricted_namespace on/off; plus a constructive family of single start tags with expected output '
        'computed directly. Non-trivial iff the template has >= 2 language attributes and >= 1 foreign attribute.')
TRUSTED = []
ASSUMPTIONS = []

TAL = 'http://xml.zope.org/namespaces/tal'
METAL = 'http://xml.zope.org/namespaces/metal'
I18N = 'http://xml.zope.org/namespaces/i18n'
META = 'http://xml.zope.org/namespaces/meta'
URI = {'tal': TAL, 'metal': METAL, 'i18n': I18N, 'meta': META}
FOREIGN = [' xmlns:f="http://f.example/ns" f:a="1"', ' xml:lang="en"', ' data-foo="1"', ' data-x-y="2"', ' data-role="tab"',
           ' xmlns="http://www.w3.org/1999/xhtml"', ' xmlns:g="urn:g"', " data-q='s'", ' data-xml-id="3"']

TAG_RE = re.compile(r'<([A-Za-z][\w:.-]*)((?:\s+[\w:.-]+=(?:"[^"]*"|\'[^\']*\'))*)(\s*/?>)')
ATTR_RE = re.compile(r'(\s+)([\w:.-]+)(=)("[^"]*"|\'[^\']*\')')
LEAK_RE = re.compile(r'(?:\b(?:tal|metal|i18n|meta|t9|m9|i9|p\d+|z\.tal|z\.metal|z\.i18n|z\.meta|zpt-tal|zpt-metal|zpt-i18n|zpt-meta|_t|_m|_i|_e|[\u03c4\u03bc\u03b9\u03b5]):[A-Za-z-]+\s*=|xml\.zope\.org/namespaces/(?:tal|metal|i18n|meta)|data-(?:tal|metal|i18n|meta)-)')


def add_foreign(rng, src):
    """mix foreign attributes into random start tags (same in every spelling)"""
    def sub(m):
        if m.group(1).split(':')[0] in URI or rng.random() < 0.5:
            return m.group(0)
        extra = ''.join(rng.sample(FOREIGN, rng.choice([1, 1, 2])))
        if 'xmlns=' in extra and rng.random() < 0.5:
            extra = extra.replace(' xmlns="http://www.w3.org/1999/xhtml"', '')
        if rng.random() < 0.5:
            return '<' + m.group(1) + extra + m.group(2) + m.group(3)
        return '<' + m.group(1) + m.group(2) + extra + m.group(3)
    return TAG_RE.sub(sub, src)


def respell(src, how, rng):
    """-> (source, cfg, wrap)  wrap: the base must be wrapped the same way"""
    counter = [0]

    def lang(name):
        p = name.split(':')[0]
        return p if (':' in name and p in URI) else None

    if how == 'rename-root':
        # any NCName is a prefix: ASCII, with '.', '-' or '_', beginning with a non-ASCII letter
        newp = rng.choice([{'tal': 't9', 'metal': 'm9', 'i18n': 'i9', 'meta': 'e9'}, {'tal': 't9', 'metal': 'm9', 'i18n': 'i9', 'meta': 'e9'},
                           {'tal': 'z.tal', 'metal': 'z.metal', 'i18n': 'z.i18n', 'meta': 'z.meta'},
                           {'tal': '\u03c4', 'metal': '\u03bc', 'i18n': '\u03b9', 'meta': '\u03b5'},
                           {'tal': 'zpt-tal', 'metal': 'zpt-metal', 'i18n': 'zpt-i18n', 'meta': 'zpt-meta'},
                           {'tal': '_t', 'metal': '_m', 'i18n': '_i', 'meta': '_e'}])

        def sub(m):
            attrs = ATTR_RE.sub(lambda a: a.group(1) + (newp[lang(a.group(2))] + a.group(2)[len(lang(a.group(2))):] if lang(a.group(2)) else a.group(2))
                                + a.group(3) + a.group(4), m.group(2))
            return '<' + m.group(1) + attrs + m.group(3)
        decl = ''.join(' xmlns:%s="%s"' % (newp[k], URI[k]) for k in rng.sample(list(URI), 4))
        return '<div%s>' % decl + TAG_RE.sub(sub, src) + '</div>', {}, ('<div>', '</div>')
    if how == 'rename-local':
        def sub(m):
            used = {}
            def one(a):
                p = lang(a.group(2))
                if not p:
                    return a.group(0)
                if p not in used:
                    counter[0] += 1
                    used[p] = 'p%d' % counter[0]
                return a.group(1) + used[p] + a.group(2)[len(p):] + a.group(3) + a.group(4)
            attrs = ATTR_RE.sub(one, m.group(2))
            decls = [' xmlns:%s="%s"' % (v, URI[k]) for k, v in used.items()]
            if rng.random() < 0.5:
                return '<' + m.group(1) + ''.join(decls) + attrs + m.group(3)
            return '<' + m.group(1) + attrs + ''.join(decls) + m.group(3)
        return TAG_RE.sub(sub, src), {}, None
    if how == 'data':
        def sub(m):
            attrs = ATTR_RE.sub(lambda a: a.group(1) + ('data-' + a.group(2).replace(':', '-', 1) if lang(a.group(2)) else a.group(2))
                                + a.group(3) + a.group(4), m.group(2))
            return '<' + m.group(1) + attrs + m.group(3)
        return TAG_RE.sub(sub, src), {'enable_data_attributes': True}, None
    if how == 'data-partial':
        # only some statements in data spelling: mixed with prefixed ones on the same element
        def sub(m):
            attrs = ATTR_RE.sub(lambda a: a.group(1) + ('data-' + a.group(2).replace(':', '-', 1) if (lang(a.group(2)) and rng.random() < 0.5) else a.group(2))
                                + a.group(3) + a.group(4), m.group(2))
            return '<' + m.group(1) + attrs + m.group(3)
        return TAG_RE.sub(sub, src), {'enable_data_attributes': True}, None
    raise ValueError(how)


def nselem_case(rng):
    """elements *of* a language namespace: their own-namespace attributes may be written without prefix"""
    p = rng.choice(['tal', 'tal', 'metal', 'i18n'])
    pool = {'tal': [('define', 'v 1'), ('condition', rng.choice(['True', 'False', 'x'])), ('repeat', 'i xs'), ('content', rng.choice(['x', 'string:${x}!', 'structure x'])),
                    ('replace', 'x'), ('omit-tag', ''), ('on-error', 'string:E'), ('switch', '1')],
            'metal': [('define-macro', 'mm'), ('define-slot', 's1')],
            'i18n': [('translate', ''), ('domain', 'd1'), ('context', 'c1')]}[p]
    st = rng.sample(pool, rng.randint(1, min(3, len(pool))))
    names = [n for n, _ in st]
    if 'content' in names and 'replace' in names:
        st = [s for s in st if s[0] != 'replace']
    others = []
    if p != 'tal' and rng.random() < 0.6:
        others.append(('tal:' + rng.choice(['condition', 'define']), rng.choice(['True', 'w 2'])))
        if others[0][0] == 'tal:condition':
            others[0] = ('tal:condition', 'True')
        else:
            others[0] = ('tal:define', 'w 2')
    foreign = rng.choice(['', ' data-foo="1"', ' xml:lang="en"'])
    # bodies that raise make the tal:on-error fallback run (it rebuilds the element's tags)
    body = rng.choice(['t', '<b>${x}</b>', 'a<i tal:content="x"/>b', '<b>${nosuch}</b>', 'a<i tal:content="x.nosuch"/>b'])
    style = rng.choice(['prefix', 'prefix', 'renamed', 'default-ns'])
    uri = {'tal': TAL, 'metal': METAL, 'i18n': I18N}[p]
    if style == 'prefix':
        tag, open_, close, ap = p + ':' + rng.choice(['block', 'x', 'omit']), '', '', p
    elif style == 'renamed':
        tag, open_, close, ap = 'q7:' + rng.choice(['block', 'x']), '<div xmlns:q7="%s">' % uri, '</div>', 'q7'
    else:
        # an unprefixed element of the language namespace; the prefixed spelling of its statements uses the default prefix
        tag, open_, close, ap = rng.choice(['zblock', 'zx']), '', '', p
        foreign = ' xmlns="%s"' % uri + foreign
    pre = '<%s%s' % (tag, foreign) + ''.join(' %s="%s"' % (n, v) for n, v in others)
    a = open_ + pre + ''.join(' %s:%s="%s"' % (ap, n, v) for n, v in st) + '>' + body + '</%s>' % tag + close
    b = open_ + pre + ''.join(' %s="%s"' % (n, v) for n, v in st) + '>' + body + '</%s>' % tag + close
    return a, b, tag


LANG_NEUTRAL = [' tal:define="v 1"', ' tal:condition="True"', ' i18n:domain="d"', ' meta:interpolation="true"', ' metal:define-macro="m1"',
                ' xmlns:tal="%s"' % TAL, ' xmlns:i18n="%s"' % I18N, ' xmlns:metal="%s"' % METAL, ' xmlns:zz="%s"' % TAL, ' zz:omit-tag="nothing"',
                ' data-tal-define="u 2"', ' data-i18n-context="c"', ' tal:omit-tag="python: False"', ' data-meta-interpolation="false"']


def direct_case(rng):
    """one start tag, language attributes that do not change the result mixed with foreign ones: expected computed directly"""
    parts = rng.sample(FOREIGN + [' class="c"', ' Id="I"', " title='a&amp;b'", '  href="x"', ' disabled="disabled"'], rng.randint(1, 4))
    langs = rng.sample(LANG_NEUTRAL, rng.randint(1, 4))
    if rng.random() < 0.3:
        # foreign names that differ from language ones only by letter case (XML names are case sensitive)
        k = rng.choice([0, 1, 2])
        parts.append([' xmlns:ZZ="urn:zz" ZZ:omit-tag="kept"', ' xmlns:TAL="urn:other" TAL:define="kept"', ' xmlns:I18N="urn:i" I18N:domain="kept"'][k])
        langs.append([' zz:omit-tag="nothing"', ' tal:define="v 1"', ' i18n:domain="d"'][k])
        langs = list(dict.fromkeys(langs))
    if ' data-meta-interpolation="false"' in langs and ' meta:interpolation="true"' in langs:
        langs.remove(' meta:interpolation="true"')
    data = any('data-tal' in l or 'data-i18n' in l or 'data-meta' in l for l in langs)
    # the meta statement in data form switches interpolation off for the element's text (and must not reach the output)
    body = 'x${7}' if data and ' data-meta-interpolation="false"' in langs else 'x7'
    if any(' zz:' in l for l in langs) and not any('xmlns:zz' in l for l in langs):
        langs.append(' xmlns:zz="%s"' % TAL)
    seq = [(p, True) for p in parts] + [(l, False) for l in langs]
    rng.shuffle(seq)
    # a prefix must be declared on the element or an ancestor: put declarations first for zz when needed is not required
    # (update_namespace runs over all attributes before resolution)
    src = '<a' + ''.join(s for s, _ in seq) + '>x${7}</a>'
    exp = '<a' + ''.join(s for s, keep in seq if keep) + '>%s</a>' % body
    cfg = {'enable_data_attributes': True} if data else rng.choice([{}, {'enable_data_attributes': True}])
    return {'src': src, 'vars': [], 'objs': [], 'cfg': cfg}, exp


def rebinding_case(rng):
    """enable_data_attributes with one prefix bound to a language namespace in one place and to a foreign namespace in another
    (siblings in either order, nested re-binding): data-<prefix>-<name> is a statement exactly where the prefix means a language"""
    k = [0]

    def leaf(lang):
        k[0] += 1
        v = 'V%d' % k[0]
        if lang:
            return '<p data-w-content="\'%s\'" data-role="r">old</p>' % v, '<p data-role="r">%s</p>' % v
        return '<p data-w-content="\'%s\'" data-w-size="3">old</p>' % v, '<p data-w-content="\'%s\'" data-w-size="3">old</p>' % v

    def block(depth, inherited):
        # inherited: None (w unbound: data-w-* are ordinary attributes), True (language), False (foreign)
        src, out = [], []
        for _ in range(rng.randint(1, 3)):
            r = rng.random()
            if r < 0.45 or depth <= 0:
                if inherited is None and rng.random() < 0.5:
                    a, b = leaf(False)
                else:
                    a, b = leaf(bool(inherited))
                src.append(a)
                out.append(b)
            else:
                lang = rng.random() < 0.5
                uri = rng.choice([TAL, TAL, I18N]) if lang else rng.choice([OTHER, 'urn:w'])
                if lang and uri == I18N:
                    # data-w-content under an i18n binding would be an unknown i18n attribute: use only ordinary children there
                    inner_s, inner_o = block(depth - 1, None) if False else ('<i data-role="x">t</i>', '<i data-role="x">t</i>')
                    src.append('<section xmlns:w="%s">%s</section>' % (uri, inner_s))
                    out.append('<section>%s</section>' % inner_o)
                    continue
                inner_s, inner_o = block(depth - 1, lang)
                src.append('<section xmlns:w="%s">%s</section>' % (uri, inner_s))
                out.append(('<section>%s</section>' if lang else '<section xmlns:w="%s">%%s</section>' % uri) % inner_o)
        return ''.join(src), ''.join(out)
    a, b = block(rng.choice([1, 2, 3]), None)
    return {'src': '<div>%s</div>' % a, 'vars': [], 'objs': [], 'cfg': {'enable_data_attributes': True}}, '<div>%s</div>' % b


OTHER = 'http://example.org/other'


def scope_tree(rng, binding, depth, dflt=None):
    """namespace declarations are scoped to the element that carries them (self-closing ones too):
    -> (source, expected) with `binding` the URI the prefix q has here (None: unbound), `dflt` the default namespace"""
    src, exp = [], []
    for _ in range(rng.randint(1, 3)):
        r = rng.random()
        if r < 0.2:
            t = rng.choice(['t', ' ', 'é'])
            src.append(t)
            exp.append(t)
            continue
        tag = rng.choice(['div', 'p', 'br', 'img', 'li'])
        decl = rng.choice([None, None, TAL, OTHER])
        here = decl if decl else binding
        use = rng.random() < 0.6
        selfclose = rng.random() < 0.4
        dd = None
        if rng.random() < 0.15:
            dd = rng.choice([TAL, OTHER])       # default namespace declaration: <tag xmlns=...>
        attrs_src = []
        attrs_exp = []
        if decl:
            a = ' xmlns:q="%s"' % decl
            attrs_src.append(a)
            if decl != TAL:
                attrs_exp.append(a)
        if dd:
            a = ' xmlns="%s"' % dd
            attrs_src.append(a)
            if dd != TAL:
                attrs_exp.append(a)
        content = None
        if use and here is not None:
            a = ' q:content="\'V\'"'
            attrs_src.append(a)
            if here == TAL:
                content = 'V'
            else:
                attrs_exp.append(a)
        # an unprefixed attribute on an element whose default namespace is TAL would be a statement: keep a harmless one
        plain = rng.random() < 0.4
        eff_default = dd if dd else dflt
        if plain and eff_default != TAL:
            attrs_src.append(' class="c"')
            attrs_exp.append(' class="c"')
        if rng.random() < 0.5:
            z = list(zip(attrs_src, [x in attrs_exp for x in attrs_src]))
            rng.shuffle(z)
            attrs_src = [x for x, _ in z]
            attrs_exp = [x for x, k in z if k]
        omit = eff_default == TAL         # an element of the TAL namespace is omitted
        if selfclose or depth == 0:
            src.append('<%s%s />' % (tag, ''.join(attrs_src)))
            if content is not None:
                exp.append(content if omit else '<%s%s>%s</%s>' % (tag, ''.join(attrs_exp), content, tag))
            else:
                exp.append('' if omit else '<%s%s />' % (tag, ''.join(attrs_exp)))
        else:
            ks, ke = scope_tree(rng, here, depth - 1, eff_default)
            src.append('<%s%s>%s</%s>' % (tag, ''.join(attrs_src), ks, tag))
            inner = content if content is not None else ke
            exp.append(inner if omit else '<%s%s>%s</%s>' % (tag, ''.join(attrs_exp), inner, tag))
    return ''.join(src), ''.join(exp)


FEATURES = {'define', 'condition', 'repeat', 'switch', 'content', 'replace', 'omit', 'attributes', 'onerror', 'interp', 'pipes', 'prefixes'}


def base_template(rng):
    g = talgen.TalGen(rng, depth=rng.choice([1, 2]), features=FEATURES)
    t = g.template()
    t['src'] = add_foreign(rng, t['src'])
    return t


def n_lang(src):
    return len(re.findall(r'\s(?:tal|metal|i18n|meta):[a-z-]+=', src))


def variants(rng, t):
    out = []
    for how in ('rename-root', 'rename-local', 'data', 'data-partial'):
        s, cfg, wrap = respell(t['src'], how, rng)
        base = t['src'] if not wrap else wrap[0] + t['src'] + wrap[1]
        out.append((how, base, s, cfg))
    return out


def correspondence(ctx):
    cases = []
    for _ in range(ctx.budget(500, 15000)):
        t = base_template(ctx.rng)
        for how, base, s, cfg in variants(ctx.rng, t):
            c = dict(t, src=s)
            c['cfg'] = dict(cfg, restricted_namespace=ctx.rng.choice([True, False]))
            cases.append(c)
    for _ in range(ctx.budget(300, 8000)):
        cases.append(direct_case(ctx.rng)[0])
    for _ in range(ctx.budget(200, 6000)):
        cases.append(rebinding_case(ctx.rng)[0])
    for _ in range(ctx.budget(400, 10000)):
        a, b = scope_tree(ctx.rng, None, ctx.rng.choice([1, 2, 3]))
        cases.append({'src': '<html>%s</html>' % a, 'vars': [], 'objs': [], 'cfg': {'restricted_namespace': False}})
    for _ in range(ctx.budget(150, 4000)):
        a, b, _tag = nselem_case(ctx.rng)
        for s in (a, b):
            cases.append({'src': s, 'vars': [['x', {'str': '<X>'}], ['xs', {'list': [1, 2]}]], 'objs': []})
    pipeline.run_cases(ctx, cases, what='prefix spelling / language attributes')


def strip(r):
    d = {k: r.get(k) for k in ('out', 'exc', 'cls', 'msg', 'log') if k in r}
    if 'errors' in r:
        d['error_expressions'] = [e[0] for e in r['errors']]      # positions move with the spelling
    return d


def oracle(ctx):
    nt = 0
    hist = {}
    ts = [base_template(ctx.rng) for _ in range(ctx.budget(900, 30000))]
    jobs = []
    meta = []
    for t in ts:
        for how, base, s, cfg in variants(ctx.rng, t):
            rn = ctx.rng.choice([True, False])
            jobs.append(dict(t, src=base, cfg=dict(cfg, restricted_namespace=rn)))
            jobs.append(dict(t, src=s, cfg=dict(cfg, restricted_namespace=rn)))
            if how.startswith('data'):
                # the option must not change the base (ordinary data-* attributes are left alone)
                jobs.append(dict(t, src=base, cfg={'restricted_namespace': rn}))
            meta.append((how, t, base, s, cfg))
    res = pipeline.impl_many(jobs)
    i = 0
    for how, t, base, s, cfg in meta:
        rb, rs = res[i], res[i + 1]
        i += 2
        roff = None
        if how.startswith('data'):
            roff = res[i]
            i += 1
        ctx.count('evaluations', 2 if roff is None else 3)
        hist[how] = hist.get(how, 0) + 1
        if n_lang(t['src']) >= 2 and any(f.strip().split('=')[0] in t['src'] for f in FOREIGN):
            nt += 1
        inp = {'spelling': how, 'base': base, 'respelled': s, 'vars': t['vars'], 'objs': t['objs'], 'cfg': cfg}
        if rb.get('exc') == 'TemplateError' and rs.get('exc') == 'TemplateError':
            if (rb.get('cls'), rb.get('msg')) != (rs.get('cls'), rs.get('msg')):
                ctx.violation('a re-spelled template is rejected differently', inp, expected=strip(rb), actual=strip(rs))
            continue
        if strip(rb) != strip(rs):
            ctx.violation('a template renders differently when its statements are written with another spelling of the same namespace',
                          inp, expected=strip(rb), actual=strip(rs))
            continue
        if roff is not None and strip(roff) != strip(rb):
            ctx.violation('enable_data_attributes changes the rendering of a template without data-<language prefix> attributes',
                          inp, expected=strip(roff), actual=strip(rb))
            continue
        out = rs.get('out')
        if out is not None:
            m = LEAK_RE.search(out)
            if m:
                ctx.violation('language markup reaches the output: %r' % m.group(0), inp, actual=out)
    # namespace-element form
    pairs = [nselem_case(ctx.rng) for _ in range(ctx.budget(400, 12000))]
    vars_ = [['x', {'str': '<X>'}], ['xs', {'list': [1, 2]}]]
    ra = pipeline.impl_many([{'src': a, 'vars': vars_, 'objs': []} for a, b, tag in pairs])
    rb = pipeline.impl_many([{'src': b, 'vars': vars_, 'objs': []} for a, b, tag in pairs])
    for (a, b, tag), x, y in zip(pairs, ra, rb):
        ctx.count('evaluations', 2)
        nt += 1
        hist['ns-element'] = hist.get('ns-element', 0) + 1
        if strip(x) != strip(y):
            ctx.violation('unprefixed statements on an element of the language namespace render differently from prefixed ones',
                          {'prefixed': a, 'unprefixed': b}, expected=strip(x), actual=strip(y))
        elif x.get('out') is not None and (LEAK_RE.search(x['out']) or re.search(r'</?(?:tal|metal|i18n):', x['out'])
                                           or re.search(r'</?%s\b' % re.escape(tag), x['out'])):
            ctx.violation('a language element or attribute reaches the output', {'prefixed': a}, actual=x['out'])
    # direct family
    ds = [direct_case(ctx.rng) for _ in range(ctx.budget(1500, 50000))]
    rd = pipeline.impl_many([d[0] for d in ds])
    for (case, exp), r in zip(ds, rd):
        ctx.count('evaluations')
        nt += 1
        hist['direct'] = hist.get('direct', 0) + 1
        if r.get('out') != exp:
            ctx.violation('start tag: language attributes/declarations must vanish, every other attribute must be preserved verbatim',
                          {'src': case['src'], 'cfg': case['cfg']}, expected=exp, actual=strip(r))
    # data-<prefix>-* under re-bound prefixes
    rs_ = [rebinding_case(ctx.rng) for _ in range(ctx.budget(500, 20000))]
    rr = pipeline.impl_many([d[0] for d in rs_])
    for (case, exp), r in zip(rs_, rr):
        ctx.count('evaluations')
        nt += 1 if case['src'].count('xmlns:w') >= 2 else 0
        hist['data-rebinding'] = hist.get('data-rebinding', 0) + 1
        if r.get('out') != exp:
            ctx.violation('enable_data_attributes: data-<prefix>-<name> is a statement exactly where <prefix> is bound to a language namespace; '
                          'elsewhere it is an ordinary attribute and stays', {'src': case['src'], 'cfg': case['cfg']}, expected=exp, actual=strip(r))
    # scoping of declarations
    sc = [scope_tree(ctx.rng, None, ctx.rng.choice([1, 2, 3])) for _ in range(ctx.budget(1500, 50000))]
    rsc = pipeline.impl_many([{'src': '<html>%s</html>' % a, 'vars': [], 'objs': [], 'cfg': {'restricted_namespace': False}} for a, b in sc])
    for (a, b), r in zip(sc, rsc):
        ctx.count('evaluations')
        nt += 1 if 'xmlns' in a else 0
        hist['scoping'] = hist.get('scoping', 0) + 1
        if r.get('out') != '<html>%s</html>' % b:
            ctx.violation('a namespace declaration must bind its prefix (or the default namespace) for its own element and descendants only',
                          {'src': '<html>%s</html>' % a, 'cfg': {'restricted_namespace': False}}, expected='<html>%s</html>' % b, actual=strip(r))
    ctx.cov['spelling_histogram'] = hist
    ctx.counters['nontrivial'] = nt
    ctx.sample({'base': meta[0][2], 'respelled': meta[0][3], 'spelling': meta[0][0]})
    # D-18c: a default-namespace declaration of a language namespace on an element with a foreign prefix
    r = pipeline.run_impl({'src': D18C, 'vars': [], 'objs': []})
    if r.get('out') != D18C_EXPECT:
        ctx.violation('a declaration of a template-language namespace reaches the output', {'src': D18C}, expected=D18C_EXPECT, actual=strip(r),
                      finding='D-18c' if r.get('out') == D18C.replace('<block content="\'a\'"/>', 'a') else None)
    # D-18b
    r = pipeline.run_impl(dict(D18B, vars=[], objs=[]))
    if r.get('out') != D18B_EXPECT:
        ctx.violation('a namespace declaration leaks out of its element', {'src': D18B['src']}, expected=D18B_EXPECT, actual=strip(r),
                      finding='D-18b' if r.get('out') == '<div><br></div><p>1</p>' else None)


D18C = '<x:div xmlns:x="urn:x" xmlns="%s"><block content="\'a\'"/></x:div>' % TAL
D18C_EXPECT = '<x:div xmlns:x="urn:x">a</x:div>'
D18B = {'src': '<div xmlns:t="%s"><br></div><p t:content="1">x</p>' % TAL, 'cfg': {'restricted_namespace': False}}
D18B_EXPECT = '<div><br></div><p t:content="1">x</p>'


def reproduce_finding(ctx, f):
    return None


def replay(ctx, case):
    v = case.get('violation', case)
    c = v['input']
    if 'respelled' in c:
        a = pipeline.run_impl({'src': c['base'], 'vars': c['vars'], 'objs': c['objs'], 'cfg': c['cfg']})
        b = pipeline.run_impl({'src': c['respelled'], 'vars': c['vars'], 'objs': c['objs'], 'cfg': c['cfg']})
        if strip(a) != strip(b):
            ctx.violation('spelling', c, expected=strip(a), actual=strip(b))
        return {'base': strip(a), 'respelled': strip(b)}
    if 'src' in c:
        r = pipeline.run_impl({'src': c['src'], 'vars': [], 'objs': [], 'cfg': c.get('cfg', {})})
        if v.get('expected') is not None and r.get('out') != v['expected']:
            ctx.violation('start tag', c, expected=v['expected'], actual=strip(r))
        return {'impl': strip(r)}
    return {'case': c}

"""C01 — TAL statements render with the language semantics, in one fixed order."""
import itertools
import re

import core
import pipeline
import talgen

PID = 'C01'
PROOF_MODULES = ['ChamProofs.Props.C01', 'ChamProofs.Props.C01Perm', 'ChamProofs.Props.C01Sem', 'ChamProofs.Fuel',
                 'ChamProofs.Props.C01Spec']
THEOREMS = ['ChamVerif.C01_wrapOrder_observed', 'ChamVerif.C01_order', 'ChamVerif.applyWrappers_perm', 'ChamVerif.nsGet_perm',
            'ChamVerif.nsGet_stmtPerm', 'ChamVerif.prepare_stmtPerm', 'ChamVerif.C01_element_order', 'ChamVerif.C01_program_order',
            'ChamVerif.parseTag_wf', 'ChamVerif.C01_default_keeps', 'ChamVerif.C01_content_value', 'ChamVerif.C01_none_removes',
            'ChamVerif.Fuel.fuel_mono', 'ChamVerif.Fuel.eval_fuel_ok', 'ChamVerif.wrappers_shape', 'ChamVerif.elementPost_tal',
            'ChamVerif.C01_element_semantics', 'ChamVerif.C01_element_ok', 'ChamVerif.C01_element_raised',
            'ChamVerif.elementPost_shape', 'ChamVerif.wrappers_shape_full', 'ChamVerif.C01_element_semantics_full']
LEVEL_TEXT = ('Proved in Lean: the nesting order of the statement nodes on one element is the one observed on the real MacroProgram in this '
              'run (C01_wrapOrder_observed, regenerated probe), in that order definitions precede every guard and condition precedes repeat '
              '(C01_order), the wrappers are applied by kind, not by the order they were collected (applyWrappers_perm), and statement '
              'attributes are looked up by key so that any permutation with distinct keys gives the same lookups (nsGet_perm). On the whole '
              'program builder of the model (visit_element with every statement, METAL and i18n included): two parsed documents that differ '
              'only in where statement attributes are written inside their start tags - any number of elements, any depth, the other '
              'attributes and the namespace declarations keeping their relative order, no statement given twice - build the same program, body '
              'node and macros, whenever the first builds (C01_program_order; per element C01_element_order, from: the statement dictionary '
              'has the same lookups (nsGet_stmtPerm) and prepare_attributes sees the same list (prepare_stmtPerm); parseTag_wf: parser '
              'records meet the hypothesis). The attribute records carry their source positions, so this is order-independence of the '
              'builder for the same records; that positions only reach error locations is left to correspondence. On the interpreter, for the '
              'node _make_content_node builds for tal:content / tal:replace, any expression, default content, scope and state: the default '
              'marker renders exactly the original content, evaluated once (C01_default_keeps); any other value replaces it by its escaped or '
              'converted string form without evaluating the original (C01_content_value); None emits nothing (C01_none_removes). '
              'Refinement to a statement semantics: Spec.specElement (lean/ChamVerif/Spec.lean) says what one element renders, statement by '
              'statement in the prescribed order - definitions (attrs, then each tal:define clause, locals restored afterwards), tal:case, '
              'tal:condition, tal:repeat (once per item, separator, loop variable restored), tal:switch, tal:replace, tal:omit-tag with the '
              'start/end tags, tal:content - and C01_element_semantics proves, for every element of that fragment (children arbitrary), every '
              'scope and state, that whenever the interpreter reaches a verdict on the node the program builder assembles (elementPost, the '
              'second half of visit_element) it is the verdict of specElement: same output, scope, logs or exception (C01_element_ok / '
              '_raised); wrappers_shape: the nesting is define > case > condition > repeat > switch > replace > tags > content. '
              'C01_element_semantics_full removes the restriction: for *every* element (any combination of TAL, METAL, i18n statements and '
              'tal:on-error; elementPost_shape: the builder always succeeds with ElemStmts.fullNode) the interpreter\'s verdict is that of '
              'Spec.specFull - on-error > i18n:name > (in-place use of a defined macro |) define-slot > define > case > condition > repeat > '
              'switch > i18n:domain > context > target > replace > tags > content (wrappers_shape_full); a macro use, the in-place use of a '
              'defined macro and a static i18n:translate with its collected names are opaque in that statement. fuel_mono '
              '(whole interpreter, all node kinds): the fuel argument of the interpreter is only a termination device - a verdict reached with '
              'fuel f is reached with every larger fuel - so the fuel-indexed theorems speak about the one rendering of a node. The whole '
              'pipeline model (tokens, elements, nodes, interpreter) is tied to the code by end-to-end correspondence on generated '
              'templates x bindings (output and evaluation log); the language rules themselves are judged on the implementation by an '
              'independent constructive reference semantics and by the attribute-permutation metamorphic oracle.')
LEVEL_NOTE = ('Trusted: Lean kernel; probe extraction; that the interpreter models the generated Python (validated by correspondence). '
              'The refinement theorem covers the TAL statements of one element (no METAL / i18n / tal:on-error on the element itself); the start tag '
              'with its attributes and the expressions are evaluated by the same functions on both sides (C07 / C04 speak about those); the '
              'harness keeps an independent constructive reference for the implementation side.')
RULE = ('(a) talgen templates (every statement kind, nesting <= 3, 11 value classes) for model/implementation correspondence; '
        '(b) constructive family: one element with every subset of {define, condition, repeat, content|replace, omit-tag, attributes}, '
        'values None/default/falsy/truthy/str, expected text computed from the language rules; (c) 3 random permutations of the statement '
        'attributes of every start tag. Non-trivial iff some element carries >= 2 statements.')
TRUSTED = ['the harness reference semantics of the TAL rules (independent restatement from the language reference)']
ASSUMPTIONS = []

TAG_RE = re.compile(r'<([A-Za-z][\w.-]*)((?:\s+[\w:.-]+="[^"]*")+)(\s*/?)>')
ATTR_RE = re.compile(r'\s+([\w:.-]+)="([^"]*)"')


def permute_attrs(src, rng):
    """shuffle the statement attributes of every start tag, keeping the static attributes' relative order"""
    def repl(m):
        attrs = ATTR_RE.findall(m.group(2))
        stat = [(n, v) for n, v in attrs if not n.startswith(('tal:', 'i18n:', 'metal:'))]
        lang = [(n, v) for n, v in attrs if n.startswith(('tal:', 'i18n:', 'metal:'))]
        rng.shuffle(lang)
        out = list(stat)
        for a in lang:
            out.insert(rng.randint(0, len(out)), a)
        # insertion may have reordered nothing among static ones (they keep relative order)
        return '<' + m.group(1) + ''.join(' %s="%s"' % kv for kv in out) + m.group(3) + '>'
    return TAG_RE.sub(repl, src)


# ---- constructive reference family --------------------------------------------------------------------
VALS = {'N': ('None', None), 'D': ('default', 'default'), 'F': ("''", ''), 'Z': ('0', 0), 'T': ("'t<'", 't<'), 'L': ('[1, 2]', [1, 2])}


def esc(s):
    return s.replace('&', '&amp;').replace('<', '&lt;').replace('>', '&gt;')


def family():
    """(src, expected) for one <p> with static attribute and child text, for all statement subsets"""
    cases = []
    for cond, rep, content, replace, omit, attrs, define in itertools.product(
            [None, 'T', 'F', 'N'], [None, 'L', 'N', 'E'], [None, 'N', 'D', 'T', 'Z'], [None, 'N', 'D', 'T'], [None, '', 'T', 'F'],
            [None, 'N', 'D', 'T'], [None, 'x']):
        if content and replace:
            continue
        stm = []
        if define:
            stm.append(('tal:define', "x 't<'"))
        if cond:
            stm.append(('tal:condition', {'T': "x == 't<'" if define else "'y'", 'F': "''", 'N': 'None'}[cond]))
        if rep:
            stm.append(('tal:repeat', 'i ' + {'L': '[1, 2]', 'N': 'None', 'E': '[]'}[rep]))
        if content:
            stm.append(('tal:content', VALS[content][0]))
        if replace:
            stm.append(('tal:replace', VALS[replace][0]))
        if omit is not None:
            stm.append(('tal:omit-tag', {'': '', 'T': "'y'", 'F': "''"}[omit]))
        if attrs:
            stm.append(('tal:attributes', 'class ' + VALS[attrs][0]))
        src = 'A<p class="s"' + ''.join(' %s="%s"' % (n, v.replace('<', '&lt;')) for n, v in stm) + '>body</p>B'
        # ---- the language rules
        def one():
            if replace:
                v = VALS[replace][1]
                if v is None:
                    return ''
                if v != 'default':
                    return esc(str(v))
            # attributes
            cls = ' class="s"'
            if attrs:
                v = VALS[attrs][1]
                if v is None:
                    cls = ''
                elif v != 'default':
                    cls = ' class="%s"' % esc(str(v))
            inner = 'body'
            if content:
                v = VALS[content][1]
                if v is None:
                    inner = ''
                elif v != 'default':
                    inner = esc(str(v))
            omitted = omit == '' or omit == 'T'
            return inner if omitted else '<p%s>%s</p>' % (cls, inner)
        if cond in ('F', 'N'):
            body = ''
        elif rep in ('N', 'E'):
            body = ''
        elif rep == 'L':
            body = one() + '\n ' + one()    # repeated elements are separated by "\n" + the indentation of the current line ("A")
        else:
            body = one()
        cases.append(({'src': src, 'vars': [], 'objs': []}, 'A' + body + 'B', len(stm)))
    return cases


def samename_case(rng):
    """one name used by several statements of one element — as the condition, the iterable *and* the loop variable, the content or
    replacement, the omit-tag flag, an attribute value, a definition of itself — with an outer binding of that name (a variable, an
    enclosing definition or an enclosing loop on the same name): every statement must see the binding its position in the order
    define / condition / repeat / content prescribes"""
    n = rng.choice(['x', 'item', 'v'])
    stm = []
    if rng.random() < 0.3:
        stm.append(('tal:define', '%s %s' % (n, rng.choice([n, '%s[:1]' % n, 'list(%s) + [\'z\']' % n]))))
    if rng.random() < 0.6:
        stm.append(('tal:condition', rng.choice([n, n, 'len(%s)' % n, 'not: %s' % n])))
    if rng.random() < 0.8:
        stm.append(('tal:repeat', '%s %s' % (n, n)))
    k = rng.randrange(4)
    if k == 0:
        stm.append(('tal:content', rng.choice([n, 'text %s' % n, 'structure %s' % n])))
    elif k == 1:
        stm.append(('tal:replace', rng.choice([n, 'text %s' % n])))
    if rng.random() < 0.25:
        stm.append(('tal:omit-tag', rng.choice([n, 'not: %s' % n])))
    if rng.random() < 0.4:
        stm.append(('tal:attributes', 'title %s' % n))
    rng.shuffle(stm)
    el = '<li class="s"' + ''.join(' %s="%s"' % kv for kv in stm) + '>[${%s}]</li>' % n
    rows = [rng.choice([['a', 'b'], ['c'], [], ['d', None], [['e', 'f'], ['g']], ['<&>']]) for _ in range(rng.randint(1, 3))]
    shape = rng.randrange(3)
    if shape == 0:
        src = '<ul tal:repeat="%s rows">%s</ul>(${%s | \'U\'})' % (n, el, n)
        vars_ = [['rows', to_spec(rows)]]
    elif shape == 1:
        src = '<ul tal:define="%s rows[0]">%s(${%s})</ul>' % (n, el, n)
        vars_ = [['rows', to_spec(rows)]]
    else:
        src = '<ul>%s</ul>(${%s})' % (el, n)
        vars_ = [[n, to_spec(rows[0])]]
    return {'src': src, 'vars': vars_, 'objs': []}


def to_spec(v):
    if isinstance(v, list):
        return {'list': [to_spec(x) for x in v]}
    if isinstance(v, str):
        return {'str': v}
    return v


def correspondence(ctx):
    gen = [samename_case(ctx.rng) for _ in range(ctx.budget(400, 15000))]
    for _ in range(ctx.budget(1500, 60000)):
        g = talgen.TalGen(ctx.rng, depth=ctx.rng.choice([1, 2, 3]))
        gen.append(g.template())
    res = pipeline.run_cases(ctx, gen, what='TAL rendering')
    ctx.cov['generator_stats'] = {}
    ctx.keep = [(c, i) for c, m, i in res]


def judge_disagreement(ctx, d):
    """C01 *is* "render() returns the text the language prescribes": the formal model with the ideal
    quirk settings is that prescription, so a template on which the implementation differs from it is a
    failing input of the property (not just of the correspondence)."""
    case = d['input']
    if not isinstance(case, dict) or 'src' not in case:
        return
    c = {'src': case['src'], 'vars': case.get('vars') or [], 'objs': case.get('objs') or []}
    ideal = core.Driver().batch([pipeline.model_req(c, quirks='ideal')])[0].get('ok', {})
    impl = pipeline.run_impl(c)
    if 'unsupported' in ideal:
        return
    if pipeline.compare({'ok': ideal}, impl):
        ctx.violation('rendering differs from the formal TAL semantics (model with ideal quirk settings): ' + d['what'],
                      c, expected=ideal, actual=impl)


def oracle(ctx):
    nt = set()
    fam = family()
    ctx.cov['family_size'] = len(fam)
    ctx.cov['exhaustive'] = True
    step = 1 if ctx.thorough or ctx.escalate else 3
    sel = fam[ctx.seed % step::step]
    impls = pipeline.impl_many([c for c, _, _ in sel])
    permd = [dict(c, src=permute_attrs(c['src'], ctx.rng)) for c, _, _ in sel]
    impls_p = pipeline.impl_many(permd)
    for (case, exp, nstm), impl, p, ip in zip(sel, impls, permd, impls_p):
        ctx.count('evaluations', 2)
        if nstm >= 2:
            nt.add(case['src'])
        if impl.get('out') != exp:
            ctx.violation('rendering differs from what the TAL rules prescribe (define, guards, content/replace, omit-tag/attributes; '
                          'None removes, default keeps)', case, expected=exp, actual=impl)
        if ip.get('out') != impl.get('out'):
            ctx.violation('result depends on the order of the statement attributes in the start tag',
                          {'src': case['src'], 'permuted': p['src']}, expected=impl, actual=ip)
    # tal:repeat renders the items its iterable had when the loop was entered: a body that grows or shrinks the sequence changes neither
    # the number of repetitions nor what repeat.x reports (length, end, the separators between repetitions)
    from chameleon import PageTemplate
    MUT = [('<li tal:repeat="x xs">${x}${(xs.append(\'b\') if 4 > len(xs) else None) or \'\'}:${repeat.x.length}:${repeat.x.end}</li>', lambda: {'xs': ['a']}, '<li>a:1:1</li>'),
           ('<li tal:repeat="x xs">${x}${xs.pop() and \'\'}</li>', lambda: {'xs': [1, 2, 3, 4]}, '<li>1</li>\n<li>2</li>\n<li>3</li>\n<li>4</li>'),
           ('<li tal:repeat="x xs">${x}/${repeat.x.number}${xs.remove(x) or \'\'}</li>', lambda: {'xs': ['p', 'q', 'r']},
            '<li>p/1</li>\n<li>q/2</li>\n<li>r/3</li>'),
           ('<tal:r repeat="k d">${k}${d.pop(k) and \'\'}</tal:r>', lambda: {'d': {'a': 1, 'b': 2}}, 'ab'),
           ('<li tal:repeat="x xs">${x}${(xs.insert(0, \'z\') if 5 > len(xs) else None) or \'\'}</li>', lambda: {'xs': ['m', 'n']}, '<li>m</li>\n<li>n</li>')]
    for src, mk, want in MUT:
        ctx.count('evaluations')
        try:
            got = PageTemplate(src)(**mk())
        except Exception as e:
            got = {'exc': type(e).__name__, 'msg': str(e).split('\n')[0][:100]}
        if got != want:
            ctx.violation('tal:repeat over a sequence that the loop body changes: the repetitions, repeat.x and the separators follow the items the '
                          'sequence had when the loop was entered', {'src': src, 'kwargs': repr(mk())}, expected=want, actual=got)
    # the family written with data-tal-* statements (enable_data_attributes) among ordinary data-* attributes, in every
    # rotation of the start tag's attributes: same text, the ordinary attributes preserved, the statements gone
    dcases, dexp = [], []
    for case, exp, nstm in sel[ctx.seed % 5::5]:
        m = TAG_RE.search(case['src'])
        if not m or nstm == 0:
            continue
        attrs = ATTR_RE.findall(m.group(2))
        items = [('data-' + n.replace(':', '-', 1), v) if n.startswith('tal:') else (n, v) for n, v in attrs]
        items = [items[0], ('data-id', '7')] + items[1:] + [('data-bs-x', 'y')]
        r = ctx.rng.randrange(len(items))
        rot = items[r:] + items[:r]
        src = case['src'][:m.start()] + '<' + m.group(1) + ''.join(' %s="%s"' % kv for kv in rot) + m.group(3) + '>' + case['src'][m.end():]
        # expected: the plain family's text with the two ordinary attributes where the rotation puts them (static attributes keep
        # their order of appearance)
        stat = ''.join(' %s="%s"' % kv for kv in rot if not kv[0].startswith('data-tal-') and kv[0] != 'class')
        want = exp
        if '<p' in exp:
            # the element's tag is shown: class (possibly dynamic/dropped) stays where it was among the static attributes
            order = [kv[0] for kv in rot if not kv[0].startswith('data-tal-')]
            import re as _re
            def fix(mm):
                cls = mm.group(1) or ''
                parts = {'class': cls, 'data-id': ' data-id="7"', 'data-bs-x': ' data-bs-x="y"'}
                return '<p' + ''.join(parts[k] for k in order) + '>'
            want = _re.sub(r'<p( class="[^"]*")?>', fix, exp)
        dcases.append({'src': src, 'vars': [], 'objs': [], 'cfg': {'enable_data_attributes': True}})
        dexp.append(want)
    for c, want, impl in zip(dcases, dexp, pipeline.impl_many(dcases)):
        ctx.count('evaluations')
        if impl.get('out') != want:
            ctx.violation('with enable_data_attributes the data-tal-* spelling must render like the tal: spelling, whatever the position of '
                          'ordinary data-* attributes in the start tag', c, expected=want, actual=impl)
    # permutation relation on generated templates
    base, perms = [], []
    for _ in range(ctx.budget(400, 20000)):
        g = talgen.TalGen(ctx.rng, depth=ctx.rng.choice([1, 2, 3]))
        c = g.template()
        for _ in range(2):
            p = dict(c, src=permute_attrs(c['src'], ctx.rng))
            if p['src'] != c['src']:
                base.append(c)
                perms.append(p)
    ra = pipeline.impl_many(base)
    rb = pipeline.impl_many(perms)
    for c, p, a, b in zip(base, perms, ra, rb):
        ctx.count('evaluations', 2)
        nt.add(c['src'])
        ka = {k: a.get(k) for k in ('out', 'exc', 'cls', 'log')}
        kb = {k: b.get(k) for k in ('out', 'exc', 'cls', 'log')}
        if a.get('exc') == 'TemplateError':
            ka.pop('log'), kb.pop('log')
        if ka != kb:
            ctx.violation('result depends on the order of the statement attributes in the start tag',
                          {'src': c['src'], 'permuted': p['src'], 'vars': c['vars'], 'objs': c['objs']}, expected=ka, actual=kb)
    ctx.counters['nontrivial'] = len(nt)
    ctx.sample({'template': fam[100][0]['src'], 'expected': fam[100][1]})


def replay(ctx, case):
    v = case.get('violation', case)
    c = v['input']
    out = {'impl': pipeline.run_impl({'src': c['src'], 'vars': c.get('vars', []), 'objs': c.get('objs', [])})}
    if 'permuted' in c:
        out['impl_permuted'] = pipeline.run_impl({'src': c['permuted'], 'vars': c.get('vars', []), 'objs': c.get('objs', [])})
        if out['impl'].get('out') != out['impl_permuted'].get('out'):
            ctx.violation('result depends on the order of the statement attributes', c)
    elif v.get('expected') is not None and out['impl'].get('out') != v['expected']:
        ctx.violation('rendering differs from the TAL rules', c, expected=v['expected'], actual=out['impl'])
    return out

"""C10 — i18n: message ids, mappings and translation context are computed correctly."""
import re

import core
import pipeline
import talgen

PID = 'C10'
PROOF_MODULES = ['ChamProofs.Props.C10', 'ChamProofs.Props.C10Scope', 'ChamProofs.Props.C10Offer', 'ChamProofs.Props.C10Dyn']
THEOREMS = ['ChamVerif.C10_dynamic_text_once', 'ChamVerif.C10_dynamic_number_once', 'ChamVerif.C10_translate_once', 'ChamVerif.C10_translate_explicit', 'ChamVerif.C10_empty_not_translated', 'ChamVerif.C10_name_emits_placeholder',
            'ChamVerif.C10_collapse_idempotent', 'ChamVerif.C10_domain_restored', 'ChamVerif.I18n.neutral_all', 'ChamVerif.C10_settings_scoped',
            'ChamVerif.C10_on_error_leaks', 'ChamVerif.C10_other_offered', 'ChamVerif.C10_plain_not_offered',
            'ChamVerif.C10_conversion_offers_once', 'ChamVerif.C10_conversion_plain', 'ChamVerif.C10_false_boolean_not_offered']
LEVEL_TEXT = ('Proved in Lean on the interpreter model: evaluating a Translate node whose body renders calls the translation function exactly once '
              'more than its body does, with msgid = default = the body\'s output with white space collapsed and trimmed, the mapping of the '
              'names collected in the body and the frame\'s domain/context/target, and emits exactly what the function returns '
              '(C10_translate_once); with an explicit id the id is passed and the computed text is the default (C10_translate_explicit); '
              'a body that renders to nothing is not translated (C10_empty_not_translated); an i18n:name child contributes the placeholder '
              '${name} to the enclosing message and its own markup to the mapping (C10_name_emits_placeholder). Settings: for every node, scope, '
              'state and fuel, whenever an evaluation completes every function frame has the domain, context and target language it had '
              'before, provided the node contains no tal:on-error at its own function level — a setting is in force exactly inside the '
              'element that makes it, across macro calls, slot fillers, repeats and translations (C10_settings_scoped, from neutral_all: '
              'induction on the fuel over the four mutually recursive evaluator functions and every node kind); the proviso is necessary: '
              'C10_on_error_leaks is the D-10a witness, decided by kernel evaluation of the model. Inserted values: a value whose class is not None / marker / bytes / str / exact int / '
              '__html__ object is offered to the translation function exactly once per insertion, before the conversion, with its string form and the frame\'s '
              'domain, context and target language, at every insertion site (C10_other_offered, C10_conversion_offers_once); every other value is inserted '
              'without a call (C10_plain_not_offered, C10_conversion_plain); a false value of a boolean attribute is dropped unconverted and unoffered '
              '(C10_false_boolean_not_offered). The full contract (nested translations, names under condition/repeat/omit-tag, '
              'i18n:attributes, implicit translation, macro/slot settings) is judged by a constructive oracle over an i18n grammar that '
              'predicts the ordered call log and the output for three translation functions, and the model is tied to the code by '
              'correspondence of call logs.'
              ' An element whose dynamic content is itself the message (tal:content / tal:replace with i18n:translate=""): a string value is handed over once, as a message, and the answer is inserted; a number is handed over as it is, once, and not offered again by the conversion (C10_dynamic_text_once, C10_dynamic_number_once; objects and sequences are in the model and tied by correspondence).')
LEVEL_NOTE = ('Trusted: Lean kernel; the interpreter model. The offering of non-string inserted values is in the model since round 7 (TCall.offered; the call log of the correspondence contains '
              'those calls, 500 generated templates per quick run over every value class x insertion site x settings); float values are not in the model (oracle only). '
              'Settings across macro calls and slot fillers are in the model (macroEnter / fillerEnter; C10_settings_scoped). Known finding D-10a: settings made inside an element that fails under tal:on-error stay in force. D-14a (mapping '
              'order) was repaired in /repo (fix: aef6a17).')
RULE = ('templates from an i18n grammar: translate with/without explicit id, nested translate, 0..3 named children under condition / repeat / '
        'omit-tag / content, domain/context/target on any ancestor, i18n:attributes with and without ids, implicit_i18n_translate / '
        'implicit_i18n_attributes on/off, inserted values of 7 classes x translation functions {simple, recording-rewriting, markup-returning}. '
        'Non-trivial iff the template has a named child or a domain/context/target setting and >= 2 translations.')
TRUSTED = []
ASSUMPTIONS = []

WS = [' ', '  ', '\n  ', ' \t ', '']
WORDS = ['Hello', 'big  world', 'a&amp;b', 'x', 'tail.', 'é']


REPEAT_LEAD = ' x '
REPEAT_SEP = '\n' + ' ' * len(REPEAT_LEAD)


def collapse(s):
    return re.sub(r'\s+', ' ', s).strip()


class Gen:
    """builds (source, expected) by construction; expected is produced by `render(translate)`"""

    def __init__(self, rng):
        self.rng = rng
        self.k = 0
        self.used = [set()]     # names of the i18n:name children of the translation being built (unique per translation only)

    def text(self):
        r = self.rng
        return r.choice(WS) + r.choice(WORDS) + r.choice(WS)

    def name_child(self, settings, depth):
        """-> (source, node) node: dict(kind='name', name, ...)"""
        r = self.rng
        self.k += 1
        # a nested translation may reuse the names of the one around it
        name = r.choice([x for x in ('a', 'b', 'n%d' % self.k, 'n%d' % self.k) if x not in self.used[-1]])
        self.used[-1].add(name)
        tag = r.choice(['b', 'i', 'em'])
        wrap = r.choice(['plain', 'plain', 'cond-true', 'cond-false', 'repeat', 'omit', 'content'])
        inner_src, inner = self.body_parts(settings, depth - 1, allow_names=False, n=r.randint(1, 2))
        attrs = ' i18n:name="%s"' % name
        node = {'kind': 'name', 'name': name, 'tag': tag, 'wrap': wrap, 'inner': inner}
        if wrap == 'cond-true':
            attrs += ' tal:condition="yes"'
        elif wrap == 'cond-false':
            attrs += ' tal:condition="no"'
        elif wrap == 'repeat':
            attrs += ' tal:repeat="it items"'
        elif wrap == 'omit':
            attrs += ' tal:omit-tag=""'
        elif wrap == 'content':
            attrs += ' tal:content="who"'
        return '<%s%s>%s</%s>' % (tag, attrs, inner_src, tag), node

    def body_parts(self, settings, depth, allow_names, n):
        r = self.rng
        src, nodes = [], []
        run = ''            # the text token (source form) since the last tag
        for _ in range(n):
            x = r.random()
            if allow_names and x < 0.35:
                s, nd = self.name_child(settings, depth)
                if nd['wrap'] == 'repeat':
                    # the separator between iterations is derived from the last line of the text token before the element
                    src.append(REPEAT_LEAD)
                    nodes.append({'kind': 'text', 'text': REPEAT_LEAD})
                    run += REPEAT_LEAD
                    nd['sep'] = '\n' + ' ' * len(run.rsplit('\n', 1)[-1])
            elif x < 0.5:
                s = '${who}'
                nd = {'kind': 'value', 'value': 'W&amp;ho'}
            elif x < 0.6 and depth > 0:
                s, nd = self.element(settings, depth - 1, force_translate=True)
            else:
                s = self.text()
                nd = {'kind': 'text', 'text': s}
            run = run + s if nd['kind'] in ('text', 'value') else ''
            src.append(s)
            nodes.append(nd)
        return ''.join(src), nodes

    def element(self, settings, depth, force_translate=False):
        r = self.rng
        tag = r.choice(['p', 'div', 'span', 'li'])
        st = dict(settings)
        attrs = ''
        if r.random() < 0.3:
            st['domain'] = r.choice(['d1', 'd2'])
            attrs += ' i18n:domain="%s"' % st['domain']
        if r.random() < 0.2:
            st['context'] = r.choice(['c1', 'c2'])
            attrs += ' i18n:context="%s"' % st['context']
        if r.random() < 0.2:
            st['target'] = r.choice(['de', 'fr'])
            attrs += ' i18n:target="string:%s"' % st['target']
        static = []
        if r.random() < 0.35:
            static.append(('title', r.choice(['A title', 'T  t'])))
        if r.random() < 0.2:
            static.append(('alt', 'Alt'))
        tattrs = []
        if static and r.random() < 0.7:
            for n_, v in static:
                if r.random() < 0.7:
                    tattrs.append((n_, r.choice([None, 'id-' + n_])))
            if tattrs:
                attrs += ' i18n:attributes="%s"' % '; '.join(n_ if i is None else '%s %s' % (n_, i) for n_, i in tattrs)
        attrs += ''.join(' %s="%s"' % kv for kv in static)
        translate = force_translate or r.random() < 0.6
        msgid = None
        if translate:
            msgid = r.choice([None, None, 'msg-%d' % r.randint(1, 3)])
            attrs += ' i18n:translate="%s"' % (msgid or '')
            self.used.append(set())
            src, nodes = self.body_parts(st, depth, allow_names=True, n=r.randint(0, 4))
            self.used.pop()
        else:
            src, nodes = [], []
            parts = []
            for _ in range(r.randint(0, 3)):
                if depth > 0 and r.random() < 0.6:
                    s, nd = self.element(st, depth - 1)
                else:
                    s = self.text()
                    nd = {'kind': 'text', 'text': s}
                parts.append(s)
                nodes.append(nd)
            src = ''.join(parts)
        node = {'kind': 'element', 'tag': tag, 'settings': st, 'static': static, 'tattrs': tattrs, 'translate': translate, 'msgid': msgid, 'children': nodes,
                'attr_src': attrs}
        return '<%s%s>%s</%s>' % (tag, attrs, src, tag), node


def html_escape_attr(s):
    return s.replace('&', '&amp;').replace('<', '&lt;').replace('>', '&gt;').replace('"', '&quot;')


class Ref:
    """reference renderer: produces the output and the ordered call log for a translation function"""

    def __init__(self, translate, items):
        self.translate = translate
        self.calls = []
        self.items = items

    def call(self, msgid, st, mapping=None, default=None):
        kw = {'msgid': msgid, 'mapping': mapping, 'default': default, 'domain': st.get('domain'), 'context': st.get('context'), 'target': st.get('target')}
        self.calls.append(kw)
        return self.translate(**kw)

    def node(self, nd, mapping_out=None):
        k = nd['kind']
        if k == 'text':
            return nd['text']
        if k == 'value':
            return nd['value']
        if k == 'name':
            return self.name(nd, mapping_out)
        return self.element(nd)

    def name(self, nd, mapping_out):
        tag = nd['tag']
        wrap = nd['wrap']

        def once():
            inner = 'W&amp;ho' if wrap == 'content' else ''.join(self.node(c) for c in nd['inner'])
            if wrap == 'omit':
                return inner
            return '<%s>%s</%s>' % (tag, inner, tag)
        # the name wraps every other statement of its element: the placeholder always appears once, the mapping holds
        # whatever the element rendered (nothing under a false condition, all iterations of a repeat)
        if wrap == 'cond-false':
            mapping_out[nd['name']] = ''
        elif wrap == 'repeat':
            mapping_out[nd['name']] = nd['sep'].join(once() for _ in self.items)
        else:
            mapping_out[nd['name']] = once()
        return '${%s}' % nd['name']

    def element(self, nd):
        st = nd['settings']
        # attributes: static ones, translated when listed
        attrs = ''
        tmap = dict(nd['tattrs'])
        for n_, v in nd['static']:
            if n_ in tmap:
                mid = tmap[n_]
                res = self.call(mid if mid else v, st, default=v)
                attrs += ' %s="%s"' % (n_, res)          # what the function returns is what appears
            else:
                attrs += ' %s="%s"' % (n_, v)
        if nd['translate']:
            names = [c['name'] for c in nd['children'] if c['kind'] == 'name']
            mapping = {n_: '' for n_ in names}
            body = ''.join(self.node(c, mapping) for c in nd['children'])
            computed = collapse(body)
            if nd['msgid']:
                inner = self.call(nd['msgid'], st, mapping=mapping if names else None, default=computed)
            elif computed:
                inner = self.call(computed, st, mapping=mapping if names else None, default=computed)
            else:
                inner = ''
        else:
            inner = ''.join(self.node(c) for c in nd['children'])
        return '<%s%s>%s</%s>' % (nd['tag'], attrs, inner, nd['tag'])


def simple(msgid, mapping=None, default=None, **kw):
    s = default if default is not None else msgid
    if mapping:
        s = re.sub(r'\$\{(\w+)\}', lambda m: mapping.get(m.group(1), m.group(0)), s)
    return s


def rewriting(msgid, mapping=None, default=None, domain=None, context=None, target=None):
    return '[%s|%s|%s|%s]' % (msgid, domain, context, target)


def markup(msgid, mapping=None, default=None, **kw):
    return '<t>&amp; $${x} %d</t>' % len(msgid)


FUNCS = {'simple': simple, 'rewriting': rewriting, 'markup': markup}


def run_real(src, func_name, items, cfg=None):
    from chameleon import PageTemplate
    calls = []
    f = FUNCS[func_name]

    def translate(msgid, domain=None, mapping=None, context=None, target_language=None, default=None):
        if not isinstance(msgid, str):
            calls.append({'msgid_type': type(msgid).__name__, 'domain': domain, 'context': context, 'target': target_language})
            return msgid
        calls.append({'msgid': str(msgid), 'mapping': None if mapping is None else {k: str(v) for k, v in mapping.items()},
                      'default': None if default is None else str(default), 'domain': domain, 'context': context, 'target': target_language})
        return f(msgid=msgid, mapping=mapping, default=default, domain=domain, context=context, target=target_language)
    try:
        t = PageTemplate(src, translate=translate, **(cfg or {}))
        out = t(yes=True, no=False, items=items, who='W&ho')
    except Exception as e:
        return {'exc': type(e).__name__, 'msg': str(e).split('\n')[0][:100]}, calls
    return {'out': out}, calls


IMPL_EXPRS = [('who', 'W&amp;ho', True), ('n', '3', True), ('who.upper()', 'W&amp;HO', False), ('n + 1', '4', False), (' who ', 'W&amp;ho', False),
              ('n-n', '0', True), ('who | n', 'W&amp;ho', False)]


def implicit_case(rng):
    """implicit translation of interpolated text and attributes: translated (message id with ${name} placeholders, mapping of the
    converted values) iff every ${...} of the run is a simple name and the run is more than a lone expression"""
    def run():
        pieces = []
        for _ in range(rng.randint(1, 4)):
            if rng.random() < 0.55:
                pieces.append(('e',) + rng.choice(IMPL_EXPRS))
            else:
                pieces.append(('t', rng.choice(['Hello ', ' and ', 'x', ' - ', '  two  words ', '$$', '.'])))
        # merge adjacent literals (they are one constant for the Interpolator)
        merged = []
        for pc in pieces:
            if pc[0] == 't' and merged and merged[-1][0] == 't':
                merged[-1] = ('t', merged[-1][1] + pc[1])
            else:
                merged.append(pc)
        return merged

    def render(merged, on, calls, st, attr=False):
        src = ''.join('${%s}' % pc[1] if pc[0] == 'e' else pc[1] for pc in merged)
        exprs = [pc for pc in merged if pc[0] == 'e']
        if not exprs:
            # "$$" is not collapsed in an attribute value without ${...} (known finding D-06a, judged under C06)
            text = src if attr else src.replace('$$', '$')
            return src, text, 'plain'
        if on and all(pc[3] for pc in exprs) and len(merged) >= 2:
            msgid = ''.join('${%s}' % pc[1] if pc[0] == 'e' else pc[1].replace('$$', '$') for pc in merged)
            mapping = {}
            for pc in exprs:
                mapping[pc[1]] = pc[2]
            calls.append({'msgid': msgid, 'mapping': mapping, 'default': None, 'domain': st, 'context': None, 'target': None})
            return src, '[%s|%s]' % (msgid, ','.join('%s=%s' % kv for kv in sorted(mapping.items()))), 'translated'
        return src, ''.join(pc[2] if pc[0] == 'e' else pc[1].replace('$$', '$') for pc in merged), 'untranslated'
    tr_text = rng.random() < 0.7
    tr_attr = rng.random() < 0.7
    dom = rng.choice([None, 'dd'])
    calls = []
    # attribute first (attributes are evaluated before the content)
    a_run = run()
    # the attribute may also be listed in i18n:attributes (without an id): then it is translated once, as a whole - message id and default
    # are the rendered value, no mapping - whether or not it is an implicit one as well
    explicit = rng.random() < 0.3
    if explicit:
        a_src, a_out, a_kind = render(a_run, False, [], dom, attr=True)
        if a_out:
            calls.append({'msgid': a_out, 'mapping': None, 'default': a_out, 'domain': dom, 'context': None, 'target': None})
            a_out = '[%s|]' % a_out
        a_kind = 'explicit'
    else:
        a_src, a_out, a_kind = render(a_run, tr_attr, calls, dom, attr=True)
    if a_kind == 'plain':
        if tr_attr and a_out:
            calls.append({'msgid': a_out, 'mapping': None, 'default': a_out, 'domain': dom, 'context': None, 'target': None})
            a_out = '[%s|]' % a_out
    t_run = run()
    t_src, t_out, t_kind = render(t_run, tr_text, calls, dom)
    if t_kind == 'plain' and tr_text:
        m = re.search(r'(\s*)(.*\S)(\s*)', t_out, flags=re.DOTALL)
        if m is not None:
            norm = re.sub(r'\s+', ' ', m.group(2))
            calls.append({'msgid': norm, 'mapping': None, 'default': norm, 'domain': dom, 'context': None, 'target': None})
            t_out = m.group(1) + '[%s|]' % norm + m.group(3)
    src = '<p%s%s title="%s">%s</p>' % (' i18n:domain="dd"' if dom else '', ' i18n:attributes="title"' if explicit else '', a_src, t_src)
    exp = '<p title="%s">%s</p>' % (a_out, t_out)
    cfg = {'implicit_i18n_translate': tr_text}
    if tr_attr:
        cfg['implicit_i18n_attributes'] = ['title']
    nontrivial = 'translated' in (a_kind, t_kind) or (len([p for p in a_run + t_run if p[0] == 'e']) >= 2)
    return src, cfg, exp, calls, nontrivial


def run_implicit(src, cfg):
    from chameleon import PageTemplate
    calls = []

    def translate(msgid, domain=None, mapping=None, context=None, target_language=None, default=None):
        if not isinstance(msgid, str):
            return msgid
        calls.append({'msgid': str(msgid), 'mapping': None if mapping is None else {k: str(v) for k, v in mapping.items()},
                      'default': None if default is None else str(default), 'domain': domain, 'context': context, 'target': target_language})
        return '[%s|%s]' % (msgid, ','.join('%s=%s' % kv for kv in sorted((mapping or {}).items())))
    c = dict(cfg)
    if 'implicit_i18n_attributes' in c:
        c['implicit_i18n_attributes'] = set(c['implicit_i18n_attributes'])
    try:
        out = PageTemplate(src, translate=translate, **c)(who='W&ho', n=3)
    except Exception as e:
        return {'exc': type(e).__name__, 'msg': str(e).split('\n')[0][:100]}, calls
    return {'out': out}, calls


def make(rng):
    g = Gen(rng)
    src, node = g.element({}, rng.choice([1, 2]))
    items = rng.choice([[1], [1, 2], []])
    return src, node, items


OFFER_VARS = [['who', {'str': 'W&ho'}], ['n', 3], ['yes', True], ['no', False], ['items', {'list': [1, {'str': 'a<b'}]}], ['empty', {'list': []}],
              ['tup', {'tuple': [1, 2]}], ['dic', {'dict': [[{'str': 'k'}, 1]]}], ['o', {'obj': 0}], ['h', {'obj': 1}], ['falsy', {'obj': 2}],
              ['nothing2', None], ['attrs_d', {'dict': [[{'str': 'title'}, {'obj': 0}], [{'str': 'id'}, {'list': [1]}], [{'str': 'lang'}, {'str': 's'}]]}]]
OFFER_OBJS = [{'str': 'ob<j', 'truthy': True, 'attrs': [], 'items': []}, {'str': 'hh', 'truthy': True, 'html': '<h/>', 'attrs': [], 'items': []},
              {'str': 'fal&sy', 'truthy': False, 'attrs': [], 'items': []}]


def offer_case(rng):
    """inserted values of every class at every kind of insertion site, under i18n settings made by ancestors, inside
    translated elements and named children: which of them reach the translation function, with which settings, in which order"""
    names = [v[0] for v in OFFER_VARS if v[0] != 'attrs_d']

    def site():
        v = rng.choice(names)
        k = rng.randrange(13)
        if k == 10:
            # dynamic content that is itself the message: the value is the message id, offered once
            return '<p tal:content="%s" i18n:translate="">d</p>' % v
        if k == 11:
            return '<p tal:replace="%s" i18n:translate="">d</p>' % v
        if k == 12:
            return '<p tal:content="structure %s" i18n:translate="">d</p>' % v
        if k == 0:
            return '${%s}' % v
        if k == 1:
            return '<p tal:content="%s">d</p>' % v
        if k == 2:
            return '<p title="${%s}"/>' % v
        if k == 3:
            return '<p tal:attributes="title %s"/>' % v
        if k == 4:
            return '<p tal:replace="%s">d</p>' % v
        if k == 5:
            return '<p tal:content="structure %s">d</p>' % v
        if k == 6:
            return '<input tal:attributes="checked %s"/>' % v
        if k == 7:
            return '<p tal:attributes="attrs_d"/>'
        if k == 8:
            return '<p title="a ${%s} b ${%s}">t ${%s} u</p>' % (v, rng.choice(names), rng.choice(names))
        return '<p tal:define="z %s" tal:content="z"/>' % v

    def block(depth):
        parts = [site() for _ in range(rng.randint(1, 3))]
        body = ''.join(parts)
        r = rng.random()
        if depth > 0 and r < 0.5:
            body += block(depth - 1)
        w = rng.randrange(7)
        if w == 0:
            return '<div i18n:domain="dz%d">%s</div>' % (depth, body)
        if w == 1:
            return '<div i18n:context="cx%d">%s</div>' % (depth, body)
        if w == 2:
            return '<div i18n:target="string:de%d">%s</div>' % (depth, body)
        if w == 3:
            return '<span i18n:translate="">Say %s now</span>' % body
        if w == 4:
            return '<span i18n:translate="">A <b i18n:name="x%d">%s</b> B</span>' % (depth, body)
        if w == 5:
            return '<div tal:repeat="i [1, 2]" i18n:domain="rp">%s</div>' % body
        return '<div>%s</div>' % body
    src = '<html>%s</html>' % ''.join(block(rng.choice([0, 1, 2])) for _ in range(rng.randint(1, 2)))
    return {'src': src, 'vars': OFFER_VARS, 'objs': OFFER_OBJS, 'translate': 'record', 'cfg': {}}


def correspondence(ctx):
    cases = [offer_case(ctx.rng) for _ in range(ctx.budget(500, 15000))]
    for _ in range(ctx.budget(1500, 40000)):
        src, node, items = make(ctx.rng)
        cases.append({'src': src, 'vars': [['yes', True], ['no', False], ['items', {'list': items}], ['who', {'str': 'W&ho'}]], 'objs': [],
                      'translate': 'record', 'cfg': {}})
    # implicit translation options
    for _ in range(ctx.budget(300, 8000)):
        src, node, items = make(ctx.rng)
        cfg = {'implicit_i18n_translate': ctx.rng.random() < 0.6}
        if ctx.rng.random() < 0.6:
            cfg['implicit_i18n_attributes'] = ['title']
        cases.append({'src': src, 'vars': [['yes', True], ['no', False], ['items', {'list': items}], ['who', {'str': 'W&ho'}]], 'objs': [],
                      'translate': 'record', 'cfg': cfg})
    for _ in range(ctx.budget(300, 8000)):
        src, cfg, exp, calls, _ = implicit_case(ctx.rng)
        cases.append({'src': src, 'vars': [['who', {'str': 'W&ho'}], ['n', 3]], 'objs': [], 'translate': 'record', 'cfg': cfg})
    pipeline.run_cases(ctx, cases, what='i18n', with_tlog=True)


def dynamic_message_cases(ctx):
    """an element whose dynamic content is itself the message (tal:content / tal:replace with i18n:translate=""): the translation
    function is called exactly once, with the value as it is (a message object, a number, a string), and what it returns appears"""
    from chameleon import PageTemplate

    class Msg:
        def __init__(self, text):
            self.text = text

        def __str__(self):
            return self.text
    for stmt in ('tal:content="m"', 'tal:replace="m"', 'tal:content="structure m"', 'tal:content="text m"'):
        for val, typ, shown in ((Msg('Guten Tag'), 'Msg', '[de: Guten Tag]'), ('greeting', 'str', '[de: greeting]'), (5, 'int', '5'), (Msg('a<b'), 'Msg', '[de: a&lt;b]')):
            calls = []

            def tr(msgid, domain=None, mapping=None, context=None, target_language=None, default=None):
                calls.append((type(msgid).__name__, str(msgid)))
                if isinstance(msgid, (Msg, str)):
                    return '[de: %s]' % msgid
                return msgid if default is None else default
            src = '<div><p %s i18n:translate="">d</p></div>' % stmt
            if 'structure' in stmt:
                shown = shown.replace('&lt;', '<')
            want = '<div><p>%s</p></div>' % shown if 'replace' not in stmt else '<div>%s</div>' % shown
            ctx.count('evaluations')
            try:
                got = PageTemplate(src, translate=tr)(m=val)
            except Exception as e:
                got = {'exc': type(e).__name__, 'msg': str(e).split('\n')[0][:100]}
            if got != want or calls != [(typ, str(val))]:
                ctx.violation('dynamic content with i18n:translate="": the translation function is called once, with the value as message id, and its '
                              'answer appears in the output', {'src': src, 'm': '%s(%r)' % (typ, str(val))},
                              expected={'out': want, 'calls': [(typ, str(val))]}, actual={'out': got, 'calls': calls})


def oracle(ctx):
    nt = 0
    hist = {}
    dynamic_message_cases(ctx)
    for _ in range(ctx.budget(2500, 80000)):
        src, node, items = make(ctx.rng)
        fname = ctx.rng.choice(list(FUNCS))
        ref = Ref(FUNCS[fname], items)
        exp_out = ref.element(node)
        real, calls = run_real(src, fname, items)
        ctx.count('evaluations')
        hist[fname] = hist.get(fname, 0) + 1
        if ('i18n:name' in src or 'i18n:domain' in src or 'i18n:context' in src) and len(ref.calls) >= 2:
            nt += 1
        inp = {'src': src, 'function': fname, 'items': items}
        if calls != ref.calls:
            ctx.violation('the translation function is not called exactly once per translated element/attribute with the computed msgid, '
                          'mapping, default and the nearest enclosing domain/context/target', inp, expected=ref.calls, actual=calls)
            continue
        if real.get('out') != exp_out:
            ctx.violation('what the translation function returns is not what appears in the output', inp, expected=exp_out, actual=real)
    # implicit translation of interpolated text / attributes
    for _ in range(ctx.budget(600, 20000)):
        src, cfg, exp, calls, nontriv = implicit_case(ctx.rng)
        real, rcalls = run_implicit(src, cfg)
        ctx.count('evaluations')
        nt += 1 if nontriv else 0
        inp = {'src': src, 'cfg': cfg, 'implicit': True}
        if rcalls != calls:
            ctx.violation('implicit translation: a text or attribute is translated (message id with ${name} placeholders, mapping) iff all of '
                          'its ${...} are simple names and it is more than a lone expression', inp, expected=calls, actual=rcalls)
        elif real.get('out') != exp:
            ctx.violation('implicit translation: what the translation function returns is not what appears in the output', inp,
                          expected=exp, actual=real)
    # the translation function that is called is the one of *this* render() call: several calls on one template object with
    # different functions (with and without an encoding in effect, on the template or on the call)
    from chameleon import PageTemplate
    seq_src = '<p i18n:translate="">Hello</p><i title="T" i18n:attributes="title">x</i><b>${obj}</b>'

    class _O:
        def __str__(self):
            return 'obj'
    for ctor in ({}, {'encoding': 'utf-8'}, {'encoding': 'latin-1'}):
        for call_enc in (None, 'utf-8'):
            tpl = PageTemplate(seq_src, **ctor)
            for rnd in range(3):
                tag = 'T%d' % rnd
                seen = []

                def tr(msgid, domain=None, mapping=None, context=None, target_language=None, default=None, _tag=tag, _seen=seen):
                    _seen.append(msgid if isinstance(msgid, str) else type(msgid).__name__)
                    return '[%s:%s]' % (_tag, msgid) if isinstance(msgid, str) else msgid
                kw = {'translate': tr}
                if call_enc:
                    kw['encoding'] = call_enc
                ctx.count('evaluations')
                nt += 1
                try:
                    out = tpl(obj=_O(), **kw)
                except Exception as e:
                    out = 'raised %s' % type(e).__name__
                want = '<p>[%s:Hello]</p><i title="[%s:T]">x</i><b>obj</b>' % (tag, tag)
                if out != want or seen != ['Hello', 'T', '_O']:
                    ctx.violation('the translation function passed to this render() call must be the one that is called (once per message), '
                                  'also on the second and third call on one template object', {'src': seq_src, 'constructor': ctor,
                                  'render_encoding': call_enc, 'call_number': rnd + 1}, expected={'out': want, 'calls': ['Hello', 'T', '_O']},
                                  actual={'out': out, 'calls': seen})
                    break
    # inserted values that are not str / number / __html__ are offered to the translation function
    from chameleon import PageTemplate

    class H:
        def __html__(self):
            return '<h/>'

    class O:
        def __str__(self):
            return 'obj'
    vals = [('str', 'a<b', False), ('int', 3, False), ('float', 1.5, False), ('bool', True, True), ('list', [1], True), ('html', H(), False),
            ('obj', O(), True), ('none', None, False), ('dict', {'a': 1}, True)]
    for label, v, offered in vals:
        for src in ('<p i18n:domain="dz">${v}</p>', '<p i18n:domain="dz" tal:content="v"/>', '<p i18n:domain="dz" title="${v}"/>',
                    '<p i18n:domain="dz" tal:attributes="title v"/>', '<p i18n:domain="dz" tal:replace="v"/>'):
            calls = []

            def translate(msgid, domain=None, mapping=None, context=None, target_language=None, default=None):
                calls.append((type(msgid).__name__, domain))
                return msgid
            PageTemplate(src, translate=translate)(v=v)
            ctx.count('evaluations')
            nt += 1
            want = [(type(v).__name__, 'dz')] if offered else []
            if calls != want:
                ctx.violation('an inserted value that is not a string, number or __html__ object must be offered to the translation function '
                              '(and only such values)', {'src': src, 'value_class': label}, expected=want, actual=calls)
    ctx.cov['function_histogram'] = hist
    ctx.counters['nontrivial'] = nt
    s0, n0, i0 = make(ctx.rng)
    ctx.sample({'template': s0})
    # D-10a
    r, calls = run_real(D10A, 'rewriting', [])
    if r.get('out') != D10A_EXPECT:
        ctx.violation('i18n:domain set inside an element that failed under tal:on-error stays in force', {'src': D10A}, expected=D10A_EXPECT, actual=r,
                      finding='D-10a' if r.get('out') == D10A_ACTUAL else None)


D10A = '<div><p tal:on-error="string:E" i18n:domain="leak"><b tal:content="1/0"/></p><i i18n:translate="">m</i></div>'
D10A_EXPECT = '<div><p>E</p><i>[m|None|None|None]</i></div>'
D10A_ACTUAL = '<div><p>E</p><i>[m|leak|None|None]</i></div>'


D10B = ('<m metal:define-macro="m"><s metal:define-slot="s">d</s></m>|<div metal:use-macro="template.macros[\'m\']" i18n:domain="outer">'
        '<span metal:fill-slot="s" i18n:domain="inner"><b i18n:translate="">hello</b><i tal:content="m"/></span></div>')
D10C = '<p i18n:translate=""><b i18n:name="a-b">one</b> and <b i18n:name="a_b">two</b></p>'


def reproduce_finding(ctx, f):
    from chameleon import PageTemplate
    if f['id'] == 'D-10d':
        calls = []

        class O:
            def __str__(self):
                return 'obj'

        def tr(msgid, domain=None, mapping=None, context=None, target_language=None, default=None):
            calls.append((type(msgid).__name__, domain))
            return msgid if default is None else default
        PageTemplate(D10B, translate=tr)(m=O())
        # the property: both calls carry the filler's own domain
        return calls == [('str', 'inner'), ('O', 'outer')]
    if f['id'] == 'D-10c':
        maps = []

        def tr2(msgid, domain=None, mapping=None, context=None, target_language=None, default=None):
            maps.append(dict(mapping or {}))
            return default or msgid
        PageTemplate(D10C, translate=tr2)()
        return maps == [{'a-b': '<b>two</b>', 'a_b': '<b>two</b>'}]
    return None


def replay(ctx, case):
    v = case.get('violation', case)
    c = v['input']
    if 'function' in c:
        real, calls = run_real(c['src'], c['function'], c.get('items', []))
        return {'real': real, 'calls': calls}
    if c.get('implicit'):
        real, calls = run_implicit(c['src'], c['cfg'])
        if v.get('expected') is not None and calls != v['expected'] and real.get('out') != v['expected']:
            ctx.violation('implicit translation', c, expected=v['expected'], actual={'real': real, 'calls': calls})
        return {'real': real, 'calls': calls}
    return {'case': c}

"""C04 — expressions follow TALES semantics and are evaluated exactly once, in order."""
import builtins
import collections
import html

import core
import pipeline
import talgen

PID = 'C04'
PROOF_MODULES = ['ChamProofs.Props.C04', 'ChamProofs.Props.C04Spec', 'ChamProofs.Props.C04Exists']
THEOREMS = ['ChamVerif.C04_caught_set', 'ChamVerif.C04_caught_closure', 'ChamVerif.evalAlts_cons', 'ChamVerif.C04_pipe_first_success',
            'ChamVerif.C04_pipe_uncaught_propagates', 'ChamVerif.C04_cached_read_pure', 'ChamVerif.C04_name_template_first',
            'ChamVerif.C04_name_unbound', 'ChamVerif.C04_false_condition_skips', 'ChamVerif.C04_true_condition_renders',
            'ChamVerif.C04_unmatched_case_skips', 'ChamVerif.C04_matching_case_closes_first',
            'ChamVerif.C04_replaced_original_not_evaluated', 'ChamVerif.C01_element_semantics_full',
            'ChamVerif.C04_exists_value',
            'ChamVerif.C04_exists_caught',
            'ChamVerif.C04_exists_propagates',
            'ChamVerif.C04_exists_tuple_tie']
LEVEL_TEXT = ('Proved in Lean: the classes a pipe moves on for are exactly {AttributeError, NameError, LookupError, TypeError, ValueError} as '
              'read from the live TalesExpr/ExistsExpr, closed under the subclass relation of the live exception classes '
              '(C04_caught_set, C04_caught_closure); for every pipe, if the alternatives before the k-th raised caught classes and the k-th '
              'succeeds, the result and the whole expression state (evaluation log included) are those after the k-th — no later alternative is '
              'evaluated — and an uncaught class propagates at once (C04_pipe_first_success, C04_pipe_uncaught_propagates, induction over '
              'the alternatives); a cached value is read without evaluating anything (C04_cached_read_pure); template variables win over '
              'builtins and an unbound name is a NameError (C04_name_*). Parts that are not rendered are not evaluated - stated on the statement '
              'semantics the interpreter refines (C01_element_semantics_full), for an arbitrary continuation k standing for everything below the '
              'statement: a false tal:condition or an unmatched tal:case ends in exactly the state after the guard\'s own evaluation, k is never '
              'run (C04_false_condition_skips, C04_unmatched_case_skips); a matching case closes the switch before the element renders '
              '(C04_matching_case_closes_first); a tal:content / tal:replace value other than default is inserted from the cached value, the '
              'original is not evaluated (C04_replaced_original_not_evaluated). The evaluator is tied to the code by end-to-end correspondence with '
              'recorder logs; arbitrary Python (lambdas, comprehensions, f-strings) is judged by differential testing against plain eval().'
              ' exists: turns exactly the classes of its own exception tuple (regenerated: AttributeError, LookupError, TypeError, NameError) into 0; every other exception of its operand — ValueError included, which a pipe moves on for — propagates (C04_exists_value / _caught / _propagates, tie C04_exists_tuple_tie).')
LEVEL_NOTE = ('Trusted: Lean kernel; harness; Python\'s eval() as the reference for opaque expressions. Known findings: D-04a (a non-matching '
              'tal:case evaluates its expression twice), D-04b (dictionary entries of tal:attributes are evaluated before the named ones).')
RULE = ('(a) talgen templates rich in pipes (length 1..4), prefixes (python, string, not, exists, structure and nestings) and recorder calls '
        'that succeed or raise each of 12 exception classes; logs compared in order and multiplicity. (b) opaque Python expressions '
        '(lambda, comprehension, f-string, dict/set displays, conditional, generator) over template variables that shadow builtins, at '
        'define / content / attribute / interpolation sites, expected value from plain eval(). Non-trivial iff an alternative raised, a '
        'cached value was read twice, or a name was resolved to a builtin while shadowable.')
TRUSTED = []
ASSUMPTIONS = []

OPAQUE = [
    "(lambda {p}: {p} * 2)(21)", "[{p} for {p} in (1, 2, 3)]", "sum({p} for {p} in range(4))", "f'{{{v}}}-{{len(xs)}}'", "{{'k': {v}}}['k']",
    "sorted(xs, key=lambda {p}: -{p})", "(lambda: {v})()", "', '.join(str({p}) for {p} in xs)", "max(xs + [{v}])", "{{n: n * n for n in (1, 2)}}[2]",
    "[({p}, q) for {p} in (1, 2) for q in 'ab'][1]", "{v} if {v} else 'none'", "'%s/%s' % ({v}, {v})", "(lambda {p}, *a, **k: ({p}, a, k))(1, 2, z=3)",
    "any({p} > 2 for {p} in xs)", "{{{v}, 1}} == {{1, {v}}}",
    # default values are evaluated in the enclosing scope (the template variables), also when the parameter has the same name
    "(lambda {v}={v}: {v} * 3)()", "(lambda a, b={v}: a + b)(1)", "(lambda *, {v}={v}: {v})()", "(lambda {p}={v}: (lambda q={p}: q)())()",
]
NAMEPOOL = ['id', 'len', 'x', 'item', 'type', 'n', 'key']


def opaque_case(rng):
    """a small template with 2..4 opaque expressions sharing names; returns (src, kwargs, expected or exception class)"""
    vars_ = {'xs': [3, 1, 2]}
    for n in rng.sample(NAMEPOOL, rng.randint(2, 4)):
        vars_[n] = rng.choice([5, 7, 11])
    names = [n for n in vars_ if n != 'xs']
    parts = []
    expected = []
    # template variables before builtins, in *every* nested scope (lambda / comprehension bodies resolve
    # free names through the globals): one flat globals dict
    env = dict(builtins.__dict__)
    env.update(vars_)

    def ev(e):
        return eval(compile(e, '<e>', 'eval'), dict(env))
    for _ in range(rng.randint(2, 4)):
        t = rng.choice(OPAQUE)
        e = t.format(p=rng.choice(NAMEPOOL), v=rng.choice(names))
        site = rng.choice(['interp', 'content', 'attr', 'define'])
        try:
            val = ev(e)
        except Exception as ex:      # the reference itself fails: not a usable case
            return None
        sval = html.escape(str(val), quote=False)
        q = e.replace('&', '&amp;').replace('"', '&quot;').replace('<', '&lt;')
        if site == 'interp':
            parts.append('<i>${%s}</i>' % e)
            expected.append('<i>%s</i>' % sval)
        elif site == 'content':
            parts.append('<b tal:content="%s">x</b>' % q)
            expected.append('<b>%s</b>' % sval)
        elif site == 'attr':
            parts.append('<u tal:attributes="title %s"/>' % q.replace(';', ';;'))
            expected.append('<u title="%s"/>' % html.escape(str(val), quote=True).replace('&#x27;', "'"))
        else:
            nm = rng.choice(['f', 'g'])
            parts.append('<p tal:define="%s %s">${%s}</p>' % (nm, q.replace(';', ';;'), nm))
            expected.append('<p>%s</p>' % sval)
        # a plain read of a name afterwards: the template variable, not a lambda parameter or a builtin
        r = rng.choice(names)
        parts.append('[${%s}]' % r)
        expected.append('[%s]' % vars_[r])
    return ''.join(parts), vars_, ''.join(expected)


def pipe_case(rng):
    """a | b | c with each alternative succeeding or raising a chosen class; expected by Python try/except"""
    caught = (AttributeError, NameError, LookupError, TypeError, ValueError)
    n = rng.randint(1, 4)
    alts = []
    for i in range(n):
        exc = rng.choice([None, None, 'KeyError', 'NameError', 'TypeError', 'ZeroDivisionError', 'RuntimeError', 'IndexError', 'AttributeError',
                          'UnicodeDecodeError-skip', 'ValueError', 'AssertionError'])
        if exc == 'UnicodeDecodeError-skip':
            exc = 'ValueError'
        alts.append(exc)
    src = '<p tal:content="%s">x</p>' % ' | '.join("R('k%d', 'v%d'%s)" % (i, i, (", '%s'" % e) if e else '') for i, e in enumerate(alts))
    log = []
    result = None
    for i, e in enumerate(alts):
        log.append('k%d' % i)
        if e is None:
            result = ('out', '<p>v%d</p>' % i)
            break
        cls = getattr(builtins, e)
        last = i == len(alts) - 1
        if issubclass(cls, caught) and not last:
            continue
        result = ('exc', e)
        break
    return src, result, log


def exists_case(rng):
    """exists: over a pipe of 1..3 alternatives, each succeeding or raising a chosen class, at several sites: the pipe moves on for the
    lookup-type classes (ValueError included), exists: itself turns only AttributeError / LookupError / TypeError / NameError of the last
    alternative into "no" — everything else propagates"""
    pipe_caught = (AttributeError, NameError, LookupError, TypeError, ValueError)
    exists_caught = (AttributeError, LookupError, TypeError, NameError)
    n = rng.randint(1, 3)
    alts = [rng.choice([None, 'KeyError', 'NameError', 'TypeError', 'ZeroDivisionError', 'RuntimeError', 'IndexError', 'AttributeError', 'ValueError',
                        'ValueError', 'UnicodeError', 'AssertionError', 'OSError']) for _ in range(n)]
    inner = ' | '.join("R('k%d', 'v%d'%s)" % (i, i, (", '%s'" % e) if e else '') for i, e in enumerate(alts))
    site = rng.choice(['content', 'interp', 'condition', 'not'])
    log = []
    verdict = None
    for i, e in enumerate(alts):
        log.append('k%d' % i)
        if e is None:
            verdict = True
            break
        cls = getattr(builtins, e)
        if i < n - 1 and issubclass(cls, pipe_caught):
            continue
        verdict = False if issubclass(cls, exists_caught) else ('exc', e)
        break
    if site == 'content':
        src = '<p tal:content="exists: %s">x</p>' % inner
        out = None if isinstance(verdict, tuple) else '<p>%d</p>' % int(verdict)
    elif site == 'interp':
        src = '<p>${exists: %s}</p>' % inner
        out = None if isinstance(verdict, tuple) else '<p>%d</p>' % int(verdict)
    elif site == 'condition':
        src = '<p tal:condition="exists: %s">x</p>!' % inner
        out = None if isinstance(verdict, tuple) else ('<p>x</p>!' if verdict else '!')
    else:
        src = '<p tal:condition="not: exists: %s">x</p>!' % inner
        out = None if isinstance(verdict, tuple) else ('!' if verdict else '<p>x</p>!')
    return src, (verdict if isinstance(verdict, tuple) else ('out', out)), log


def prefixed_pipe_case(rng):
    """expression := (type ':')? line ('|' expression)?  — a type prefix on a later alternative takes the whole rest"""
    caught = (AttributeError, NameError, LookupError, TypeError, ValueError)
    n = rng.randint(2, 4)
    alts = []
    for i in range(n):
        exc = rng.choice([None, None, 'KeyError', 'NameError', 'TypeError', 'ZeroDivisionError', 'IndexError', 'AttributeError', 'ValueError'])
        pfx = rng.choice(['', '', 'not: ', 'python: ', 'not:']) if i > 0 else rng.choice(['', '', 'not: '])
        val = rng.choice(['v%d' % i, ''])
        alts.append((pfx, 'k%d' % i, val, exc))
    src = '<p tal:content="%s">x</p>' % ' | '.join("%sR('%s', '%s'%s)" % (p, k, v, (", '%s'" % e) if e else '') for p, k, v, e in alts)
    log = []

    def plain(i):
        p, k, v, e = alts[i]
        log.append(k)
        if e is None:
            return ('val', v)
        if issubclass(getattr(builtins, e), caught) and i < n - 1:
            return ev(i + 1)
        return ('exc', e)

    def ev(i):
        p = alts[i][0].strip()
        r = plain(i)
        if p == 'not:' and r[0] == 'val':
            return ('val', not bool(r[1]))
        return r
    r = ev(0)
    if r[0] == 'val':
        v = r[1]
        result = ('out', '<p>%s</p>' % (v if isinstance(v, str) else str(v)))
    else:
        result = r
    return src, result, log


ONCE_EXPRS = [("R('a', 'A')", ['a'], 'A'), ("R('b', 'B')", ['b'], 'B'), ("nope | R('c', 'C')", ['c'], 'C'),
              ("R('d', None, 'KeyError') | R('e', 'E')", ['d', 'e'], 'E'), ("R('f', 'F').lower()", ['f'], 'f')]


def once_case(rng):
    """the same expression text at several sites - also twice inside one text node, one attribute value, one string: expression:
    every occurrence that is reached is evaluated once per reach, in document order; unreached ones never"""
    pool = rng.sample(ONCE_EXPRS, rng.randint(1, 3))
    parts, out, log = [], [], []

    def pick():
        return rng.choice(pool)
    for _ in range(rng.randint(2, 5)):
        site = rng.choice(['text', 'text', 'attr', 'string', 'define', 'dead', 'repeat', 'sq-attr'])
        es = [pick() for _ in range(rng.randint(1, 3))]
        if rng.random() < 0.5:
            es.append(es[0])            # the same text again inside the same run
        if site == 'text':
            parts.append('<p>' + ' '.join('${%s}' % e[0] for e in es) + '</p>')
            out.append('<p>' + ' '.join(e[2] for e in es) + '</p>')
            for e in es:
                log += e[1]
        elif site in ('attr', 'sq-attr'):
            q = '"' if site == 'attr' else "'"
            if q == "'":
                es = [e for e in es if "'" not in e[0]] or []
            parts.append('<a title=%s%s%s>x</a>' % (q, ' x '.join('${%s}' % e[0] for e in es), q))
            out.append('<a title=%s%s%s>x</a>' % (q, ' x '.join(e[2] for e in es), q))
            for e in es:
                log += e[1]
        elif site == 'string':
            es = [e for e in es if '|' not in e[0]] or [ONCE_EXPRS[0]]
            parts.append('<b tal:content="string:%s">x</b>' % '-'.join('${%s}' % e[0] for e in es))
            out.append('<b>' + '-'.join(e[2] for e in es) + '</b>')
            for e in es:
                log += e[1]
        elif site == 'define':
            e = es[0]
            parts.append('<i tal:define="v %s">${v}${v}</i>' % e[0])
            out.append('<i>%s%s</i>' % (e[2], e[2]))
            log += e[1]
        elif site == 'dead':
            parts.append('<u tal:condition="False">' + ' '.join('${%s}' % e[0] for e in es) + '</u>')
        else:
            # an element of the tal namespace: no tags, no separator between the repetitions
            parts.append('<tal:s repeat="i (1, 2)">' + ''.join('${%s}' % e[0] for e in es) + '</tal:s>')
            one = ''.join(e[2] for e in es)
            out.append(one + one)
            for _ in range(2):
                for e in es:
                    log += e[1]
    return ''.join(parts), ''.join(out), log


class Both:
    """has attributes and items; some names only as attribute, some only as item, some as both"""
    def __init__(self):
        self.a = 'attr-a'
        self.both = 'attr-both'

    def __getitem__(self, k):
        return {'both': 'item-both', 'i': 'item-i', 'meth': 'item-meth'}[k]

    def meth(self):
        return 'called'


ATTR_EXPRS = [
    ("d.title", lambda d, o: d['title']), ("len(d.items())", lambda d, o: len(d.items())), ("sorted(d.keys())[0]", lambda d, o: sorted(d.keys())[0]),
    ("d.get('title')", lambda d, o: d.get('title')), ("d.get('nope', 'dflt')", lambda d, o: 'dflt'), ("len(d.values())", lambda d, o: len(d.values())),
    ("d.copy() == d", lambda d, o: True), ("o.a", lambda d, o: 'attr-a'), ("o.both", lambda d, o: 'attr-both'), ("o.i", lambda d, o: 'item-i'),
    ("o.meth()", lambda d, o: 'called'), ("callable(d.items) and callable(d.get)", lambda d, o: True), ("o.nope | 'fb'", lambda d, o: 'fb'), ("d.nokey | 'fb'", lambda d, o: 'fb'),
    ("exists: d.items()", lambda d, o: 1), ("not: exists: d.nokey", lambda d, o: True),
]


def attr_case(rng):
    """attribute access wins, item lookup is the fallback: plain dicts whose keys are named like dict methods, and an object with both"""
    keys = rng.sample(['items', 'keys', 'get', 'values', 'copy', 'update'], rng.randint(1, 4))
    d = {'title': 'T'}
    for i, k in enumerate(keys):
        d[k] = rng.choice([i, None, 'str-%s' % k])
    o = Both()
    picks = rng.sample(ATTR_EXPRS, rng.randint(2, 5))
    src = ''.join('<p>%s</p>' % ('${%s}' % e if rng.random() < 0.5 and '|' not in e and ':' not in e else '<b tal:content="%s"/>' % e) for e, _ in picks)
    exp = []
    for e, f in picks:
        exp.append(f(d, o))
    return src, {'d': d, 'o': o}, picks, exp


def correspondence(ctx):
    gen = []
    for _ in range(ctx.budget(1500, 60000)):
        g = talgen.TalGen(ctx.rng, depth=ctx.rng.choice([1, 2]), features={'define', 'condition', 'content', 'replace', 'attributes', 'interp',
                                                                             'pipes', 'prefixes', 'raise', 'switch', 'repeat'})
        gen.append(g.template())
    res = pipeline.run_cases(ctx, gen, what='TALES evaluation')
    nt = 0
    for c, m, i in res:
        if ' | ' in c['src'] or 'exists:' in c['src'] or 'not:' in c['src']:
            nt += 1
    ctx.counters['nontrivial'] = nt


def switch_case(rng):
    """a tal:switch whose value and every case value are recorder calls, the case bodies too: which expressions run, how often, in
    which order — in particular nothing of the cases that follow the matching one"""
    sv = rng.choice([1, 2, 3])
    cases = []
    for i in range(rng.randint(2, 5)):
        cases.append(('default', None) if rng.random() < 0.2 else ('val', rng.choice([1, 2, 3])))
    src = '<div tal:switch="R(\'sw\', %d)">' % sv
    ideal, like, out = ['sw'], ['sw'], ''
    matched = False
    for i, (k, v) in enumerate(cases):
        e = 'default' if k == 'default' else "R('c%d', %d)" % (i, v)
        src += '<p tal:case="%s">${R(\'b%d\', %d)}</p>' % (e, i, i)
        if matched:
            continue
        if k == 'val':
            ideal.append('c%d' % i)
            like.append('c%d' % i)
            if v != sv:
                like.append('c%d' % i)      # D-04a: compared with the switch value, then with the default marker
                continue
        matched = True
        ideal.append('b%d' % i)
        like.append('b%d' % i)
        out = '<p>%d</p>' % i
    src += '</div>'
    return {'src': src, 'vars': [['R', {'fn': 'R'}]], 'objs': []}, ideal, like, '<div>%s</div>' % out


def oracle(ctx):
    sw = [switch_case(ctx.rng) for _ in range(ctx.budget(300, 10000))]
    for (case, ideal, like, out), r in zip(sw, pipeline.impl_many([s[0] for s in sw])):
        ctx.count('evaluations')
        if r.get('out') != out or r.get('log') != ideal:
            ctx.violation('tal:switch: every case up to the matching one is evaluated once, in order, the matching case renders, and nothing of '
                          'the later cases is evaluated', case, expected={'out': out, 'log': ideal}, actual=r,
                          finding='D-04a' if (r.get('out') == out and r.get('log') == like) else None)
    from chameleon import PageTemplate
    nt = 0
    # `default_expression` is a setting of the template *instance*: templates of one class with different settings, compiled one
    # after the other in this process (which has compiled templates with the default setting before), each dispatch their
    # unprefixed expressions to their own default type
    DE = [({}, '<p tal:content="n + 1">x</p>', '<p>2</p>'),
          ({'default_expression': 'string'}, '<p tal:content="Hello ${python: n}!">x</p>', '<p>Hello 1!</p>'),
          ({}, '<p title="${n + 2}" tal:content="python: n">x</p>', '<p title="3">1</p>'),
          ({'default_expression': 'string'}, '<p tal:content="n + 2">x</p>', '<p>n + 2</p>'),
          ({'default_expression': 'python'}, '<p tal:content="n + 3">x</p>', '<p>4</p>'),
          ({'default_expression': 'string'}, '<p tal:define="a n + 4" tal:content="python: a">x</p>', '<p>n + 4</p>'),
          ({}, '<p tal:content="string:n + 5">x</p><i tal:condition="not: n - 1">y</i>', '<p>n + 5</p><i>y</i>')]
    for cfg, src, want in DE + DE[::-1]:
        ctx.count('evaluations')
        try:
            got = PageTemplate(src, **cfg)(n=1)
        except Exception as e:
            got = 'raised %s: %s' % (type(e).__name__, str(e).split('\n')[0][:80])
        if got != want:
            ctx.violation('an unprefixed expression is not evaluated by the template\'s own default expression type', {'src': src, 'config': cfg, 'n': 1},
                          expected=want, actual=got)
    # pipes: first alternative that does not raise a lookup-type exception; others propagate; evaluated once, in order
    for _ in range(ctx.budget(600, 20000)):
        k3 = ctx.rng.random()
        src, result, log = pipe_case(ctx.rng) if k3 < 0.45 else (prefixed_pipe_case(ctx.rng) if k3 < 0.75 else exists_case(ctx.rng))
        impl = pipeline.run_impl({'src': src, 'vars': [['R', {'fn': 'R'}]]})
        ctx.count('evaluations')
        nt += 1 if len(log) > 1 else 0
        ok = impl.get('log') == log and ((result[0] == 'out' and impl.get('out') == result[1]) or
                                         (result[0] == 'exc' and impl.get('exc') == 'render' and impl.get('cls') == result[1]))
        if not ok:
            ctx.violation('pipe semantics: first alternative not raising a lookup-type exception / propagation / evaluation order',
                          {'src': src, 'vars': [['R', {'fn': 'R'}]]}, expected={'result': result, 'log': log}, actual=impl)
    # once per reach, in document order - identical expression texts included
    for _ in range(ctx.budget(500, 20000)):
        src, exp, log = once_case(ctx.rng)
        impl = pipeline.run_impl({'src': src, 'vars': [['R', {'fn': 'R'}]]})
        ctx.count('evaluations')
        nt += 1 if len(log) > len(set(log)) else 0
        if impl.get('out') != exp or impl.get('log') != log:
            ctx.violation('every reached expression occurrence is evaluated exactly once per reach, in document order (identical texts included)',
                          {'src': src, 'vars': [['R', {'fn': 'R'}]]}, expected={'out': exp, 'log': log}, actual=impl)
    # import: expressions - also several in one template whose targets share their last name
    import importlib
    IMPORTS = [('html.escape', "'a.b&c'"), ('re.escape', "'a.b&c'"), ('os.path.join', "'a', 'b'"), ('shlex.join', "['a b', 'c']"),
               ('posixpath.basename', "'x/y:z'"), ('ntpath.basename', "'x/y:z'"), ('math.floor', '2.5'), ('operator.neg', '3'),
               ('json.dumps', "[1]"), ('textwrap.shorten', "'a b c d', 6"), ('string.capwords', "'a b'"), ('fnmatch.translate', "'*.x'")]
    for _ in range(ctx.budget(120, 4000)):
        picks = ctx.rng.sample(IMPORTS, ctx.rng.randint(1, 3))
        if ctx.rng.random() < 0.5:
            # force a pair with the same last name
            picks = ctx.rng.choice([[IMPORTS[0], IMPORTS[1]], [IMPORTS[2], IMPORTS[3]], [IMPORTS[4], IMPORTS[5]], [IMPORTS[1], IMPORTS[0]]])
        src, want = '', ''
        for i, (dotted, args) in enumerate(picks):
            mod, _, fn = dotted.rpartition('.')
            val = eval('f(%s)' % args, {'f': getattr(importlib.import_module(mod), fn)})
            if ctx.rng.random() < 0.5:
                src += '<p tal:define="f%d import:%s">${f%d(%s)}</p>' % (i, dotted, i, args)
            else:
                src += '<p tal:define="f%d import: %s" tal:content="f%d(%s)"/>' % (i, dotted, i, args)
            want += '<p>%s</p>' % html.escape(str(val), quote=False)
        ctx.count('evaluations')
        nt += 1
        try:
            got = PageTemplate(src)()
        except Exception as e:
            got = {'exc': type(e).__name__, 'msg': str(e)[:120]}
        if got != want:
            ctx.violation('import: must evaluate to the object the dotted name denotes (each occurrence its own)', {'src': src, 'kwargs': {}},
                          expected=want, actual=got)
    # opaque Python against plain eval
    for _ in range(ctx.budget(800, 30000)):
        c = opaque_case(ctx.rng)
        if c is None:
            continue
        src, vars_, exp = c
        ctx.count('evaluations')
        nt += 1
        try:
            got = PageTemplate(src)(**vars_)
        except Exception as e:
            got = {'exc': type(e).__name__, 'msg': str(e)[:120]}
        if got != exp:
            ctx.violation('expression value differs from plain Python evaluation with template variables before builtins',
                          {'src': src, 'kwargs': vars_}, expected=exp, actual=got)
    # attribute access before item lookup
    for _ in range(ctx.budget(300, 8000)):
        src, kw, picks, exp = attr_case(ctx.rng)
        ctx.count('evaluations')
        nt += 1
        try:
            got = PageTemplate(src)(**kw)
        except Exception as e:
            got = 'raised %s: %s' % (type(e).__name__, str(e.args[0])[:80] if e.args else '')
        want = ''
        for (e, _), v in zip(picks, exp):
            inner = '' if v is None else str(v)
            want += '<p>%s</p>' % (inner if ('${' + e + '}') in src else '<b>%s</b>' % inner)
        if got != want:
            ctx.violation('attribute access must come before item lookup (and fall back to it)', {'src': src, 'd': repr(kw['d'])},
                          expected=want, actual=got)
    ctx.counters['nontrivial'] = ctx.counters.get('nontrivial', 0) + nt
    ctx.sample({'template': pipe_case(ctx.rng)[0]})
    # D-04f (fixed): parameters (and local names) of a function defined in a code block are the function's own: template variables of the
    # same names are still read afterwards
    CB = [("<?python def f(x): return x * 2 ?><p>${x} ${f(3)}</p>", {'x': 'tv'}, '<p>tv 6</p>'),
          ("<?python\ndef g(a, b=n):\n    return a + b\n?><p>${a} ${b} ${g(1)}</p>", {'a': 'A', 'b': 'B', 'n': 5}, '<p>A B 6</p>'),
          ("<?python\ndef h(*args, **kw):\n    return len(args) + len(kw)\n?><p>${args}${kw}${h(1, k=2)}</p>", {'args': 'R', 'kw': 'K'}, '<p>RK2</p>')]
    for src, kw, want in CB:
        ctx.count('evaluations')
        try:
            got = PageTemplate(src)(**kw)
        except Exception as e:
            got = {'exc': type(e).__name__, 'msg': str(e).split('\n')[0][:100]}
        if got != want:
            ctx.violation('names are resolved from template variables first: a function parameter of a code block is local to the function',
                          {'src': src, 'kwargs': repr(kw)}, expected=want, actual=got)
    # known finding D-04a: a non-matching case evaluates its expression twice
    r = pipeline.run_impl({'src': "<div tal:switch=\"R('sw', 3)\"><p tal:case=\"R('c1', 1)\">1</p><p tal:case=\"R('c2', 3)\">3</p></div>",
                           'vars': [['R', {'fn': 'R'}]]})
    if r.get('log') != ['sw', 'c1', 'c2']:
        ctx.violation('a reached expression is evaluated more than once', {'src': 'switch/case'}, expected=['sw', 'c1', 'c2'],
                      actual=r.get('log'), finding='D-04a' if r.get('log') == ['sw', 'c1', 'c1', 'c2'] else None)
    r = pipeline.run_impl({'src': "<p tal:attributes=\"a R('k1', 1); R('k2', d); b R('k3', 2)\"/>", 'vars': [['R', {'fn': 'R'}], ['d', {'dict': []}]]})
    if r.get('log') != ['k1', 'k2', 'k3']:
        ctx.violation('expressions are not evaluated in document order', {'src': 'tal:attributes with a dictionary entry'},
                      expected=['k1', 'k2', 'k3'], actual=r.get('log'), finding='D-04b' if r.get('log') == ['k2', 'k1', 'k3'] else None)


def reproduce_finding(ctx, f):
    return None


def replay(ctx, case):
    v = case.get('violation', case)
    c = v['input']
    if 'kwargs' in c:
        from chameleon import PageTemplate
        try:
            got = PageTemplate(c['src'])(**c['kwargs'])
        except Exception as e:
            got = {'exc': type(e).__name__}
        if got != v.get('expected'):
            ctx.violation('expression value differs from plain Python', c, expected=v.get('expected'), actual=got)
        return {'got': got, 'expected': v.get('expected')}
    return {'impl': pipeline.run_impl({'src': c['src'], 'vars': c.get('vars', [])}), 'expected': v.get('expected')}

"""C15 — the on-disk module cache is sound and crash-safe."""
import itertools
import json
import os
import shutil
import subprocess
import sys
import tempfile
import threading

import core

PID = 'C15'
PROOF_MODULES = ['ChamProofs.Props.C15', 'ChamProofs.Props.C15Load']
THEOREMS = ['ChamVerif.Sys.Cache.C15_crash_safe', 'ChamVerif.Sys.Cache.C15_build_stores', 'ChamVerif.Sys.Cache.C15_shared_tmp_counterexample',
            'ChamVerif.Sys.Cache.C15_sound', 'ChamVerif.Sys.Cache.C15_keyed_covers_partial', 'ChamVerif.Sys.Cache.C15_keyed_covers_counterexample',
            'ChamVerif.Sys.Cache.C15_probe_sane',
            'ChamVerif.Sys.Cache.C15_key_separates_values', 'ChamVerif.Sys.Cache.utf8_prefix_free',
            'ChamVerif.Sys.Cache.C15_body_key_injective', 'ChamVerif.Sys.Cache.C15_body_key_ignore_counterexample',
            'ChamVerif.Sys.Cache.C15_body_key_tie', 'ChamVerif.Sys.Cache.C15_key_bytes_injective',
            'ChamVerif.Sys.Cache.C15_key_bytes_old_counterexample', 'ChamVerif.Sys.Cache.C15_key_layout_tie',
            'ChamVerif.Sys.Cache.C15_key_bytes_file_injective', 'ChamVerif.Sys.Cache.C15_key_file_layout_tie',
            'ChamVerif.Sys.Load.inv_step', 'ChamVerif.Sys.Load.C15_loaded_module_complete', 'ChamVerif.Sys.Load.C15_load_registered_first_counterexample']
LEVEL_TEXT = ('Proved in Lean over the file-system step model of ModuleLoader.build/get: two writers of one entry with unique temporary names, run '
              'under any schedule and crashing at any points (arbitrary event list, no length bound), leave an entry that is absent, unchanged, '
              'or the complete module of one writer — never empty, header-only or torn (C15_crash_safe, invariant over every step); an '
              'uninterrupted build stores its module (C15_build_stores); unique names are necessary (C15_shared_tmp_counterexample). Key '
              'soundness: if the key is injective in the keyed options, the code depends only on the influencing options and these are keyed, '
              'equal keys give equal code (C15_sound); that the options observed to influence compilation on this run are keyed is decided '
              'by the kernel over the regenerated option lists, except the three of finding D-15b (C15_keyed_covers_partial; the full '
              'statement is refuted by C15_keyed_covers_counterexample). The source text enters the key as UTF-8 with the errors mode observed on the '
              'real digest in this run (C15_body_key_tie: surrogatepass), and that encoding is injective on all strings, lone surrogates included '
              '(C15_body_key_injective, from utf8_prefix_free; with the mode the code used before the D-15c fix two sources share their bytes: '
              'C15_body_key_ignore_counterexample). The class name and the source are laid out unambiguously in the hashed bytes - class, NUL, '
              'source (C15_key_layout_tie, observed; C15_key_bytes_injective) - where the layout before the D-15d fix let "Hello " + "PageTemplate" '
              'and "Hello Page" + "Template" collide (C15_key_bytes_old_counterexample). The step model is tied to the code by replaying the same '
              'two-writer schedules (crashes included) on real directories through the guarded hook points; soundness is judged by '
              'compiling all single-option pairs in both orders into one cache directory, in one and across processes.')
LEVEL_NOTE = ('Trusted / assumed: rename atomicity, mkstemp uniqueness (observed per run, necessary by the counterexample), SHA collision '
              'freeness (Injective hash), process crash not power loss (written data is visible); the byte-code file written by py_compile '
              'is not modelled (exercised by the crash oracle through a real import). D-15a (fix: c134a76) D-15c (fix: 5fec397, lone surrogates ignored by the key) and D-15d (body directly followed by the class name) were repaired in /repo. Known '
              'finding D-15b: custom tokenizer / expression_types / default_marker influence compilation but are not keyed.')
RULE = ('(a) every pair of configurations differing in exactly one of 13 constructor options, or in body / template class / filename, compiled in '
        'both orders into one cache directory (in-process and in two fresh processes with CHAMELEON_CACHE); (b) every crash point between the '
        'file-system steps of build followed by a fresh process; (c) every two-writer schedule over the hook labels up to 7 moves, crashes '
        'included. Non-trivial iff the pair renders differently without a cache, or the schedule interleaves both writers.')
TRUSTED = []
ASSUMPTIONS = ['rename(2) is atomic', 'mkstemp returns unique names', 'SHA-1/SHA-256 are collision free on the inputs used', 'process crash, not power loss']

LABELS = ['build:mkstemp', 'build:header', 'build:body', 'build:closed', 'build:renamed', 'build:compiled']
# model steps a writer has completed when it stands at a label
STEPS_AT = {'start': 0, 'build:mkstemp': 1, 'build:header': 2, 'build:body': 4, 'build:closed': 5, 'build:renamed': 6, 'build:compiled': 6, 'done': 6}
HEADER = b"# -*- coding: utf-8 -*-\n"


class Parked(Exception):
    pass


class WriterThread:
    """runs ModuleLoader.build in a thread that stops at every hook label until told to go on"""

    def __init__(self, loader_mod, d, src, who):
        self.src = src
        self.who = who
        self.at = 'start'
        self.tmp = None
        self.go = threading.Semaphore(0)
        self.arrived = threading.Semaphore(0)
        self.dead = False
        self.error = None

        def run():
            self.go.acquire()
            if self.dead:
                self.arrived.release()
                return
            try:
                loader_mod.ModuleLoader(d).build(src, 'entry.py')
                self.at = 'done'
            except Parked:
                pass
            except BaseException as e:   # e.g. FileNotFoundError at rename
                self.error = type(e).__name__
                self.at = 'done'
            self.arrived.release()
        self.thread = threading.Thread(target=run, daemon=True)
        self.thread.start()

    def hook(self, label, *args):
        self.at = label
        if label == 'build:mkstemp':
            self.tmp = args[0]
        if label in ('build:header', 'build:body'):
            args[1].flush()
        self.arrived.release()
        self.go.acquire()
        if self.dead:
            # a crashed process: no cleanup code runs (os.remove is a no-op for this thread, see real_schedule)
            raise Parked()

    def advance(self):
        if self.at == 'done':
            return
        self.go.release()
        self.arrived.acquire()


def real_schedule(d, moves):
    """moves: list of 'A' | 'B' | 'crashA' | 'crashB'  -> (listing by role, model events)"""
    import chameleon.loader as L
    owners = {}
    ws = {'A': WriterThread(L, d, 'x = 1\n', 'A'), 'B': WriterThread(L, d, 'x = 2\n', 'B')}

    def hook(label, *args):
        if not label.startswith('build:'):
            return
        me = owners.get(threading.get_ident())
        if me is not None:
            me.hook(label, *args)
    for w in ws.values():
        owners[w.thread.ident] = w
    saved = (L._verif_hook, L.acquire_lock, L.release_lock)
    real_remove = os.remove

    def remove(path, *a, **k):
        me = owners.get(threading.get_ident())
        if me is not None and me.dead:
            return None             # the cleanup handler of a crashed writer never runs
        return real_remove(path, *a, **k)
    os.remove = remove
    L._verif_hook = hook
    # two *processes* do not share the module-level lock
    L.acquire_lock = lambda: None
    L.release_lock = lambda: None
    events = []
    crashed = set()
    try:
        for m in moves:
            if m.startswith('crash'):
                who = m[-1]
                events.append('crash' + who)
                crashed.add(who)
                continue
            w = ws[m]
            if m in crashed or w.at == 'done':
                continue
            before = STEPS_AT[w.at]
            w.advance()
            events.extend(['step' + m] * (STEPS_AT[w.at] - before))
        # crashed writers never run again; the others are parked where they are: release them as crashed at the end so that
        # their threads end without side effects
        for w in ws.values():
            if w.at != 'done':
                w.dead = True
                w.go.release()
                w.arrived.acquire()
    finally:
        L._verif_hook, L.acquire_lock, L.release_lock = saved
        os.remove = real_remove
        sys.modules.pop('entry', None)
    listing = {}
    for name in os.listdir(d):
        p = os.path.join(d, name)
        if os.path.isdir(p):
            continue
        data = open(p, 'rb').read()
        role = 'entry.py' if name == 'entry.py' else ('tmpA' if p == ws['A'].tmp else 'tmpB' if p == ws['B'].tmp else name)
        if data == b'':
            tag = 'empty'
        elif data == HEADER:
            tag = 'header'
        elif data == HEADER + b'x = 1\n':
            tag = 'full:1'
        elif data == HEADER + b'x = 2\n':
            tag = 'full:2'
        else:
            tag = 'other:%r' % data[:40]
        listing[role] = tag
    return listing, events, (ws['A'].tmp, ws['B'].tmp)


def all_schedules(maxlen):
    for L in range(1, maxlen + 1):
        for tup in itertools.product(['A', 'B', 'crashA', 'crashB'], repeat=L):
            if tup.count('crashA') > 1 or tup.count('crashB') > 1:
                continue
            yield list(tup)


def correspondence(ctx):
    scheds = []
    n = 5 if ctx.tier == 'quick' else 7
    for s in all_schedules(n):
        scheds.append(s)
    if len(scheds) > ctx.budget(1200, 30000):
        scheds = ctx.rng.sample(scheds, ctx.budget(1200, 30000))
    for _ in range(ctx.budget(300, 5000)):
        scheds.append([ctx.rng.choice(['A', 'B', 'A', 'B', 'crashA', 'crashB']) for _ in range(ctx.rng.randint(6, 12))])
    reqs, reals = [], []
    root = tempfile.mkdtemp(prefix='c15_')
    try:
        for i, s in enumerate(scheds):
            d = os.path.join(root, 's%d' % i)
            os.mkdir(d)
            listing, events, tmps = real_schedule(d, s)
            if tmps[0] is not None and tmps[0] == tmps[1]:
                ctx.disagree('two writers were given the same temporary name (the model assumes unique names)', {'schedule': s}, model=None, impl=tmps)
            reqs.append({'op': 'cache', 'entry': 'entry.py', 'a': {'src': 1, 'tmp': 'tmpA'}, 'b': {'src': 2, 'tmp': 'tmpB'}, 'evs': events})
            reals.append((s, listing))
            shutil.rmtree(d, ignore_errors=True)
    finally:
        shutil.rmtree(root, ignore_errors=True)
    outs = core.par_batch(reqs)
    for (s, listing), r, o in zip(reals, reqs, outs):
        ctx.count('correspondence_cases')
        m = o.get('ok')
        if m != listing:
            ctx.disagree('cache directory after a two-writer schedule: model and implementation differ', {'schedule': s, 'events': r['evs']},
                         model=m, impl=listing)


# ---- key soundness -----------------------------------------------------------------------------------------------
OPTIONS = {
    'trim_attribute_space': [False, True], 'implicit_i18n_translate': [False, True], 'strict': [True, False],
    'boolean_attributes': [None, ['title'], [], ['checked']], 'implicit_i18n_attributes': [None, ['title'], ['alt']], 'enable_data_attributes': [False, True],
    'enable_comment_interpolation': [True, False], 'restricted_namespace': [True, False], 'default_expression': ['python', 'string'],
    'encoding': [None, 'utf-8'],
}
BODIES = [
    '<p title="a  b"   class="x">${1} <!-- ${2} --></p>',
    '<i tal:condition="False" tal:content="bad +"/>ok',
    '<p title="t" data-tal-content="1">Hello ${default | 3}</p>',
    '<p zz:x="1">x</p>',
    '<p title="t">Hello  world</p>',
    '<input title="${None}" checked="${False}"/>',
]

KEY_SCRIPT = r'''
import json, sys
from chameleon import PageTemplate, PageTextTemplate
from chameleon.zpt.template import PageTemplateFile
from chameleon import tales
class Sub(PageTemplate):
    # a user subclass that compiles the same source differently (python: expressions are string: expressions here)
    expression_types = dict(PageTemplate.expression_types, python=tales.StringExpr)
class Template(PageTemplate):
    # a class whose name, appended to a body, spells another (body, class name) pair: "Hello " + "PageTemplate" = "Hello Page" + "Template"
    pass
jobs = json.load(sys.stdin)
out = []
for j in jobs:
    kw = dict(j['kw'])
    for k in ('boolean_attributes', 'implicit_i18n_attributes'):
        if kw.get(k) is not None: kw[k] = set(kw[k])
        elif k in kw: del kw[k]
    if kw.get('encoding', 0) is None: del kw['encoding']
    if j.get('eb'): kw['extra_builtins'] = dict(j['eb'])
    cls = {'PageTemplate': PageTemplate, 'PageTextTemplate': PageTextTemplate, 'Sub': Sub, 'Template': Template}[j.get('cls', 'PageTemplate')]
    try:
        if j.get('file'):
            r = PageTemplateFile(j['file'], **kw)()
        else:
            r = cls(j['body'], **kw)()
    except Exception as e:
        # the class, and what the message says about where: the file name is compiled into the module
        r = 'ERR ' + type(e).__name__ + ' ' + ' | '.join(l.strip() for l in str(e).split('\n') if 'Filename' in l or 'Location' in l)
    out.append(r if isinstance(r, str) else r.decode('utf-8', 'replace'))
json.dump(out, sys.stdout)
'''


def run_jobs(jobs, cache_dir=None):
    env = dict(os.environ)
    env.pop('CHAMELEON_CACHE', None)
    if cache_dir:
        env['CHAMELEON_CACHE'] = cache_dir
    p = subprocess.run(['/venv/bin/python', '-W', 'ignore', '-c', KEY_SCRIPT], input=json.dumps(jobs), capture_output=True, text=True, env=env, timeout=300)
    if p.returncode != 0:
        raise RuntimeError('key worker failed: ' + p.stderr[-400:])
    return json.loads(p.stdout)


def pairs(rng, root):
    ps = []
    for name, values in OPTIONS.items():
        for v0, v1 in itertools.combinations(values, 2):
            for body in BODIES:
                ps.append(({'body': body, 'kw': {name: v0}}, {'body': body, 'kw': {name: v1}}, 'option ' + name))
    # body / class / filename
    for b1, b2 in itertools.combinations(BODIES[:4], 2):
        ps.append(({'body': b1, 'kw': {}}, {'body': b2, 'kw': {}}, 'body'))
    # sources that differ in ways an encoding step could lose: lone surrogates, NUL, normalisation forms, trailing white space
    close = ['<p>x</p>', '<p>x\ud800</p>', '<p>x\udfff</p>', '<p>x\x00</p>', '<p>x </p>', '<p>x</p>\n', '<p>\u00e9</p>', '<p>e\u0301</p>', '<p>x\ufeff</p>']
    for b1, b2 in itertools.combinations(close, 2):
        ps.append(({'body': b1, 'kw': {}}, {'body': b2, 'kw': {}}, 'body (close sources)'))
    # XML documents keep their line ends (HTML ones are normalised): sources that differ only there are different templates
    xml = ['<?xml version="1.0"?>\n<p>x\n</p>', '<?xml version="1.0"?>\r\n<p>x\r\n</p>', '<?xml version="1.0"?>\n<p>x\r\n</p>', '<?xml version="1.0"?>\r<p>x\r</p>',
           '<?xml version="1.0"?>\n<p>x\n${1/0}</p>', '<?xml version="1.0"?>\r\n<p>x\r\n${1/0}</p>']
    for b1, b2 in itertools.combinations(xml, 2):
        ps.append(({'body': b1, 'kw': {}}, {'body': b2, 'kw': {}}, 'body (XML line ends)'))
    ps.append(({'body': '<b>${1}</b>', 'kw': {}, 'cls': 'PageTemplate'}, {'body': '<b>${1}</b>', 'kw': {}, 'cls': 'PageTextTemplate'}, 'class'))
    ps.append(({'body': '<b>${1 + 1}</b>', 'kw': {}, 'cls': 'PageTemplate'}, {'body': '<b>${1 + 1}</b>', 'kw': {}, 'cls': 'Sub'}, 'class (user subclass)'))
    # extra builtins: the same names given in another insertion order (a dictionary built from a set), and another set of names
    eb_body = "<p>${a}-${b | 'none'}-${c | 'none'}</p>"
    ps.append(({'body': eb_body, 'kw': {}, 'eb': [['a', 'A'], ['b', 'B']]}, {'body': eb_body, 'kw': {}, 'eb': [['b', 'B'], ['a', 'A']]}, 'extra_builtins (insertion order)'))
    ps.append(({'body': eb_body, 'kw': {}, 'eb': [['c', 'C'], ['a', 'A'], ['b', 'B']]}, {'body': eb_body, 'kw': {}, 'eb': [['b', 'B'], ['c', 'C'], ['a', 'A']]}, 'extra_builtins (insertion order)'))
    ps.append(({'body': eb_body, 'kw': {}, 'eb': [['a', 'A'], ['b', 'B']]}, {'body': eb_body, 'kw': {}, 'eb': [['a', 'A'], ['c', 'B']]}, 'extra_builtins (names)'))
    ps.append(({'body': 'Hello ', 'kw': {}, 'cls': 'PageTemplate'}, {'body': 'Hello Page', 'kw': {}, 'cls': 'Template'}, 'body / class-name boundary'))
    d1, d2 = os.path.join(root, 'f1'), os.path.join(root, 'f2')
    os.makedirs(d1, exist_ok=True)
    os.makedirs(d2, exist_ok=True)
    for dd, inc in ((d1, 'ONE'), (d2, 'TWO')):
        open(os.path.join(dd, 'main.pt'), 'w').write('<div tal:define="t load: inc.pt">${structure: t()}</div>')
        open(os.path.join(dd, 'inc.pt'), 'w').write('<b>%s</b>' % inc)
    ps.append(({'file': os.path.join(d1, 'main.pt'), 'kw': {}}, {'file': os.path.join(d2, 'main.pt'), 'kw': {}}, 'filename'))
    # the same text under file names that differ in the extension only: an error report names the file it came from
    for ext in ('pt', 'txt', 'html'):
        open(os.path.join(d1, 'page.' + ext), 'w').write('<p>${1/0}</p>')
    for e1, e2 in (('pt', 'txt'), ('txt', 'html'), ('pt', 'html')):
        ps.append(({'file': os.path.join(d1, 'page.' + e1), 'kw': {}}, {'file': os.path.join(d1, 'page.' + e2), 'kw': {}}, 'filename (extension)'))
    return ps


CRASH_SCRIPT = r'''
import os, sys
import chameleon.loader as L
label = sys.argv[1]
flush = sys.argv[2] == 'flush'
def hook(l, *a):
    # 'flush': what the writer has written so far is visible in the file (the torn states); 'noflush': a plain process crash -
    # whatever still sits in the writer's user-space buffer is lost
    if flush and l in ('build:header', 'build:body'): a[1].flush()
    if l == label: os._exit(7)
L._verif_hook = hook
from chameleon import PageTemplate
print(PageTemplate('<p title="t">${1 + 1} crash</p>')())
'''
WARM_SCRIPT = r'''
import sys
from chameleon import PageTemplate
for i in range(int(sys.argv[1])):
    PageTemplate('<p title="t%d">${%d + 1} warm</p>' % (i, i))()
'''
RACE_SCRIPT = r'''
import json, sys, threading
from chameleon import PageTemplate
bad = []
for i in range(int(sys.argv[1])):
    src = '<p title="t%d">${%d + 1} warm</p>' % (i, i)
    want = '<p title="t%d">%d warm</p>' % (i, i + 1)
    barrier = threading.Barrier(4)
    def work():
        barrier.wait()
        try:
            r = PageTemplate(src)()
        except BaseException as e:
            r = 'ERR %s: %s' % (type(e).__name__, str(e).split('\n')[0][:80])
        if r != want:
            bad.append({'template': src, 'got': r})
    ts = [threading.Thread(target=work) for _ in range(4)]
    [t.start() for t in ts]
    [t.join() for t in ts]
json.dump(bad, sys.stdout)
'''
TRACE_SCRIPT = r'''
# threads of one process loading the same cached module (the cache is warm): record the labelled hook points of ModuleLoader._load
# in the order they are reached; a delay at chosen points widens the windows between the steps
import json, sys, threading, time
import chameleon.loader as L
from chameleon import PageTemplate
k, nthreads, delay_at = int(sys.argv[1]), int(sys.argv[2]), sys.argv[3]
out = []
for i in range(k):
    src = '<p title="t%d">${%d + 1} warm</p>' % (i, i)
    want = '<p title="t%d">%d warm</p>' % (i, i + 1)
    events = []
    lock = threading.Lock()
    ids = {}
    def hook(label, *a):
        if not label.startswith('load:'):
            return
        t = ids.get(threading.get_ident())
        if t is None:
            return
        with lock:
            events.append([t, label[5:]])
        if label == delay_at:
            time.sleep(0.02)
    L._verif_hook = hook
    barrier = threading.Barrier(nthreads)
    results = [None] * nthreads
    def work(t):
        ids[threading.get_ident()] = t
        barrier.wait()
        try:
            r = PageTemplate(src)()
        except BaseException as e:
            r = 'ERR %s: %s' % (type(e).__name__, str(e).split('\n')[0][:80])
        with lock:
            events.append([t, 'returned'])
        results[t] = (r == want)
    ts = [threading.Thread(target=work, args=(t,)) for t in range(nthreads)]
    [t.start() for t in ts]
    [t.join() for t in ts]
    L._verif_hook = None
    out.append({'events': events, 'results': results, 'src': src})
json.dump(out, sys.stdout)
'''
AFTER_SCRIPT = r'''
from chameleon import PageTemplate
print(PageTemplate('<p title="t">${1 + 1} crash</p>')())
'''


def oracle(ctx):
    nt = 0
    root = tempfile.mkdtemp(prefix='c15_')
    try:
        # (a) key soundness: both orders into one directory; one process per order (fresh sys.modules), then across processes
        ps = pairs(ctx.rng, root)
        flat = []
        for a, b, _ in ps:
            flat.extend([a, b])
        plain = run_jobs(flat)                      # without a cache
        cdir = os.path.join(root, 'cache1')
        os.mkdir(cdir)
        fwd = run_jobs(flat, cdir)                  # a then b, one process, one directory
        cdir2 = os.path.join(root, 'cache2')
        os.mkdir(cdir2)
        rev_jobs = []
        for a, b, _ in ps:
            rev_jobs.extend([b, a])
        rev = run_jobs(rev_jobs, cdir2)
        again = run_jobs(flat, cdir2)               # a fresh process on the directory the reversed run filled
        for i, (a, b, what) in enumerate(ps):
            ctx.count('evaluations', 4)
            pa, pb = plain[2 * i], plain[2 * i + 1]
            if pa != pb:
                nt += 1
            for label, got in (('a then b, one process', (fwd[2 * i], fwd[2 * i + 1])), ('b then a, one process', (rev[2 * i + 1], rev[2 * i])),
                               ('fresh process on a filled directory', (again[2 * i], again[2 * i + 1]))):
                if got != (pa, pb):
                    ctx.violation('with a cache directory a template renders differently than without: a stored module was reused for a '
                                  'template that differs in ' + what, {'a': a, 'b': b, 'order': label}, expected=[pa, pb], actual=list(got))
                    break
        # (b) crash at every step boundary, then a fresh process
        env = dict(os.environ, MALTHE_CHAMELEON_VERIF='1')
        expected = subprocess.run(['/venv/bin/python', '-c', AFTER_SCRIPT], capture_output=True, text=True, env={k: v for k, v in env.items() if k != 'CHAMELEON_CACHE'}).stdout
        for label, mode in [(l, m) for l in LABELS for m in ('flush', 'noflush')]:
            d = os.path.join(root, 'crash_' + label.replace(':', '_') + '_' + mode)
            os.mkdir(d)
            e2 = dict(env, CHAMELEON_CACHE=d)
            p = subprocess.run(['/venv/bin/python', '-c', CRASH_SCRIPT, label, mode], capture_output=True, text=True, env=e2)
            ctx.count('evaluations')
            nt += 1
            if p.returncode != 7:
                ctx.violation('crash injection did not fire at ' + label, {'label': label}, actual={'rc': p.returncode, 'err': p.stderr[-300:]})
                continue
            listing = sorted(n for n in os.listdir(d) if n.endswith('.py'))
            for n in listing:
                data = open(os.path.join(d, n), 'rb').read()
                if True:
                    # a stored entry must be a complete module
                    try:
                        compile(data, n, 'exec')
                        complete = data.startswith(HEADER) and b'def render' in data
                    except SyntaxError:
                        complete = False
                    if not complete:
                        ctx.violation('after a crash at %s (%s) the cache holds a truncated entry' % (label, mode), {'label': label, 'mode': mode, 'entry': n}, actual=data[-80:].decode('utf-8', 'replace'))
            q = subprocess.run(['/venv/bin/python', '-c', AFTER_SCRIPT], capture_output=True, text=True, env=e2)
            if q.returncode != 0 or q.stdout != expected:
                ctx.violation('a process started after a crash at %s (%s) does not render as without a cache' % (label, mode), {'label': label, 'mode': mode},
                              expected=expected, actual={'rc': q.returncode, 'out': q.stdout, 'err': q.stderr[-300:]})
        # (c) two writers, judged directly: the entry is absent or complete
        for s in all_schedules(4 if ctx.tier == 'quick' else 6):
            if 'A' not in s or 'B' not in s:
                continue
            d = os.path.join(root, 'w')
            os.mkdir(d)
            listing, events, tmps = real_schedule(d, s + ['A'] * 6)
            shutil.rmtree(d, ignore_errors=True)
            ctx.count('evaluations')
            nt += 1
            e = listing.get('entry.py')
            if e not in (None, 'full:1', 'full:2'):
                ctx.violation('two writers of one entry left a truncated or mixed module', {'schedule': s}, expected='absent or complete', actual=listing)
            if tmps[0] and tmps[0] == tmps[1]:
                ctx.violation('two writers shared one temporary file name', {'schedule': s}, actual=tmps)
        # (d) a warm cache (entries stored by an earlier process) and several threads of one process cooking the same templates at the same
        # moment: every thread gets the complete module (what a server sees on its first requests after a restart)
        wdir = os.path.join(root, 'warm')
        os.mkdir(wdir)
        env = dict(os.environ, CHAMELEON_CACHE=wdir)
        k = 12 if ctx.tier == 'quick' else 60
        subprocess.run(['/venv/bin/python', '-W', 'ignore', '-c', WARM_SCRIPT, str(k)], capture_output=True, text=True, env=env, timeout=300)
        q = subprocess.run(['/venv/bin/python', '-W', 'ignore', '-c', RACE_SCRIPT, str(k)], capture_output=True, text=True, env=env, timeout=600)
        ctx.count('evaluations', k)
        nt += k
        try:
            bad = json.loads(q.stdout)
        except Exception:
            bad = [{'worker': 'failed', 'err': q.stderr[-300:]}]
        if bad:
            ctx.violation('threads that cook the same template at the same time over a warm cache directory must all render as without a cache',
                          {'templates': k, 'threads': 4, 'cache': 'filled by an earlier process'}, expected='every thread renders <p>… n</p>', actual=bad[:5])
        # (e) the same situation with the labelled points of ModuleLoader._load recorded: the trace of every real run must be a run of
        # the step model (Sys/Load.lean: after each event the model has that thread at the program counter the event names), and the
        # model's verdict for it — every thread got a complete module — must be what the threads saw
        tdir = os.path.join(root, 'trace')
        os.mkdir(tdir)
        env = dict(os.environ, CHAMELEON_CACHE=tdir, MALTHE_CHAMELEON_VERIF='1')
        kk = 6 if ctx.tier == 'quick' else 30
        subprocess.run(['/venv/bin/python', '-W', 'ignore', '-c', WARM_SCRIPT, str(kk)], capture_output=True, text=True, env=env, timeout=300)
        for delay_at in ('load:created', 'load:executed', 'load:locked', 'none'):
            q = subprocess.run(['/venv/bin/python', '-W', 'ignore', '-c', TRACE_SCRIPT, str(kk), '3', delay_at], capture_output=True, text=True, env=env, timeout=600)
            try:
                runs = json.loads(q.stdout)
            except Exception:
                ctx.violation('the trace worker failed', {'delay_at': delay_at}, actual=q.stderr[-400:])
                continue
            outs = core.par_batch([{'op': 'load', 'threads': 3, 'events': r['events']} for r in runs])
            for r, o in zip(runs, outs):
                ctx.count('evaluations')
                nt += 1
                m = o.get('ok', {})
                if m.get('mismatches'):
                    ctx.disagree('ModuleLoader._load: the hook trace of a real run is not a run of the step model', {'events': r['events'], 'delay_at': delay_at},
                                 model=m, impl=r)
                if not all(r['results']):
                    ctx.violation('a thread of one process got an incomplete module from the warm cache', {'template': r['src'], 'events': r['events']},
                                  expected='every thread renders as without a cache', actual=r['results'])
                elif m.get('results') is not None and (len(m['results']) != 3 or not all(m['results'])):
                    ctx.disagree('ModuleLoader._load: the model says a thread of this trace gets an incomplete module, the threads rendered fine',
                                 {'events': r['events']}, model=m, impl=r)
    finally:
        shutil.rmtree(root, ignore_errors=True)
    ctx.counters['nontrivial'] = nt
    ctx.sample({'pair': {'a': {'boolean_attributes': None}, 'b': {'boolean_attributes': ['title']}, 'body': BODIES[5]}, 'orders': 3})
    # D-15b
    r = d15b()
    if r is not True:
        ctx.violation('a custom tokenizer influences compilation but is not part of the cache key', {'pair': 'tokenizer=None vs tokenizer=iter_text'},
                      expected='different keys', actual='same key', finding='D-15b' if r == 'same-key' else None)


def d15b():
    from chameleon import PageTemplate
    from chameleon.tokenize import iter_text
    a = PageTemplate('x')
    b = PageTemplate('x', tokenizer=iter_text)
    names = tuple(sorted(a.builtins))
    body = '<p>${1}</p>'
    return True if a.digest(body, names) != b.digest(body, names) else 'same-key'


def reproduce_finding(ctx, f):
    return None


def replay(ctx, case):
    v = case.get('violation', case)
    c = v['input']
    if 'schedule' in c:
        d = tempfile.mkdtemp(prefix='c15_')
        try:
            listing, events, tmps = real_schedule(d, c['schedule'])
        finally:
            shutil.rmtree(d, ignore_errors=True)
        return {'listing': listing, 'events': events}
    if 'a' in c and 'b' in c:
        root = tempfile.mkdtemp(prefix='c15_')
        try:
            plain = run_jobs([c['a'], c['b']])
            cached = run_jobs([c['a'], c['b']], root)
        finally:
            shutil.rmtree(root, ignore_errors=True)
        if plain != cached:
            ctx.violation('cache changes the rendering', c, expected=plain, actual=cached)
        return {'plain': plain, 'cached': cached}
    return {'case': c}

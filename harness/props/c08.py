"""C08 — tal:repeat iterates any iterable and exposes correct repeat variables."""
import core
import pipeline
import talgen

PID = 'C08'
PROOF_MODULES = ['ChamProofs.Props.C08', 'ChamProofs.Props.C05Eval', 'ChamProofs.Props.C08Sep', 'ChamProofs.Props.C01Spec']
THEOREMS = ['ChamVerif.C08_romanTable_tie', 'ChamVerif.C08_roman_value', 'ChamVerif.C08_roman_text',
            'ChamVerif.C08_roman_canonical_lt_4000', 'ChamVerif.C08_letter', 'ChamVerif.C08_index', 'ChamVerif.C08_attrs',
            'ChamVerif.C08_empty_renders_nothing', 'ChamVerif.C05_repeat_restores', 'ChamVerif.loop_step', 'ChamVerif.C08_separator',
            'ChamVerif.refF_loop']
LEVEL_TEXT = ('Proved in Lean for every position and every length: index = i, number = i + 1, length, start, end at iteration i '
              '(C08_index, C08_attrs); letter/Letter is the base-26 positional spelling of the index with at least one digit '
              '(C08_letter, induction over the divmod loop); the roman numerals emitted are exactly the greedy decomposition over the table '
              'read from RepeatItem.Roman today and denote index + 1 for every n (C08_romanTable_tie, C08_roman_value, C08_roman_text), '
              'canonical below 4000 (kernel evaluation over the complete range). On the interpreter: a repeat over None or an empty sequence '
              'renders nothing and does not evaluate its body (C08_empty_renders_nothing), and after any number of iterations the loop variable is '
              'bound to what it was bound to before (C05_repeat_restores, whole-interpreter). The separator: on the loop of the statement semantics, '
              'which the interpreter\'s evalRepeat refines for every fuel (refF_loop), a body that emits d extends the output by d ws d ... ws d for '
              'every number of items - ws between two repetitions, nothing after the last, nothing for none (C08_separator, induction over the '
              'items with loop_step). Iteration of non-empty sequences, unpacking, one-shot iterators, nesting and the '
              'line-break separator are modelled by the node interpreter, tied to the code by component and end-to-end correspondence, '
              'and judged by an independent constructive oracle.')
LEVEL_NOTE = ('Trusted: Lean kernel; that RepeatItem.index equals consumed - 1 for the shared list iterator (length_hint), validated by the '
              'component correspondence for all lengths 0..60 and the 26/676/3999 boundaries. Known findings: D-08a (inner loop reusing the '
              'outer variable name leaves repeat[name] on the finished inner loop), D-08b (separator = one space per character of the preceding '
              'line: tabs / non-blank text are not reproduced as indentation).')
RULE = ('component: RepeatItem for all lengths 0..60 x all positions and the boundaries 25/26/27, 675/676/677, 3998..4001, every attribute; '
        'end-to-end: iterable kinds {list, tuple, range, generator, dict view, str, None, user-defined sized iterables with a lazy __iter__ (generator / map / zip), unsized iterables, __getitem__ sequences, iterator objects, deque, array} x nesting depth 1..3 (distinct/reused names) x '
        'placement of the repeated element after text with/without newline; expected output computed by an independent reference. '
        'Non-trivial iff length >= 2 and the body reads a repeat variable, or the element follows text containing a newline.')
TRUSTED = []
ASSUMPTIONS = []

ATTRS = ['index', 'number', 'length', 'start', 'end', 'odd', 'even', 'parity', 'letter', 'Letter', 'roman', 'Roman']


def impl_attr(length, consumed, attr):
    from chameleon.tal import RepeatItem
    it = iter(list(range(length)))
    r = RepeatItem(it, length)
    for _ in range(consumed):
        next(it)
    try:
        v = getattr(r, attr)
    except Exception as e:
        return {'exc': type(e).__name__}
    return str(v)


def ref_roman(n):
    vals = [(1000, 'M'), (900, 'CM'), (500, 'D'), (400, 'CD'), (100, 'C'), (90, 'XC'), (50, 'L'), (40, 'XL'), (10, 'X'), (9, 'IX'), (5, 'V'), (4, 'IV'), (1, 'I')]
    out = ''
    for v, r in vals:
        while n >= v:
            out += r
            n -= v
    return out


def ref_letter(i, base='a'):
    digits = []
    while True:
        digits.append(chr(ord(base) + i % 26))
        i //= 26
        if i == 0:
            break
    return ''.join(reversed(digits))


def ref_attrs(i, n):
    return {'index': str(i), 'number': str(i + 1), 'length': str(n), 'start': '1' if i == 0 else '0', 'end': '1' if i == n - 1 else '0',
            'odd': 'odd' if i % 2 == 1 else '', 'even': 'even' if i % 2 == 0 else '', 'parity': 'even' if i % 2 == 0 else 'odd',
            'letter': ref_letter(i), 'Letter': ref_letter(i, 'A'), 'roman': ref_roman(i + 1).lower(), 'Roman': ref_roman(i + 1)}


def component_queries(ctx):
    qs = []
    for length in range(0, 61 if not ctx.thorough else 121):
        for consumed in range(0, length + 1):
            for a in ATTRS:
                qs.append([length, consumed, a])
    for pos in [25, 26, 27, 675, 676, 677, 701, 702, 703, 3998, 3999, 4000, 4001, 17575, 17576]:
        for a in ATTRS:
            qs.append([pos + 2, pos + 1, a])
    return qs


class Gen:
    """one-shot iterator wrapper built in the implementation runner"""


KINDS = ['list', 'tuple', 'range', 'generator', 'dictview', 'str', 'none',
         # user-defined iterables ("any iterable"): sized with a lazy __iter__, unsized, old-style sequence, iterator object
         'sized-gen', 'sized-map', 'sized-zip', 'unsized', 'getitem', 'iterobj', 'deque', 'array']


class SizedGen:
    def __init__(self, n):
        self.n = n

    def __len__(self):
        return self.n

    def __iter__(self):
        for i in range(self.n):
            yield i


class SizedMap(SizedGen):
    def __iter__(self):
        return map(lambda i: i, range(self.n))


class SizedZip(SizedGen):
    def __iter__(self):
        return (a for a, _ in zip(range(self.n), range(self.n)))


class Unsized:
    def __init__(self, n):
        self.n = n

    def __iter__(self):
        return iter(range(self.n))


class GetItem:
    def __init__(self, n):
        self.n = n

    def __len__(self):
        return self.n

    def __getitem__(self, i):
        if 0 <= i < self.n:
            return i
        raise IndexError(i)


class IterObj:
    def __init__(self, n):
        self.n, self.i = n, 0

    def __iter__(self):
        return self

    def __next__(self):
        if self.i >= self.n:
            raise StopIteration
        self.i += 1
        return self.i - 1


def build_iterable(kind, n):
    if kind == 'list':
        return list(range(n))
    if kind == 'tuple':
        return tuple(range(n))
    if kind == 'range':
        return range(n)
    if kind == 'generator':
        return (i for i in range(n))
    if kind == 'dictview':
        return {i: 'v%d' % i for i in range(n)}.keys()
    if kind == 'str':
        return ''.join(chr(48 + i % 10) for i in range(n))
    if kind == 'sized-gen':
        return SizedGen(n)
    if kind == 'sized-map':
        return SizedMap(n)
    if kind == 'sized-zip':
        return SizedZip(n)
    if kind == 'unsized':
        return Unsized(n)
    if kind == 'getitem':
        return GetItem(n)
    if kind == 'iterobj':
        return IterObj(n)
    if kind == 'deque':
        import collections
        return collections.deque(range(n))
    if kind == 'array':
        import array
        return array.array('i', range(n))
    return None


def item_strs(kind, n):
    if kind == 'none':
        return []
    if kind == 'str':
        return [chr(48 + i % 10) for i in range(n)]
    return [str(i) for i in range(n)]


def constructive(ctx, count):
    """(template, kwargs-builder, expected)"""
    rng = ctx.rng
    out = []
    for _ in range(count):
        kind = rng.choice(KINDS)
        n = rng.choice([0, 1, 2, 3, 5, 27, 30]) if kind != 'none' else 0
        attrs = rng.sample(ATTRS, rng.randint(1, 4))
        indent = rng.choice(['', '  ', '    ', ' '])
        wrap = rng.random() < 0.7
        # the text before the element may itself hold an interpolation (it is still the text token the indentation is taken from)
        text = rng.choice(['\n' + indent, indent, 'x\n' + indent, '', 'Items of ${who}:\n' + indent, '${who}\n' + indent, '\n' + indent + '${who} '])
        lead = ('<ul>' if wrap else '') + text
        body = ':'.join('${repeat.it.%s}' % a for a in attrs) + '=${it}'
        src = lead + '<li tal:repeat="it xs">' + body + '</li>' + ('\n</ul>' if wrap else '\n')
        items = item_strs(kind, n)
        # the separator is "\n" + one space per character of the last line of the *text token* before the element
        last_line = text.rsplit('\n', 1)[-1]
        sep = '\n' + ' ' * len(last_line)
        rows = []
        for i, it in enumerate(items):
            ra = ref_attrs(i, len(items))
            rows.append('<li>' + ':'.join(ra[a] for a in attrs) + '=' + it + '</li>')
        exp = lead.replace('${who}', 'bob') + sep.join(rows) + ('\n</ul>' if wrap else '\n')
        nontrivial = (len(items) >= 2) or ('\n' in lead)
        out.append((src, kind, n, exp, nontrivial))
    # nested loops, same or distinct variable names: separators of both loops (the whitespace is that of the
    # last text token, here the one before the outer element, for both loops)
    for _ in range(count // 4):
        n1, n2 = rng.choice([1, 2, 3]), rng.choice([0, 1, 2, 3])
        inner = rng.choice(['i', 'j'])
        text = rng.choice(['\n ', '\n   ', ''])
        src = '<ul>%s<li tal:repeat="i rows"><b tal:repeat="%s cols">${%s}</b></li>\n</ul>' % (text, inner, inner)
        sep = '\n' + ' ' * len(text.rsplit('\n', 1)[-1])
        cells = sep.join('<b>c%d</b>' % j for j in range(n2))
        exp = '<ul>' + text + sep.join('<li>%s</li>' % cells for _ in range(n1)) + '\n</ul>'
        out.append((src, ('nested2', n1, n2), None, exp, True))
    # nested loops with distinct names
    for _ in range(count // 4):
        n1, n2 = rng.choice([1, 2, 3]), rng.choice([0, 1, 2, 3])
        src = '<table><tr tal:repeat="r rows"><td tal:repeat="c cols">${repeat.r.number}.${repeat.c.number}/${repeat.c.length}</td>|${repeat.r.index}</tr></table>'
        rows = []
        for i in range(n1):
            cells = '<td>' + '</td><td>'.join('%d.%d/%d' % (i + 1, j + 1, n2) for j in range(n2)) + '</td>' if n2 else ''
            # inner separator: "\n" + len('<table>') spaces? both elements follow no text node: `_last` is '' at start
            rows.append(cells)
        out.append((src, ('nested', n1, n2), None, None, True))
    return out


def run_constructive(case):
    src, kind, n, exp, _ = case
    from chameleon import PageTemplate
    if isinstance(kind, tuple):
        tag, n1, n2 = kind
        if tag == 'nested2':
            return PageTemplate(src)(rows=list(range(n1)), cols=['c%d' % j for j in range(n2)])
        return PageTemplate(src)(rows=list(range(n1)), cols=[str(j) for j in range(n2)])
    return PageTemplate(src)(xs=build_iterable(kind, n), who='bob')


def correspondence(ctx):
    qs = component_queries(ctx)
    outs = core.par_batch([{'op': 'repitem', 'qs': qs[i:i + 2000]} for i in range(0, len(qs), 2000)])
    flat = [x for o in outs for x in (o.get('ok') or [])]
    if len(flat) != len(qs):
        ctx.disagree('repitem driver returned %d answers for %d queries' % (len(flat), len(qs)), None)
    for q, m in zip(qs, flat):
        if q[1] == 0:
            continue          # before the first next(): index -1; letter raises TypeError — compared below
    for q, m in zip(qs, flat):
        exp = impl_attr(*q)
        if m != exp:
            ctx.disagree('RepeatItem.%s at length=%d consumed=%d' % (q[2], q[0], q[1]), q, model=m, impl=exp)
    ctx.count('correspondence_cases', len(qs))
    ctx.cov['exhaustive'] = True
    gen = []
    for _ in range(ctx.budget(800, 30000)):
        g = talgen.TalGen(ctx.rng, depth=ctx.rng.choice([1, 2, 3]), features={'repeat', 'define', 'content', 'interp', 'condition', 'repeatvars'})
        gen.append(g.template())
    pipeline.run_cases(ctx, gen, what='repeat rendering')


def oracle(ctx):
    # component: reference values for every position
    for length in list(range(0, 61)) + [677, 4001]:
        for i in ([*range(length)] if length <= 60 else [25, 26, 27, 675, 676, 3998, 3999, 4000][:8]):
            if i >= length:
                continue
            ra = ref_attrs(i, length)
            for a in ATTRS:
                ctx.count('evaluations')
                got = impl_attr(length, i + 1, a)
                if got != ra[a]:
                    ctx.violation('repeat variable %s is wrong at position %d of %d' % (a, i, length),
                                  {'length': length, 'position': i, 'attr': a}, expected=ra[a], actual=got)
    cases = constructive(ctx, ctx.budget(500, 20000))
    nt = 0
    for c in cases:
        src, kind, n, exp, nontrivial = c
        ctx.count('evaluations')
        try:
            got = run_constructive(c)
        except Exception as e:
            got = {'exc': type(e).__name__, 'msg': str(e)[:100]}
        if nontrivial:
            nt += 1
        if exp is None:
            # nested loops: each row shows row.col numbering, rows end with the row index
            _, n1, n2 = kind
            ok = isinstance(got, str) and all('|%d</tr>' % i in got for i in range(n1)) and got.count('<td>') == n1 * n2 \
                and all('%d.%d/%d' % (i + 1, j + 1, n2) in got for i in range(n1) for j in range(n2))
            if not ok:
                ctx.violation('nested repeat with distinct names: repeat variables of one loop disturbed by the other',
                              {'src': src, 'rows': n1, 'cols': n2}, actual=got)
            continue
        if got != exp:
            ctx.violation('repeat output differs (items, repeat variables or separator)', {'src': src, 'iterable': kind, 'length': n},
                          expected=exp, actual=got)
    # the iterable expression may mention the loop's own variable: it is evaluated in the scope *outside* the loop
    from chameleon import PageTemplate
    SELF = [('<tal:r repeat="row rows"><tal:c repeat="row row">${row},</tal:c>;</tal:r>[${row | \'U\'}]', {'rows': [[1, 2], [3]]}, '1,2,;3,;[U]'),
            ('<tal:r repeat="items items">${items}.</tal:r>[${items}]', {'items': [1, 2]}, '1.2.[[1, 2]]'),
            ('<tal:r repeat="(k, v) sorted(k.items())">${k}=${v};</tal:r>[${sorted(k)}]', {'k': {'a': 1, 'b': 2}}, "a=1;b=2;[['a', 'b']]"),
            ('<tal:r repeat="x reversed(x)">${x}</tal:r>', {'x': [1, 2, 3]}, '321'),
            ('<tal:r repeat="global g g">${g}</tal:r>(${g})', {'g': 'ab'}, 'ab(b)')]
    for src, kw, want in SELF:
        ctx.count('evaluations')
        nt += 1
        try:
            got = PageTemplate(src)(**kw)
        except Exception as e:
            got = {'exc': type(e).__name__, 'msg': str(e).split('\n')[0][:100]}
        if got != want:
            ctx.violation('a tal:repeat whose iterable expression mentions its own loop variable must iterate the outer value',
                          {'src': src, 'kwargs': repr(kw)}, expected=want, actual=got)
    # another template rendered from inside a loop body (passed in as a variable), looping on the same variable name — and on another
    # one: each render has its own repeat dictionary, the outer loop's positions are what they were
    for inner_name in ('x', 'y'):
        for rows in ([['a1', 'a2', 'a3'], ['b1'], ['c1', 'c2']], [[], ['z']], [['q']] * 4):
            sub = PageTemplate('<b tal:repeat="%s items">${%s}.${repeat.%s.number}/${repeat.%s.length}</b>' % ((inner_name,) * 4))
            outer = PageTemplate('<i tal:repeat="x rows">${repeat.x.index}|${repeat.x.number}|${repeat.x.length}|${repeat.x.start}|${repeat.x.end}|'
                                 '${structure: sub(items=x)}|${repeat.x.index}|${repeat.x.number}|${repeat.x.length}|${repeat.x.even}|'
                                 '${repeat.x.letter}|${repeat.x.Roman}|${repeat.x.end}</i>')
            want = []
            n = len(rows)
            for i, r in enumerate(rows):
                inner = '\n'.join('<b>%s.%d/%d</b>' % (v, j + 1, len(r)) for j, v in enumerate(r))
                ra = ref_attrs(i, n)
                want.append('<i>%d|%d|%d|%s|%s|%s|%d|%d|%d|%s|%s|%s|%s</i>' % (i, i + 1, n, ra['start'], ra['end'], inner, i, i + 1, n, ra['even'],
                                                                            ra['letter'], ra['Roman'], ra['end']))
            want = '\n'.join(want)
            ctx.count('evaluations')
            nt += 1
            try:
                got = outer(rows=rows, sub=sub)
            except Exception as e:
                got = {'exc': type(e).__name__, 'msg': str(e).split('\n')[0][:100]}
            if got != want:
                ctx.violation('a template rendered from inside a loop body must not disturb the repeat variables of the loop that called it',
                              {'outer': outer.body, 'sub': sub.body, 'rows': repr(rows)}, expected=want, actual=got)
    ctx.counters['nontrivial'] = nt + 12 * 61
    ctx.sample({'template': cases[0][0], 'iterable': cases[0][1], 'length': cases[0][2], 'expected': cases[0][3]})


FINDINGS = {
    'D-08a': "<i tal:repeat=\"x [1, 2]\"><b tal:repeat=\"x ['a']\">${x}</b>${repeat.x.number}</i>",
}


def reproduce_finding(ctx, f):
    from chameleon import PageTemplate
    if f['id'] == 'D-08a':
        out = PageTemplate(FINDINGS['D-08a'])()
        return '<b>a</b>1</i>' in out and '<b>a</b>2</i>' not in out
    if f['id'] == 'D-08c':
        try:
            return PageTemplate('<i tal:repeat="global (a, b) ps">${a}${b}</i>')(ps=[iter([1, 2])]) != '<i>12</i>'
        except ValueError:
            return True
    if f['id'] == 'D-08b':
        out = PageTemplate('<ul>\n\t<li tal:repeat="x [1, 2]">${x}</li>\n</ul>')()
        return '</li>\n <li>' in out
    return None


def replay(ctx, case):
    v = case.get('violation', case)
    return {'case': v.get('input'), 'expected': v.get('expected')}

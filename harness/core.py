"""Shared machinery of the checks: build, driver, audit, evidence, findings, violation protocol."""
from __future__ import annotations

import fcntl
import hashlib
import json
import os
import random
import re
import subprocess
import sys
import time

VERIF = os.path.dirname(os.path.dirname(os.path.abspath(__file__)))
REPO = os.environ.get('VERIF_REPO', '/repo')
LEAN = os.path.join(VERIF, 'lean')
PY = '/venv/bin/python'
DRIVER = os.path.join(LEAN, '.lake', 'build', 'bin', 'chamdriver')
ALLOWED_AXIOMS = {'propext', 'Classical.choice', 'Quot.sound'}
FORBIDDEN = re.compile(r'\bsorry\b|\badmit\b|^\s*axiom\s|native_decide|bv_decide|implemented_by|\bunsafe\s|maxHeartbeats\s+0\b', re.M)

sys.path.insert(0, os.path.join(REPO, 'src'))


def log(*a):
    print(*a, file=sys.stderr, flush=True)


class Timer:
    def __init__(self):
        self.t0 = time.time()

    def s(self):
        return round(time.time() - self.t0, 2)


# ----------------------------------------------------------------------------- build

class BuildResult:
    def __init__(self):
        self.extract_ok = True
        self.extract_log = ''
        self.model_ok = True
        self.model_log = ''
        self.proofs_ok = True
        self.proofs_log = ''
        self.broken = []       # names of theorems / modules that no longer check
        self.gen_changed = ''


def _run(cmd, cwd=None, timeout=3600, env=None):
    e = dict(os.environ)
    if env:
        e.update(env)
    p = subprocess.run(cmd, cwd=cwd, capture_output=True, text=True, timeout=timeout, env=e)
    return p.returncode, p.stdout + p.stderr


class BuildLock:
    def __enter__(self):
        os.makedirs(os.path.join(LEAN, '.lake'), exist_ok=True)
        self.f = open(os.path.join(LEAN, '.lake', 'verif.lock'), 'w')
        fcntl.flock(self.f, fcntl.LOCK_EX)
        return self

    def __exit__(self, *a):
        fcntl.flock(self.f, fcntl.LOCK_UN)
        self.f.close()


def build(proof_modules, everything=False) -> BuildResult:
    """extract facts from /repo, build model + driver, then the proof modules of this property"""
    r = BuildResult()
    with BuildLock():
        rc, out = _run([PY, os.path.join(VERIF, 'harness', 'extract.py')], env={'VERIF_REPO': REPO})
        r.extract_log = out
        r.extract_ok = rc == 0
        m = re.search(r'extract: changed=(\S+)', out)
        r.gen_changed = m.group(1) if m else ''
        rc, out = _run(['lake', 'build', 'ChamVerif', 'chamdriver'], cwd=LEAN)
        r.model_ok = rc == 0
        r.model_log = out
        targets = ['ChamProofs'] if everything else list(proof_modules)
        if targets:
            rc, out = _run(['lake', 'build'] + targets, cwd=LEAN)
            r.proofs_ok = rc == 0
            r.proofs_log = out
            if rc != 0:
                r.broken = parse_broken(out)
    return r


def parse_broken(out):
    """names the declarations/files in which lake reported errors"""
    broken = []
    for m in re.finditer(r'error: (\S+?\.lean):(\d+):(\d+)', out):
        path, line = m.group(1), int(m.group(2))
        name = decl_at(os.path.join(LEAN, path), line)
        item = '%s:%d%s' % (path, line, (' (' + name + ')') if name else '')
        if item not in broken:
            broken.append(item)
    if not broken:
        for m in re.finditer(r'^- (\S+)$', out, re.M):
            broken.append(m.group(1))
    return broken or ['lake build failed']


def decl_at(path, line):
    try:
        lines = open(path, encoding='utf-8').read().split('\n')
    except OSError:
        return None
    for i in range(min(line, len(lines)) - 1, -1, -1):
        m = re.match(r'\s*(?:@\[[^\]]*\]\s*)?(?:private\s+|protected\s+)?(theorem|lemma|def|example|instance|abbrev)\s+(\S+)?', lines[i])
        if m:
            return '%s %s' % (m.group(1), m.group(2) or '')
    return None


# ----------------------------------------------------------------------------- audit

def strip_comments(src):
    # remove /- ... -/ (nested) and -- ... comments
    out = []
    i = 0
    depth = 0
    n = len(src)
    while i < n:
        if src.startswith('/-', i):
            depth += 1
            i += 2
        elif depth and src.startswith('-/', i):
            depth -= 1
            i += 2
        elif depth:
            i += 1
        elif src.startswith('--', i):
            while i < n and src[i] != '\n':
                i += 1
        else:
            out.append(src[i])
            i += 1
    return ''.join(out)


def grep_forbidden():
    hits = []
    for root, _, files in os.walk(LEAN):
        if '.lake' in root:
            continue
        for f in files:
            if f.endswith('.lean'):
                p = os.path.join(root, f)
                src = strip_comments(open(p, encoding='utf-8').read())
                src = re.sub(r'"(?:\\.|[^"\\])*"', '""', src)
                for m in FORBIDDEN.finditer(src):
                    hits.append('%s: %s' % (os.path.relpath(p, LEAN), m.group(0).strip()))
    return hits


def audit(theorems, imports):
    """#print axioms for every property theorem; returns {name: [axioms]} and problems"""
    if not theorems:
        return {}, []
    src = ''.join('import %s\n' % i for i in imports)
    src += ''.join('#print axioms %s\n' % t for t in theorems)
    path = os.path.join(LEAN, '.lake', 'audit_%d.lean' % os.getpid())
    with open(path, 'w') as f:
        f.write(src)
    try:
        rc, out = _run(['lake', 'env', 'lean', path], cwd=LEAN)
    finally:
        os.unlink(path)
    res = {}
    problems = []
    for t in theorems:
        short = t
        m = re.search(r"'%s' depends on axioms: \[([^\]]*)\]" % re.escape(short), out)
        if m:
            ax = [a.strip() for a in m.group(1).replace('\n', ' ').split(',') if a.strip()]
            res[t] = ax
            bad = [a for a in ax if a not in ALLOWED_AXIOMS]
            if bad:
                problems.append('%s depends on non-standard axioms %s' % (t, bad))
        elif re.search(r"'%s' does not depend on any axioms" % re.escape(short), out):
            res[t] = []
        else:
            problems.append('%s: not found / not checked' % t)
    if rc != 0 and not problems:
        problems.append('audit file failed: ' + out[-400:])
    return res, problems


def leanchecker(modules):
    """thorough tier: re-check the compiled proof modules with Lean's independent .olean checker"""
    if not modules:
        return True, ''
    try:
        rc, out = _run(['lake', 'env', 'leanchecker'] + list(modules), cwd=LEAN)
    except Exception as e:      # a missing tool is reported, not hidden
        return False, 'leanchecker could not be run: %r' % (e,)
    return rc == 0, out[-400:]


# ----------------------------------------------------------------------------- driver

class Driver:
    """batch interface to the compiled model driver.  A request on which the model does not
    answer within the time limit gets the answer {'timeout': True}; callers skip such cases
    (they are counted, never judged)."""

    def __init__(self):
        self.available = os.path.exists(DRIVER)

    def _run(self, part, timeout):
        inp = ''.join(json.dumps(r, ensure_ascii=False, separators=(',', ':')) + '\n' for r in part)
        p = subprocess.run([DRIVER], input=inp.encode('utf-8'), capture_output=True, timeout=timeout)
        lines = p.stdout.decode('utf-8').split('\n')
        if lines and lines[-1] == '':
            lines.pop()
        if len(lines) != len(part):
            raise RuntimeError('driver returned %d lines for %d requests (rc=%s, stderr=%s)'
                               % (len(lines), len(part), p.returncode, p.stderr[-300:]))
        return [json.loads(x) for x in lines]

    def batch(self, reqs, timeout=40, chunk=4000):
        outs = []
        for i in range(0, len(reqs), chunk):
            outs.extend(self._robust(reqs[i:i + chunk], timeout))
        return outs

    def _robust(self, part, timeout):
        try:
            return self._run(part, timeout)
        except subprocess.TimeoutExpired:
            if len(part) == 1:
                return [{'timeout': True}]
            h = len(part) // 2
            t = max(5, timeout // 2)
            return self._robust(part[:h], t) + self._robust(part[h:], t)


def par_batch(reqs, workers=None):
    """run a big batch through several driver processes"""
    from concurrent.futures import ThreadPoolExecutor
    workers = workers or min(16, max(1, len(reqs) // 1000))
    if workers <= 1:
        return Driver().batch(reqs)
    n = (len(reqs) + workers - 1) // workers
    parts = [reqs[i:i + n] for i in range(0, len(reqs), n)]
    with ThreadPoolExecutor(len(parts)) as ex:
        res = list(ex.map(lambda p: Driver().batch(p), parts))
    return [x for r in res for x in r]


class ImplTimeout(Exception):
    pass


def limited(fn, *a, seconds=10, **kw):
    """call the implementation with a wall-clock limit (main thread only); raises ImplTimeout"""
    import signal

    def handler(signum, frame):
        raise ImplTimeout()
    old = signal.signal(signal.SIGALRM, handler)
    signal.alarm(seconds)
    try:
        return fn(*a, **kw)
    finally:
        signal.alarm(0)
        signal.signal(signal.SIGALRM, old)


# ----------------------------------------------------------------------------- findings

def load_findings():
    p = os.path.join(VERIF, 'known_findings.json')
    try:
        return json.load(open(p))
    except FileNotFoundError:
        return {'findings': [], 'fixed': []}


# ----------------------------------------------------------------------------- context / result

class Ctx:
    def __init__(self, pid, tier, seed):
        self.pid = pid
        self.tier = tier
        self.thorough = tier == 'thorough'
        self.seed = seed
        self.rng = random.Random((seed * 1000003) ^ int(hashlib.sha1(pid.encode()).hexdigest()[:8], 16))
        self.timer = Timer()
        self.escalate = False       # set when a proof / the correspondence broke: search harder
        self.findings = [f for f in load_findings().get('findings', []) if f.get('property') == pid]
        self.known_hits = {}        # finding id -> example
        self.violations = []        # dicts: what, input, expected, actual
        self.disagreements = []     # correspondence disagreements (not violations by themselves)
        self.cov = {}
        self.samples = []
        self.counters = {}

    def count(self, key, n=1):
        self.counters[key] = self.counters.get(key, 0) + n

    def sample(self, x, limit=8):
        if len(self.samples) < limit:
            self.samples.append(x)

    def budget(self, quick, thorough):
        n = thorough if self.thorough else quick
        if self.escalate and not self.thorough:
            n = max(n, min(thorough, quick * 4))
        return n

    def known(self, fid, example):
        """record a failure that is an instance of a listed known finding"""
        if not any(f['id'] == fid for f in self.findings):
            return False
        self.known_hits.setdefault(fid, example)
        return True

    def violation(self, what, case, expected=None, actual=None, finding=None):
        """a failure of the property itself on the implementation.  `finding` is the id of the
        known finding the classifier (mechanically) attributes it to, if any."""
        if finding and self.known(finding, case):
            self.count('known_finding_instances')
            return
        if len(self.violations) < 50:
            self.violations.append({'what': what, 'input': case, 'expected': expected, 'actual': actual})

    def disagree(self, what, case, model=None, impl=None):
        if len(self.disagreements) < 50:
            self.disagreements.append({'what': what, 'input': case, 'model': model, 'impl': impl})


def write_json(path, obj):
    os.makedirs(os.path.dirname(path), exist_ok=True)
    tmp = path + '.tmp%d' % os.getpid()
    # lone surrogates (they occur in generated inputs) are written as \\udXXX escapes: still valid JSON
    with open(tmp, 'w', encoding='utf-8', errors='backslashreplace') as f:
        json.dump(obj, f, indent=1, ensure_ascii=False, default=repr)
        f.write('\n')
    os.replace(tmp, path)


def jhash(obj):
    return hashlib.sha1(json.dumps(obj, sort_keys=True, default=repr, ensure_ascii=False).encode('utf-8', 'backslashreplace')).hexdigest()[:12]

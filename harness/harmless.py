"""Run the quick checks against behaviour-preserving refactorings of /repo (harmless/<name>/patch.diff): none may raise an alarm.

  harmless.py run <name> [<PID> ...]     apply, run the checks (all 20 by default), undo, record the verdicts in harmless/<name>/meta.json
"""
import json
import os
import subprocess
import sys

VERIF = os.path.dirname(os.path.dirname(os.path.abspath(__file__)))
REPO = os.environ.get('VERIF_REPO', '/repo')
ALL = ['C%02d' % i for i in range(1, 21)]


def sh(cmd, cwd=None, timeout=3600):
    p = subprocess.run(cmd, shell=True, cwd=cwd, capture_output=True, text=True, timeout=timeout)
    return p.returncode, p.stdout + p.stderr


def run(name, pids):
    d = os.path.join(VERIF, 'harmless', name)
    mp = os.path.join(d, 'meta.json')
    meta = json.load(open(mp)) if os.path.exists(mp) else {'name': name, 'checks': {}}
    rc, out = sh('git status --short', cwd=REPO)
    assert not out.strip(), '/repo not clean: ' + out
    rc, out = sh('git apply %s' % os.path.join(d, 'patch.diff'), cwd=REPO)
    assert rc == 0, 'patch does not apply: ' + out
    saved = {}
    for pid in pids:
        ev = os.path.join(VERIF, 'evidence', pid + '.json')
        if os.path.exists(ev):
            saved[ev] = open(ev, 'rb').read()
    try:
        rc, out = sh('/venv/bin/python -m pytest -q -p no:cacheprovider --timeout=900 2>&1 | tail -1', cwd=REPO)
        meta['suite'] = out.strip()
        for pid in pids:
            rc, out = sh('./check %s --tier quick' % pid, cwd=VERIF)
            lines = [l for l in out.split('\n') if l.startswith(('VIOLATION', 'OK ', 'TIMEOUT'))]
            meta['checks'][pid] = {'rc': rc, 'line': (lines or [''])[-1][:300]}
            print(name, pid, 'rc=%d' % rc, meta['checks'][pid]['line'], flush=True)
    finally:
        sh('git checkout -- .', cwd=REPO)
        for ev, data in saved.items():
            open(ev, 'wb').write(data)
    json.dump(meta, open(mp, 'w'), indent=1)


if __name__ == '__main__':
    run(sys.argv[2], sys.argv[3:] or ALL)

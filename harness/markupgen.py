"""Grammar-directed generator of statement-free markup documents (well-formed and tag soup)
with randomised lexical detail.  Every random choice comes from the rng passed in."""
import re

NAMES = ['a', 'div', 'p', 'br', 'input', 'span', 'é', 'x:y', 'B', 'h1', 'td', 'option', 'a-b', 'a.b', '_u']
ATTR_NAMES = ['b', 'class', 'id', 'href', 'n', 'name', 't', 'title', 'rt', 'rel', 'type', 'checked', 'disabled',
              'data-x', 'data-x-y', 'xml:lang', 'É', 'Class', 'a1', 'on-click', 'v.w', 'nt', 'r', 'tr', 'Ñ']
WS = [' ', ' ', ' ', '  ', '\n', '\t', '\n  ', ' \t', '\r\n']
TEXTS = ['x', 'hello world', ' ', '\n', '\n  ', 'a &amp; b', '&lt;', '&#160;', '&nbsp;', 'é ü 漢', '>', 'a > b', '&',
         '& b', 'x;y', '"q"', "'s'", '{', '}', '$', '$x', '{}', '1 = 2', 'a\r\nb', 'tab\there', ']]>', '-->', '?>',
         'a=b', '/', '\\n', 'x\\']
VALUES = ['', '1', 'x y', 'a&amp;b', 'é', 'a>b', "it's", 'say "hi"', '&#34;', 'a/b', 'x=1', ' pad ', 'a\nb', '{x}', '$', '&',
          'n', 'javascript:void(0)', 'a;b', '\\', 'a\\nb']


def attr(rng):
    name = rng.choice(ATTR_NAMES)
    form = rng.random()
    sp = rng.choice(WS)
    if form < 0.45:
        v = rng.choice(VALUES).replace('"', '&quot;')
        eq = rng.choice(['=', '=', '=', ' = ', '= ', ' =', '\n=\n'])
        return '%s%s%s"%s"' % (sp, name, eq, v)
    if form < 0.65:
        v = rng.choice(VALUES).replace("'", '&#39;')
        eq = rng.choice(['=', '=', ' = '])
        return "%s%s%s'%s'" % (sp, name, eq, v)
    if form < 0.8:
        v = rng.choice(['1', 'x', 'abc', 'a-b', '#f', '10%', 'é', 'a&amp;b', 'n'])
        return '%s%s=%s' % (sp, name, v)
    return '%s%s' % (sp, name)


def start_tag(rng, name, selfclose=False):
    n = rng.choice([0, 0, 1, 1, 2, 3, 5])
    parts = [attr(rng) for _ in range(n)]
    # tag-soup detail: now and then an attribute is glued to the previous one without whitespace
    parts = [a.lstrip() if (i > 0 and rng.random() < 0.12) else a for i, a in enumerate(parts)]
    s = '<' + name + ''.join(parts)
    s += rng.choice(['', '', '', ' ', '\n', '  '])
    s += '/>' if selfclose else '>'
    return s


def end_tag(rng, name):
    return '</' + name + rng.choice(['', '', '', '', ' ', '\n', '  ']) + '>'


def misc(rng):
    k = rng.random()
    if k < 0.3:
        body = rng.choice([' c ', 'x', ' a - b ', '', ' <b> ', ' é ', '\n multi\n line\n', ' a -b- c '])
        return '<!--' + body + '-->'
    if k < 0.5:
        return '<![CDATA[' + rng.choice(['x', ' <a> & ', '', ']', 'a]]b', '\n']) + ']]>'
    if k < 0.7:
        return rng.choice(['<!DOCTYPE html>', '<!DOCTYPE html PUBLIC "-//W3C//DTD XHTML 1.0 Strict//EN" "http://www.w3.org/TR/xhtml1/DTD/xhtml1-strict.dtd">',
                           '<!doctype html>', '<!ELEMENT x (y)>', '<!DOCTYPE a [<!ENTITY b "c">]>'])
    return rng.choice(['<?php echo 1; ?>', '<?pi?>', '<?x y="z"?>', '<?foo   bar ?>', '<?a\nb?>'])


def content(rng, depth):
    out = []
    for _ in range(rng.choice([0, 1, 1, 2, 3])):
        k = rng.random()
        if k < 0.4:
            out.append(rng.choice(TEXTS))
        elif k < 0.85 and depth > 0:
            out.append(element(rng, depth - 1))
        else:
            out.append(misc(rng))
    return ''.join(out)


def element(rng, depth):
    name = rng.choice(NAMES)
    k = rng.random()
    if k < 0.15:
        return start_tag(rng, name, selfclose=True)
    if k < 0.25:
        return start_tag(rng, name)          # unclosed
    return start_tag(rng, name) + content(rng, depth) + end_tag(rng, name)


SOUP_CHARS = list('<>/="\' \n-!?[]&;abn:') + ['é']


def document(rng, soup=False):
    parts = []
    if rng.random() < 0.15:
        parts.append(rng.choice(['<?xml version="1.0"?>', '<?xml version="1.0" encoding="utf-8"?>\n', "<?xml version='1.0' ?>"]))
    if rng.random() < 0.2:
        parts.append(rng.choice(['<!DOCTYPE html>\n', '<!doctype html>']))
    for _ in range(rng.choice([1, 1, 2, 3])):
        parts.append(rng.choice(TEXTS) if rng.random() < 0.3 else element(rng, rng.choice([0, 1, 2, 3])))
    doc = ''.join(parts)
    if soup:
        doc = re.sub(r'<!DOCTYPE html PUBLIC[^>]*>', '<!DOCTYPE html>', doc)
        l = list(doc)
        for _ in range(rng.randint(1, 4)):
            if l and rng.random() < 0.5:
                del l[rng.randrange(len(l))]
            else:
                l.insert(rng.randint(0, len(l)), rng.choice(SOUP_CHARS))
        doc = ''.join(l)
    # statement-free: no interpolation, no $$, no template comments
    doc = doc.replace('${', '$ {').replace('$$', '$ $').replace('<!--!', '<!-- !').replace('<!--?', '<!-- ?')
    doc = doc.replace('<?python', '<?pyth0n')
    return doc


CORPUS = [
    '<a b n="1">', '<input disabled rt="1">', '<p>x</p >', '<p>x</p\n>', '<a b="1" c=\'2\' d=3 e>x</a>',
    '<a\n b = "1"\n/>', '<br/ >', '<a/b>', '<a =>', '<a b=1 b=2 />', '<foo:a b="1">x</foo:a>',
    '<!DOCTYPE html>\n<html><head><title>t</title></head><body class="x">\r\n<p>a<br>b</p></body></html>',
    '<?xml version="1.0"?>\r\n<a>\r\n</a>', '<a b="x>y">', "<a b='x\"y'/>", '<a><b></a></b>', '<a></b></a>', '</a>',
    '<!-- a -- b -->', '<!--->', '<![CDATA[x]]>', '<a x:y="1"/>', '<a xml:lang="en"/>', '<a b=>', '<a b="1"c="2">',
    '<a b = c>', '<a b c d>', '<a disabled n>', '<a n t r>', '<a b\tn="1">', '<a b\nn="1">', '<a é="1" Ñ>',
    '<a 1="2">', '<img src="a.png"alt="" width="1"/>', "<li class='a'id='b' title='c'>item</li>", '<a b="1"c="2" d="3">x',
    '<input type="checkbox"checked name="n">', '<a b=\'1\' b="2">', 'plain', '', '<', '<a', '<a b="', '&amp; &#160; &bogus;', '<a>&lt;</a>',
]


def has_tag_with_attr(doc):
    return re.search(r'<[^\s<>/!?]+\s+[^\s<>/=]+', doc) is not None

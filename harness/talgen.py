"""Grammar-directed generator of TAL templates + bindings (all random choices from the rng passed in).

Values are described as ValSpec JSON (the model's `Val`), from which `pyval` builds the real
Python object, so both sides see the same value by construction.

Expressions are drawn from the modelled Python subset; evaluation order and multiplicity are made
observable by the recorder `R(key, value[, 'ExcName'])`, which logs `key` and returns `value`
(or raises ExcName(key))."""
import builtins

NAMES = ['a', 'b', 'c', 'x', 'y', 'item', 'n']
COLLIDING = ['len', 'str', 'id', 'type', 'list', 'get', 'getname', 're', 'functools', 'intern', 'convert', 'target_language']
EXC_CAUGHT = ['AttributeError', 'NameError', 'LookupError', 'KeyError', 'IndexError', 'TypeError', 'ValueError']
EXC_UNCAUGHT = ['ZeroDivisionError', 'RuntimeError', 'AssertionError', 'OSError', 'Exception']
TAGS = ['p', 'div', 'span', 'b', 'li', 'td', 'i']
STATIC_ATTRS = [('class', 'k'), ('id', 'i1'), ('title', 'T t'), ('href', '#'), ('data-x', '1'), ('CLASS', 'K'), ('checked', 'checked'),
                ('selected', ''), ('alt', 'a&amp;b')]


class Recorder:
    def __init__(self):
        self.log = []

    def __call__(self, key, value=None, exc=None):
        self.log.append(key)
        if exc is not None:
            raise getattr(builtins, exc)(key)
        return value


class Obj:
    def __init__(self, spec, tab):
        self._spec = spec
        self._tab = tab
        for k, v in spec.get('attrs', []):
            setattr(self, k['str'] if isinstance(k, dict) else k, pyval(v, tab))
        if spec.get('html') is not None:
            self.__html__ = lambda: spec['html']

    def __str__(self):
        return self._spec['str']

    def __bool__(self):
        return self._spec.get('truthy', True)

    def __repr__(self):
        return '<Obj %s>' % self._spec['str']


class ObjItems(Obj):
    def __getitem__(self, key):
        for k, v in self._spec.get('items', []):
            if pyval(k, self._tab) == key:
                return pyval(v, self._tab)
        raise KeyError(key)


ObjItems.__name__ = 'Obj'
ObjItems.__qualname__ = 'Obj'


CURRENT_LIBS = []


def pyval(spec, tab, rec=None):
    if spec is None or isinstance(spec, (bool, int)):
        return spec
    if isinstance(spec, str):
        return spec
    if 'str' in spec and len(spec) == 1:
        return spec['str']
    if 'bytes' in spec:
        return spec['bytes'].encode('utf-8')
    if 'list' in spec:
        return [pyval(x, tab, rec) for x in spec['list']]
    if 'tuple' in spec:
        return tuple(pyval(x, tab, rec) for x in spec['tuple'])
    if 'dict' in spec:
        return {pyval(k, tab, rec): pyval(v, tab, rec) for k, v in spec['dict']}
    if 'obj' in spec:
        o = tab[spec['obj']]
        return (ObjItems if o.get('getitem') else Obj)(o, tab)
    if 'markup' in spec:
        from chameleon.utils import Markup
        return Markup(spec['markup'])
    if 'fn' in spec:
        return rec
    if 'template' in spec:
        # library template k (1-based) of the case being run: pipeline.run_impl builds them first
        return CURRENT_LIBS[spec['template'] - 1]
    if 'dflt' in spec:
        from chameleon.zpt.template import PageTemplate
        return PageTemplate.default_marker.value if hasattr(PageTemplate.default_marker, 'value') else None
    raise ValueError(spec)


SCALARS = [None, True, False, 0, 1, 5, {'str': ''}, {'str': 'a'}, {'str': 'x<y'}, {'str': 'q"u\'o'}, {'str': 'A & B'}, {'str': 'é'}]


class TalGen:
    def __init__(self, rng, features=None, depth=3, colliding=False, faults=False):
        self.rng = rng
        self.f = features or {'define', 'condition', 'repeat', 'switch', 'content', 'replace', 'omit', 'attributes',
                              'onerror', 'interp', 'pipes', 'prefixes', 'raise'}
        self.depth = depth
        self.k = 0
        self.vars = {}
        self.objs = []
        self.pool = (NAMES + COLLIDING) if colliding else NAMES
        self.stats = {}
        self.loops = []

    def stat(self, k):
        self.stats[k] = self.stats.get(k, 0) + 1

    # ---- values
    def value(self, depth=1):
        r = self.rng.random()
        if r < 0.6 or depth <= 0:
            return self.rng.choice(SCALARS)
        if r < 0.8:
            return {'list': [self.value(depth - 1) for _ in range(self.rng.choice([0, 1, 2, 3]))]}
        if r < 0.9:
            return {'dict': [[{'str': k}, self.value(depth - 1)] for k in self.rng.sample(['a', 'b', 'class', 'id'], self.rng.choice([0, 1, 2]))]}
        if r < 0.95:
            return {'tuple': [self.value(0), self.value(0)]}
        self.objs.append({'str': self.rng.choice(['obj', '<o>', 'O&O']), 'truthy': self.rng.random() < 0.8,
                          'attrs': [[{'str': 'a'}, self.value(0)]], 'items': [[{'str': 'b'}, self.value(0)]], 'getitem': True})
        return {'obj': len(self.objs) - 1}

    def bind(self):
        for n in self.rng.sample(self.pool, self.rng.randint(2, min(5, len(self.pool)))):
            self.vars[n] = self.value(2)
        self.vars['xs'] = {'list': [self.value(0) for _ in range(self.rng.choice([0, 1, 2, 3]))]}
        self.vars['pair'] = {'tuple': [self.value(0), self.value(0)]}
        self.vars['pairs'] = {'list': [{'tuple': [self.value(0), self.value(0)]} for _ in range(self.rng.choice([0, 1, 2]))]}
        self.vars['d'] = {'dict': [[{'str': k}, self.value(0)] for k in self.rng.sample(['class', 'id', 'title', 'a'], self.rng.choice([0, 1, 2]))]}

    # ---- expressions
    def key(self):
        self.k += 1
        return 'k%d' % self.k

    def lit(self):
        r = self.rng.random()
        if r < 0.3:
            return str(self.rng.choice([0, 1, 2, 7]))
        if r < 0.6:
            return repr(self.rng.choice(['', 's', 'a b', 'x<y']))
        return self.rng.choice(['None', 'True', 'False'])

    def name(self, scope):
        known = list(scope)
        r = self.rng.random()
        if r < 0.85 and known:
            return self.rng.choice(known)
        return self.rng.choice(['nope', 'missing'])

    def pexpr(self, scope, depth=2):
        r = self.rng.random()
        if self.loops and 'repeatvars' in self.f and self.rng.random() < 0.35:
            self.stat('repeatvar')
            nm = self.rng.choice(self.loops)
            attr = self.rng.choice(['index', 'number', 'length', 'start', 'end', 'odd', 'even', 'parity', 'letter', 'Letter', 'roman', 'Roman'])
            form = self.rng.choice(["repeat.%s.%s", "repeat['%s'].%s", "repeat.%s.%s()"])
            return form % (nm, attr)
        if depth <= 0 or r < 0.3:
            return self.name(scope) if self.rng.random() < 0.7 else self.lit()
        if r < 0.5:
            self.stat('recorded')
            return "R('%s', %s)" % (self.key(), self.pexpr(scope, depth - 1))
        if r < 0.56 and 'raise' in self.f:
            self.stat('raising')
            exc = self.rng.choice(EXC_CAUGHT + EXC_UNCAUGHT)
            return "R('%s', None, '%s')" % (self.key(), exc)
        if r < 0.64:
            return '%s.%s' % (self.rng.choice(['d', self.name(scope)]), self.rng.choice(['a', 'b', 'id', 'zz']))
        if r < 0.70:
            return "%s[%s]" % (self.rng.choice(['d', 'xs', self.name(scope)]), self.rng.choice(["'a'", "'id'", '0', '5', '-1']))
        if r < 0.76:
            return 'not %s' % self.pexpr(scope, depth - 1)
        if r < 0.82:
            return '%s %s %s' % (self.pexpr(scope, depth - 1), self.rng.choice(['==', '!=', 'is', 'is not']), self.lit())
        if r < 0.86:
            return 'len(xs) + %d' % self.rng.randint(0, 3)
        if r < 0.91:
            return '(%s) if (%s) else (%s)' % (self.pexpr(scope, depth - 1), self.pexpr(scope, depth - 1), self.pexpr(scope, depth - 1))
        if r < 0.95:
            return '%s %s %s' % (self.pexpr(scope, depth - 1), self.rng.choice(['and', 'or']), self.pexpr(scope, depth - 1))
        return '(%s)' % self.pexpr(scope, depth - 1)

    def tales(self, scope, depth=2, allow_structure=False):
        r = self.rng.random()
        if 'pipes' in self.f and r < 0.25:
            self.stat('pipe')
            n = self.rng.choice([2, 2, 3, 4])
            alts = [self.pexpr(scope, depth) for _ in range(n)]
            if 'prefixes' in self.f and self.rng.random() < 0.35:
                # a type prefix on a later alternative takes everything to its right
                k = self.rng.randrange(1, n)
                alts[k] = self.rng.choice(['not: ', 'exists: ', 'python: ', 'not:', 'string:s ']) + alts[k]
            return ' | '.join(alts)
        if 'prefixes' in self.f and r < 0.45:
            self.stat('prefix')
            p = self.rng.choice(['python:', 'not:', 'exists:', 'string:', 'not: exists:', 'python: '] + (['structure:'] if allow_structure else []))
            if p == 'string:':
                return 'string:' + self.istring(scope, in_attr=True)
            return p + ' ' + self.pexpr(scope, depth)
        return self.pexpr(scope, depth)

    def istring(self, scope, in_attr=False):
        parts = []
        for _ in range(self.rng.choice([1, 2, 3])):
            r = self.rng.random()
            if r < 0.4:
                parts.append(self.rng.choice(['t', ' x ', '$$', 'a $ b', '{', '}', '&amp;', 'é']))
            elif r < 0.9:
                parts.append('${%s}' % self.pexpr(scope, 1).replace('"', "'") if in_attr else '${%s}' % self.pexpr(scope, 1))
            else:
                parts.append('$${x}')
        return ''.join(parts)

    # ---- markup
    def text(self, scope):
        r = self.rng.random()
        if 'interp' in self.f and r < 0.2:
            # scope probe: is the name (still) bound here?
            self.stat('scope_probe')
            return "[${%s | 'U'}]" % self.rng.choice(self.pool)
        if 'interp' in self.f and r < 0.6:
            self.stat('interp')
            return self.istring(scope)
        return self.rng.choice(['t', 'hello', ' ', '\n  ', 'a &amp; b', 'x', ''])

    def q(self, s):
        """attribute-quote an expression"""
        return s.replace('&', '&amp;').replace('"', '&quot;').replace('<', '&lt;')

    def element(self, scope, depth, in_switch=False, indent=''):
        rng = self.rng
        tag = rng.choice(TAGS)
        stmts = []
        loop_name = None
        inner = dict(scope)
        avail = [s for s in ['define', 'condition', 'repeat', 'content', 'replace', 'omit', 'attributes', 'onerror', 'switch'] if s in self.f]
        chosen = [s for s in avail if rng.random() < 0.28]
        if 'content' in chosen and 'replace' in chosen:
            chosen.remove(rng.choice(['content', 'replace']))
        if in_switch and rng.random() < 0.7:
            chosen.append('case')
        is_switch = 'switch' in chosen and 'case' not in chosen
        if 'switch' in chosen and not is_switch:
            chosen.remove('switch')
        # evaluation scope: define first, then repeat variable
        if 'define' in chosen:
            self.stat('define')
            parts = []
            for _ in range(rng.choice([1, 1, 2])):
                kind = rng.choice(['', '', 'local ', 'global '])
                if rng.random() < 0.15:
                    self.stat('tuple_define')
                    n1, n2 = rng.sample(self.pool, 2)
                    parts.append('%s(%s, %s) %s' % (kind, n1, n2, rng.choice(["(1, 'x')", "['p', 'q']", 'pair', "(1, 2, 3)"])))
                    inner[n1] = inner[n2] = 1
                    continue
                nm = rng.choice(self.pool)
                parts.append('%s%s %s' % (kind, nm, self.tales(inner).replace(';', ';;')))
                inner[nm] = 1
            stmts.append(('tal:define', '; '.join(parts)))
        if 'case' in chosen:
            stmts.append(('tal:case', rng.choice(['1', '2', "'a'", 'default', 'x', self.pexpr(inner, 1)])))
        if 'condition' in chosen:
            self.stat('condition')
            stmts.append(('tal:condition', self.tales(inner)))
        if 'repeat' in chosen:
            self.stat('repeat')
            if rng.random() < 0.12:
                self.stat('tuple_repeat')
                n1, n2 = rng.sample(self.pool, 2)
                stmts.append(('tal:repeat', '(%s, %s) %s' % (n1, n2, rng.choice(["[(1, 2), (3, 4)]", "[('k', 'v')]", 'pairs', '[]']))))
                inner[n1] = inner[n2] = 1
            else:
                nm = rng.choice(self.loops) if (self.loops and rng.random() < 0.3) else rng.choice(self.pool)
                src = rng.choice(['xs', 'xs', '[1, 2]', "['a', 'b', 'c']", '[]', 'None', self.name(inner), "R('%s', xs)" % self.key()])
                stmts.append(('tal:repeat', '%s%s %s' % (rng.choice(['', '', '', 'global ']), nm, src)))
                inner[nm] = 1
                loop_name = nm
        if is_switch:
            self.stat('switch')
            stmts.append(('tal:switch', rng.choice(['1', '2', "'a'", self.pexpr(inner, 1)])))
        if 'omit' in chosen:
            stmts.append(('tal:omit-tag', rng.choice(['', '', self.pexpr(inner, 1)])))
        if 'attributes' in chosen:
            self.stat('attributes')
            parts = []
            for _ in range(rng.choice([1, 1, 2, 3])):
                r = rng.random()
                if r < 0.75:
                    parts.append('%s %s' % (rng.choice(['class', 'id', 'title', 'CLASS', 'href', 'checked', 'new']), self.tales(inner).replace(';', ';;')))
                else:
                    parts.append(rng.choice(['d', 'd', self.name(inner)]))
            # parse_attributes rejects duplicate names
            seen = set()
            uniq = []
            for p in parts:
                n = p.split(' ')[0] if ' ' in p else None
                if n in seen:
                    continue
                seen.add(n)
                uniq.append(p)
            stmts.append(('tal:attributes', '; '.join(uniq)))
        if 'content' in chosen:
            self.stat('content')
            stmts.append(('tal:content', rng.choice(['', '', 'text ', 'structure ']) + self.tales(inner)))
        if 'replace' in chosen:
            self.stat('replace')
            stmts.append(('tal:replace', rng.choice(['', '', 'structure ']) + self.tales(inner)))
        if 'onerror' in chosen:
            self.stat('onerror')
            stmts.append(('tal:on-error', rng.choice(["string:ERR", 'string:E ${error.lineno}', "'fallback'", 'structure "<b>E</b>"'])))
        static = rng.sample(STATIC_ATTRS, rng.choice([0, 0, 1, 2, 3]))
        attrs = [(n, v) for n, v in static]
        if 'interp' in self.f and rng.random() < 0.25:
            attrs.append(('lang', self.istring(inner, in_attr=True)))
        allattrs = [(n, self.q(v)) for n, v in stmts] + attrs
        rng.shuffle(allattrs)
        start = '<' + tag + ''.join(' %s="%s"' % (n, v) for n, v in allattrs)
        # children
        kids = []
        if loop_name:
            self.loops.append(loop_name)
        if depth > 0:
            for _ in range(rng.choice([0, 1, 1, 2, 3])):
                if rng.random() < 0.45:
                    kids.append(self.text(inner))
                else:
                    kids.append(self.element(inner, depth - 1, in_switch=is_switch))
        else:
            kids.append(self.text(inner))
        if loop_name:
            self.loops.pop()
        if not kids and rng.random() < 0.3:
            return start + ' />'
        return start + '>' + ''.join(kids) + '</' + tag + '>'

    def template(self):
        self.bind()
        scope = dict.fromkeys(self.vars, 1)
        parts = []
        for _ in range(self.rng.choice([1, 1, 2, 3])):
            if self.rng.random() < 0.3:
                parts.append(self.text(scope))
            else:
                parts.append(self.element(scope, self.rng.choice(range(self.depth + 1))))
            if self.rng.random() < 0.3:
                parts.append('\n')
        src = ''.join(parts)
        varspec = [[k, v] for k, v in self.vars.items()] + [['R', {'fn': 'R'}]]
        return {'src': src, 'vars': varspec, 'objs': self.objs}

import Lean.Data.Json
import ChamVerif
/-! Line-protocol driver: one JSON request per line on stdin, one JSON answer per line on stdout. -/
open Lean ChamVerif

def jStr (s : Str) : Json := Json.str s.toString
def jNat (n : Nat) : Json := Json.num (JsonNumber.fromNat n)
def jArr (l : List Json) : Json := Json.arr l.toArray

def getStr (j : Json) (k : String) : Except String Str := do
  let v ← j.getObjVal? k
  match v with
  | .str s => pure (Str.ofString s)
  | .arr a => a.toList.mapM (fun x => x.getNat?)
  | _ => throw s!"field {k}: expected string"

def getNat (j : Json) (k : String) : Except String Nat := do (← j.getObjVal? k).getNat?
def getBool (j : Json) (k : String) : Except String Bool := do (← j.getObjVal? k).getBool?
def getS (j : Json) (k : String) : Except String String := do (← j.getObjVal? k).getStr?

def showSpans (r : Re) (a : Nat) (st : St) : Json :=
  let gs := (List.range (nGroups r)).map (fun j =>
    match st.caps.find? (·.1 == j+1) with
    | some (_, x, y) => jArr [jNat x, jNat y]
    | none => Json.null)
  jArr (jArr [jNat a, jNat st.pos] :: gs)

def jTok (t : Tok) : Json := jArr [jStr t.str, jNat t.pos]

def getQuirks (j : Json) : Quirks :=
  match j.getObjVal? "q" with
  | .ok (.str "ideal") => Quirks.ideal
  | _ => Quirks.current

def getRx (j : Json) : Rx :=
  match j.getObjVal? "rx" with
  | .ok (.str "baseline") => Rx.baseline
  | _ => Rx.live

def jCErr : CErr → Json
  | .template cls msg tok => Json.mkObj [("exc", "TemplateError"), ("cls", Json.str cls), ("msg", Json.str msg),
      ("token", jStr tok.str), ("offset", jNat tok.pos)]
  | .templateNoSrc cls msg tok => Json.mkObj [("exc", "TemplateError"), ("cls", Json.str cls), ("msg", Json.str msg),
      ("token", jStr tok), ("offset", jNat 0)]
  | .crash cls => Json.mkObj [("exc", "other"), ("cls", Json.str cls)]

def jSRes : SRes Str → Json
  | .ok s => Json.mkObj [("out", jStr s)]
  | .error (.unsupported why) => Json.mkObj [("unsupported", Json.str why)]
  | .error (.cerr e) => jCErr e

def isTagKind : Kind → Bool
  | .startTag | .emptyTag | .endTag | .xmlDecl => true
  | _ => false

def getQIn (j : Json) : Except String QIn := do
  let k ← getS j "k"
  match k with
  | "none" => pure .none
  | "marker" => pure .marker
  | "bytes" => pure (.bytes (← getStr j "s"))
  | "str" => pure (.str (← getStr j "s"))
  | "num" => pure (.num (← getStr j "s"))
  | "html" => pure (.html (← getStr j "s"))
  | "other" =>
    let sf ← getStr j "s"
    let t ← j.getObjVal? "t"
    match t with
    | .null => pure (.other sf Option.none)
    | .str x => pure (.other sf (some (some (Str.ofString x))))
    | _ => pure (.other sf (some Option.none))
  | _ => throw "bad value kind"

def jOptStr : Option Str → Json
  | some s => jStr s
  | none => Json.null

partial def getVal (j : Json) : Except String Val :=
  match j with
  | .null => pure .none
  | .bool b => pure (.bool b)
  | .num n => if n.exponent == 0 then pure (.int n.mantissa) else throw "non-integer number"
  | .str s => pure (.str (Str.ofString s))
  | .obj _ =>
    let fld (k : String) : Option Json := (j.getObjVal? k).toOption
    match fld "str", fld "bytes", fld "list", fld "tuple", fld "dict", fld "obj", fld "markup", fld "fn" with
    | some (.str s), _, _, _, _, _, _, _ => pure (.str (Str.ofString s))
    | _, some (.str s), _, _, _, _, _, _ => pure (.bytes (Str.ofString s))
    | _, _, some (.arr a), _, _, _, _, _ => do let vs ← a.toList.mapM getVal; pure (.list vs)
    | _, _, _, some (.arr a), _, _, _, _ => do let vs ← a.toList.mapM getVal; pure (.tuple vs)
    | _, _, _, _, some (.arr a), _, _, _ => do
      let kvs ← a.toList.mapM (fun kv => match kv with
        | .arr #[k, v] => do let k' ← getVal k; let v' ← getVal v; pure (k', v')
        | _ => throw "dict item")
      pure (.dict kvs)
    | _, _, _, _, _, some o, _, _ => do let i ← o.getNat?; pure (.obj i)
    | _, _, _, _, _, _, some (.str s), _ => pure (.markup (Str.ofString s))
    | _, _, _, _, _, _, _, some (.str s) => pure (.fn s)
    | _, _, _, _, _, _, _, _ =>
      if (fld "dflt").isSome then pure .dflt
      else match fld "template" with
        | some t => do let k ← t.getNat?; pure (.template_ k)       -- library template k (1-based; see "libs")
        | none => throw "bad value spec"
  | _ => throw "bad value spec"

def getKVs (j : Json) : Except String (List (Val × Val)) := do
  let a ← j.getArr?
  a.toList.mapM (fun kv => match kv with
    | .arr #[k, v] => do let k' ← getVal k; let v' ← getVal v; pure (k', v')
    | _ => throw "pair expected")

def getObjSpec (j : Json) : Except String ObjSpec := do
  let sf ← getStr j "str"
  let truthy := match j.getObjVal? "truthy" with | .ok (.bool b) => b | _ => true
  let html : Option Str := match getStr j "html" with | .ok h => some h | _ => none
  let attrs ← match j.getObjVal? "attrs" with
    | .ok a => do
      let kvs ← getKVs a
      kvs.mapM (fun (k, v) => match k with | .str s => pure (s, v) | _ => throw "attr name")
    | _ => pure []
  let items ← match j.getObjVal? "items" with | .ok a => getKVs a | _ => pure []
  let hasGetitem := match j.getObjVal? "getitem" with | .ok (.bool b) => b | _ => false
  let translation : Option (Option Str) := match j.getObjVal? "translation" with
    | .ok (.str s) => some (some (Str.ofString s))
    | .ok (.obj _) => some none
    | _ => none
  pure { strForm := sf, truthy := truthy, html := html, attrs := attrs, items := items, hasGetitem := hasGetitem,
         translation := translation }

def jTCall (t : TCall) : Json :=
  Json.mkObj [("msgid", jStr t.msgid),
    ("mapping", match t.mapping with | some m => Json.mkObj (m.map (fun (k, v) => (k.toString, jStr v))) | none => Json.null),
    ("default", jOptStr t.dflt), ("domain", jOptStr t.domain), ("context", jOptStr t.context), ("target", jOptStr t.target),
    ("offered", Json.bool t.offered)]

def jOutcome : Outcome → Json
  | .out s log tlog handled => Json.mkObj [("out", jStr s), ("log", jArr (log.toList.map jStr)),
      ("tlog", jArr (tlog.toList.map jTCall)), ("handled", jNat handled)]
  | .templateError cls msg tok line col => Json.mkObj [("exc", "TemplateError"), ("cls", Json.str cls), ("msg", Json.str msg),
      ("token", jStr tok.str), ("offset", jNat tok.pos), ("line", jNat line), ("col", jNat col)]
  | .crash cls => Json.mkObj [("exc", "other"), ("cls", Json.str cls)]
  | .raised e errs log tlog => Json.mkObj [("exc", "render"), ("cls", Json.str e.cls), ("msg", jStr e.msg),
      ("errors", jArr (errs.map (fun r => jArr [jStr r.text, jNat r.line, jNat r.col]))),
      ("log", jArr (log.toList.map jStr)), ("tlog", jArr (tlog.toList.map jTCall))]
  | .unsupported why => Json.mkObj [("unsupported", Json.str why)]

def getRenderReq (j : Json) : Except String RenderReq := do
  let src ← getStr j "src"
  let cfg := (j.getObjVal? "cfg").toOption.getD (Json.mkObj [])
  let flag (k : String) (d : Bool) : Bool := match cfg.getObjVal? k with | .ok (.bool b) => b | _ => d
  let vars ← match j.getObjVal? "vars" with
    | .ok (.arr a) => a.toList.mapM (fun kv => match kv with
        | .arr #[.str k, v] => do let v' ← getVal v; pure (Str.ofString k, v')
        | _ => throw "var pair")
    | _ => pure []
  let tab ← match j.getObjVal? "objs" with
    | .ok (.arr a) => a.toList.mapM getObjSpec
    | _ => pure []
  let oracle : PyOracle ← match j.getObjVal? "pyoracle" with
    | .ok (.arr a) => a.toList.mapM (fun kv => match kv with
        | .arr #[.str k, .null] => pure (Str.ofString k, none)
        | .arr #[.str k, .str m] => pure (Str.ofString k, some (Str.ofString m))
        | _ => throw "oracle pair")
    | _ => pure []
  let booleans : Option (List Str) := match cfg.getObjVal? "boolean_attributes" with
    | .ok (.arr a) => some (a.toList.filterMap (fun x => match x with | .str s => some (Str.ofString s) | _ => none))
    | _ => none
  let q := getQuirks j
  let rx := getRx j
  let bcfg : BCfg := {
    rx := rx,
    q := q,
    trimAttributeSpace := flag "trim_attribute_space" false,
    enableDataAttributes := flag "enable_data_attributes" false,
    enableCommentInterpolation := flag "enable_comment_interpolation" true,
    restrictedNamespace := flag "restricted_namespace" true,
    implicitI18nTranslate := flag "implicit_i18n_translate" false,
    implicitI18nAttrs := match cfg.getObjVal? "implicit_i18n_attributes" with
      | .ok (.arr a) => a.toList.filterMap (fun x => match x with | .str s => some (Str.ofString s) | _ => none)
      | _ => [] }
  let libs : List Str := match j.getObjVal? "libs" with
    | .ok (.arr a) => a.toList.filterMap (fun x => match x with | .str s => some (Str.ofString s) | _ => none)
    | _ => []
  pure { libs := libs, src := src, textMode := flag "text_mode" false, strict := flag "strict" true, bcfg := bcfg,
         booleanAttrs := booleans, oracle := oracle, tab := tab, vars := vars,
         pyBuiltins := Gen.pyBuiltins, talesExc := Gen.talesExceptions, existsExc := Gen.existsExceptions,
         excParents := Gen.excParents, htmlBooleans := Gen.booleanHtml.map Str.ofString }

def handle (j : Json) : Except String Json := do
  let op ← getS j "op"
  match op with
  | "re" =>
    let name ← getS j "name"
    let fn ← getS j "fn"
    let s ← getStr j "s"
    match Gen.all.find? (·.1 == name) with
    | none => throw "bad-pattern"
    | some (_, r) =>
      let a := s.toArray
      match fn with
      | "match" => pure (match matchAt Gen.uni a r 0 with | some st => showSpans r 0 st | none => Json.null)
      | "search" => pure (match search Gen.uni a r with | some (i, st) => showSpans r i st | none => Json.null)
      | "finditer" => pure (jArr ((finditer Gen.uni a r).map (fun (i, st) => showSpans r i st)))
      | _ => throw "bad-fn"
  | "tokens" =>
    let s ← getStr j "s"
    pure (jArr ((iterXml s).map jTok))
  | "quote" =>
    let site ← getS j "site"
    let vals ← (← j.getObjVal? "vals").getArr?
    let qs ← vals.toList.mapM getQIn
    let dflt : Option Str := match getStr j "default" with | .ok d => some d | _ => Option.none
    match site with
    | "text" => pure (jArr (qs.map (fun v => jOptStr (quoteVal Site.text.q Site.text.qe dflt v))))
    | "dq" => pure (jArr (qs.map (fun v => jOptStr (quoteVal Site.dq.q Site.dq.qe dflt v))))
    | "sq" => pure (jArr (qs.map (fun v => jOptStr (quoteVal Site.sq.q Site.sq.qe dflt v))))
    | "content" => pure (jArr (qs.map (fun v => jOptStr (quoteVal Site.content.q Site.content.qe dflt v))))
    | "none" => pure (jArr (qs.map (fun v => jOptStr (convertVal v))))
    | _ => throw "bad site"
  | "repitem" =>
    -- [[length, consumed, attr], …] → the repeat attribute as text (or the exception class)
    let qs ← (← j.getObjVal? "qs").getArr?
    let outs ← qs.toList.mapM (fun q => do
      let a ← q.getArr?
      match a.toList with
      | [l, c, .str attr] => do
        let r : RepItem := { length := (← l.getNat?), consumed := (← c.getNat?) }
        match repItemAttr r attr { log := #[] } with
        | (.ok (.cint i), _) => pure (Json.str (toString i))
        | (.ok (.int i), _) => pure (Json.str (toString i))
        | (.ok (.cstr t), _) => pure (jStr t)
        | (.raised e, _) => pure (Json.mkObj [("exc", Json.str e.cls)])
        | _ => pure (Json.str "<unsupported>")
      | _ => throw "bad repitem query")
    pure (jArr outs)
  | "scope" =>
    -- ops on utils.Scope: [["new", [[k,v],…]], ["copy", i], ["set", i, k, v], ["del", i, k], ["setglobal", i, k, v],
    --                      ["get", i, k], ["iter", i], ["update", i, [[k,v],…]]]
    let ops ← (← j.getObjVal? "ops").getArr?
    let getD (x : Json) : Except String Dict := do
      let kvs ← getKVs x
      kvs.mapM (fun (k, v) => match k with | .str s => pure (s, v) | _ => throw "key")
    let jv (v : Option Val) : Json := match v with
      | none => Json.str "<missing>"
      | some (.int i) => Json.num (JsonNumber.fromInt i)
      | some (.str s) => Json.mkObj [("str", jStr s)]
      | some .none => Json.null
      | some (.bool b) => Json.bool b
      | some _ => Json.str "<other>"
    let step (acc : ScopeStore × List Json) (op : Json) : Except String (ScopeStore × List Json) := do
      let (st, outs) := acc
      let a ← op.getArr?
      match a.toList with
      | [.str "new", d] => do
        let dd ← getD d
        let (st', h) := st.new dd
        pure (st', outs ++ [jNat h])
      | [.str "copy", i] => do
        let (st', h) := st.copy (← i.getNat?)
        pure (st', outs ++ [jNat h])
      | [.str "set", i, .str k, v] => do
        pure (st.setItem (← i.getNat?) (Str.ofString k) (← getVal v), outs ++ [Json.null])
      | [.str "del", i, .str k] => do
        match st.delItem (← i.getNat?) (Str.ofString k) with
        | some st' => pure (st', outs ++ [Json.null])
        | none => pure (st, outs ++ [Json.str "KeyError"])
      | [.str "setglobal", i, .str k, v] => do
        pure (st.setGlobal (← i.getNat?) (Str.ofString k) (← getVal v), outs ++ [Json.null])
      | [.str "get", i, .str k] => do
        pure (st, outs ++ [jv (st.get (← i.getNat?) (Str.ofString k))])
      | [.str "iter", i] => do
        pure (st, outs ++ [jArr ((st.iter (← i.getNat?)).map jStr)])
      | [.str "update", i, d] => do
        let dd ← getD d
        pure (st.update (← i.getNat?) dd, outs ++ [Json.null])
      | _ => throw "bad scope op"
    let (_, outs) ← ops.toList.foldlM step ({ dicts := [], rootOf := [] }, [])
    pure (jArr outs)
  | "render" =>
    let r ← getRenderReq j
    pure (jOutcome (renderStr SniffCfg.live r))
  | "renderb" =>
    -- the template body as bytes (array of numbers in "src")
    let r ← getRenderReq j
    pure (jOutcome (renderBytes SniffCfg.live stdDecode r r.src))
  | "sniff" =>
    let b ← getStr j "b"
    pure (match readBytes SniffCfg.live stdDecode b with
      | .ok doc enc ct => Json.mkObj [("doc", jArr (doc.map jNat)), ("encoding", jStr enc),
          ("content_type", match ct with | some c => jStr c | none => Json.null)]
      | .decodeError => Json.mkObj [("exc", "UnicodeDecodeError")]
      | .unknownCodec n => Json.mkObj [("unsupported", jStr n)])
  | "strct" =>
    let s ← getStr j "s"
    pure (match strContentType SniffCfg.live s with | some c => jStr c | none => Json.null)
  | "reload" =>
    -- a history of file operations on one auto-reloading (or not) file template
    let auto ← getBool j "auto"
    let vers ← match j.getObjVal? "versions" with
      | .ok (.arr a) => a.toList.mapM (fun v => match v with
          | .arr #[.arr ms, .bool x] => do
            let names ← ms.toList.mapM (fun m => m.getStr?)
            pure ({ macros := names, xml := x } : Sys.VersionInfo)
          | _ => throw "version")
      | _ => throw "versions"
    let info : Nat → Sys.VersionInfo := fun v => vers.getD v default
    let v0 ← getNat j "version"
    let t0 ← getNat j "mtime"
    let ops ← match j.getObjVal? "ops" with
      | .ok (.arr a) => a.toList.mapM (fun o => match o with
          | .arr #[.str "write", v] => do pure (Sys.Op.write (← v.getNat?))
          | .arr #[.str "utime", t] => do pure (Sys.Op.utime (← t.getNat?))
          | .arr #[.str "modify", v, t] => do pure (Sys.Op.modify (← v.getNat?) (← t.getNat?))
          | .arr #[.str "render"] => pure Sys.Op.render
          | .arr #[.str "names"] => pure Sys.Op.names
          | .arr #[.str "use", .str m] => pure (Sys.Op.use m)
          | _ => throw "reload op")
      | _ => throw "ops"
    let q : Sys.RQuirks := { staleMacros := match j.getObjVal? "stale" with | .ok (.bool b) => b | _ => false }
    let w0 : Sys.World := { file := ⟨v0, t0⟩, tpl := { autoReload := auto } }
    let (w, obs) := Sys.run q info w0 ops
    let jo : Sys.Obs → Json
      | .none => Json.null
      | .rendered v x => Json.mkObj [("rendered", jNat v), ("xml", match x with | some b => Json.bool b | none => Json.null)]
      | .names ns => Json.mkObj [("names", jArr (ns.map Json.str))]
      | .macro v => Json.mkObj [("macro", match v with | some n => jNat n | none => Json.null)]
    pure (Json.mkObj [("obs", jArr (obs.map jo)), ("cooks", jNat w.tpl.cooks)])
  | "sched" =>
    -- threads rendering one shared file template; moves: [thread, label] = run that thread up to its next label
    let auto ← getBool j "auto"
    let names ← match j.getObjVal? "names" with
      | .ok (.arr a) => a.toList.mapM (fun x => x.getStr?)
      | _ => throw "names"
    let n ← getNat j "threads"
    let c : Sys.Sched.Cfg := { autoReload := auto, mtime := 7, version := 1, names := names }
    let moves ← match j.getObjVal? "moves" with
      | .ok (.arr a) => a.toList.mapM (fun m => match m with
          | .arr #[t, .str l] => do pure ((← t.getNat?), l)
          | _ => throw "move")
      | _ => throw "moves"
    let atLabel (l : String) (pc : Sys.Sched.PC) : Bool := match l, pc with
      | "cook_check:read", .install 0 => true
      | "cook:installed", .clean => true
      | "done", .done _ => true
      | l, .install k => l == s!"cook:setattr:{k}"
      | _, _ => false
    let advance (w : Sys.Sched.World) (t : Nat) (l : String) : Sys.Sched.World := Id.run do
      let mut w := w
      -- labels that coincide in the model need no step
      if atLabel l (w.threads.getD t .start) && l != "done" then return w
      for _ in [0:60] do
        w := Sys.Sched.step c w t
        if atLabel l (w.threads.getD t .start) then break
      return w
    let w := moves.foldl (fun w (t, l) => advance w t l) { shared := {}, threads := List.replicate n .start }
    let res := w.threads.map (fun pc => match pc with
      | .done (some v) => jNat v
      | .done none => Json.str "AttributeError"
      | _ => Json.str "unfinished")
    pure (Json.mkObj [("results", jArr res), ("cooked", Json.bool w.shared.cooked),
      ("installed", jArr ((w.shared.fns.map (·.1)).map Json.str))])
  | "load" =>
    -- threads of one process in ModuleLoader._load: the hook events of a real run, replayed on the step model.  Every event is the
    -- completion of one model step of its thread (the "released" event of a thread that found the module registered stands for two:
    -- the look at sys.modules and the release); after each event the thread's program counter must be the one the event names
    let n ← getNat j "threads"
    let evs ← match j.getObjVal? "events" with
      | .ok (.arr a) => a.toList.mapM (fun m => match m with
          | .arr #[t, .str l] => do pure ((← t.getNat?), l)
          | _ => throw "event")
      | _ => throw "events"
    let q : Sys.Load.LQuirks := {}
    let pcName : Sys.Load.PC → String
      | .start => "start" | .locked => "locked" | .created => "created" | .executed => "executed"
      | .registered => "registered" | .released => "released" | .done b => if b then "done:complete" else "done:incomplete"
    let pcOf (s : Sys.Load.LState) (t : Nat) : String := match s.ths[t]? with | some th => pcName th.pc | none => "?"
    let (s, bad) := evs.foldl (fun (acc : Sys.Load.LState × List String) (t, l) =>
      let s := acc.1
      let s1 := Sys.Load.step q s t
      -- the hit path: locked -> (look) registered -> (release) released
      let s2 := if l == "released" && pcOf s1 t == "registered" then Sys.Load.step q s1 t else s1
      let s3 := if l == "returned" then s2 else s2
      let ok := (if l == "returned" then (pcOf s3 t).startsWith "done" else pcOf s3 t == l)
      (s3, if ok then acc.2 else acc.2 ++ [s!"after event {l} of thread {t} the model has it at {pcOf s3 t}"])) (Sys.Load.init n, [])
    pure (Json.mkObj [("results", jArr ((Sys.Load.results s).map Json.bool)), ("mismatches", jArr (bad.map Json.str)),
      ("pcs", jArr ((List.range n).map (fun t => Json.str (pcOf s t))))])
  | "cache" =>
    -- two writers of one entry under a schedule of events
    let entry ← getS j "entry"
    let wr (k : String) : Except String Sys.Cache.Writer := do
      let o ← j.getObjVal? k
      pure { src := ← (← o.getObjVal? "src").getNat?, tmp := ← (← o.getObjVal? "tmp").getStr? }
    let a ← wr "a"
    let b ← wr "b"
    let evs ← match j.getObjVal? "evs" with
      | .ok (.arr x) => x.toList.mapM (fun e => match e with
          | .str "stepA" => pure Sys.Cache.Ev.stepA
          | .str "stepB" => pure Sys.Cache.Ev.stepB
          | .str "crashA" => pure Sys.Cache.Ev.crashA
          | .str "crashB" => pure Sys.Cache.Ev.crashB
          | _ => throw "cache event")
      | _ => throw "evs"
    let s := Sys.Cache.run entry { fs := [], a := a, b := b } evs
    let tag : Sys.Cache.Content → String
      | .empty => "empty"
      | .header => "header"
      | .torn k => s!"torn:{k}"
      | .full k => s!"full:{k}"
    let names := [entry, a.tmp, b.tmp].eraseDups
    pure (Json.mkObj (names.filterMap (fun n => (s.fs.get n).map (fun c => (n, Json.str (tag c))))))
  | "loader" =>
    let sp ← match j.getObjVal? "search_path" with
      | .ok (.arr a) => a.toList.mapM (fun x => x.getStr?)
      | _ => throw "search_path"
    let ext : Option String := match j.getObjVal? "default_extension" with | .ok (.str e) => some e | _ => none
    let files ← match j.getObjVal? "files" with
      | .ok (.arr a) => a.toList.mapM (fun x => x.getStr?)
      | _ => throw "files"
    let loads ← match j.getObjVal? "loads" with
      | .ok (.arr a) => a.toList.mapM (fun x => x.getStr?)
      | _ => throw "loads"
    let ex : String → Bool := fun p => files.contains p
    let l0 : Sys.Loader := { searchPath := sp, defaultExtension := ext }
    let (_, outs) := loads.foldl (fun (acc : Sys.Loader × List Json) spec =>
      let (l', r) := Sys.load acc.1 ex spec
      (l', acc.2 ++ [match r with
        | .instance_ id fn => Json.mkObj [("id", jNat id), ("filename", Json.str fn)]
        | .notFound s => Json.mkObj [("not_found", Json.str s)]])) (l0, [])
    pure (jArr outs)
  | "static" =>
    let s ← getStr j "s"
    pure (jSRes (staticRenderWith (getRx j) (getQuirks j) true s))
  | "dissect" =>
    -- per document: are all its tags dissected without loss, and does the static path accept it?
    let s ← getStr j "s"
    let body := if isXmlDoc s then s else normalizeNewlines s
    let rx := getRx j
    let toks := iterXmlWith rx.xmlSpe body
    let tags := toks.filter (fun t => match identify rx t with | .ok k => isTagKind k | _ => false)
    let allOk := tags.all (fun t => match matchTagWith rx t with | some g => g.dissectOK t | none => false)
    let r := staticRenderWith rx (getQuirks j) true s
    let compiles := match r with | .ok _ => true | .error (.unsupported _) => true | _ => false
    let stmtFree := match r with | .error (.unsupported _) => false | _ => true
    pure (Json.mkObj [("dissect_ok", Json.bool allOk), ("compiles", Json.bool compiles),
      ("statement_free", Json.bool stmtFree), ("tags", jNat tags.length),
      ("static_hyp", Json.bool (staticHyp true s))])
  | _ => throw s!"bad-op {op}"

partial def loop (hin : IO.FS.Stream) (hout : IO.FS.Stream) : IO Unit := do
  let line ← hin.getLine
  if line.isEmpty then return ()
  let out := match Json.parse line with
    | .error e => Json.mkObj [("err", Json.str s!"parse: {e}")]
    | .ok j => match handle j with
      | .ok r => Json.mkObj [("ok", r)]
      | .error e => Json.mkObj [("err", Json.str e)]
  hout.putStrLn out.compress
  loop hin hout

def main : IO Unit := do
  let hout ← IO.getStdout
  loop (← IO.getStdin) hout
  hout.flush

import Lean.Data.Json
import ChamVerif
/-! Line-protocol driver: one JSON request per line on stdin, one JSON answer per line on stdout. -/
open Lean ChamVerif

def jStr (s : Str) : Json := Json.str s.toString
def jNat (n : Nat) : Json := Json.num (JsonNumber.fromNat n)
def jArr (l : List Json) : Json := Json.arr l.toArray

def getStr (j : Json) (k : String) : Except String Str := do
  let v ← j.getObjVal? k
  match v with
  | .str s => pure (Str.ofString s)
  | .arr a => a.toList.mapM (fun x => x.getNat?)
  | _ => throw s!"field {k}: expected string"

def getNat (j : Json) (k : String) : Except String Nat := do (← j.getObjVal? k).getNat?
def getBool (j : Json) (k : String) : Except String Bool := do (← j.getObjVal? k).getBool?
def getS (j : Json) (k : String) : Except String String := do (← j.getObjVal? k).getStr?

def showSpans (r : Re) (a : Nat) (st : St) : Json :=
  let gs := (List.range (nGroups r)).map (fun j =>
    match st.caps.find? (·.1 == j+1) with
    | some (_, x, y) => jArr [jNat x, jNat y]
    | none => Json.null)
  jArr (jArr [jNat a, jNat st.pos] :: gs)

def jTok (t : Tok) : Json := jArr [jStr t.str, jNat t.pos]

def getQuirks (j : Json) : Quirks :=
  match j.getObjVal? "q" with
  | .ok (.str "ideal") => Quirks.ideal
  | _ => Quirks.current

def getRx (j : Json) : Rx :=
  match j.getObjVal? "rx" with
  | .ok (.str "baseline") => Rx.baseline
  | _ => Rx.live

def jCErr : CErr → Json
  | .template cls msg tok => Json.mkObj [("exc", "TemplateError"), ("cls", Json.str cls), ("msg", Json.str msg),
      ("token", jStr tok.str), ("offset", jNat tok.pos)]
  | .crash cls => Json.mkObj [("exc", "other"), ("cls", Json.str cls)]

def jSRes : SRes Str → Json
  | .ok s => Json.mkObj [("out", jStr s)]
  | .error (.unsupported why) => Json.mkObj [("unsupported", Json.str why)]
  | .error (.cerr e) => jCErr e

def isTagKind : Kind → Bool
  | .startTag | .emptyTag | .endTag | .xmlDecl => true
  | _ => false

def getQIn (j : Json) : Except String QIn := do
  let k ← getS j "k"
  match k with
  | "none" => pure .none
  | "marker" => pure .marker
  | "bytes" => pure (.bytes (← getStr j "s"))
  | "str" => pure (.str (← getStr j "s"))
  | "num" => pure (.num (← getStr j "s"))
  | "html" => pure (.html (← getStr j "s"))
  | "other" =>
    let sf ← getStr j "s"
    let t ← j.getObjVal? "t"
    match t with
    | .null => pure (.other sf Option.none)
    | .str x => pure (.other sf (some (some (Str.ofString x))))
    | _ => pure (.other sf (some Option.none))
  | _ => throw "bad value kind"

def jOptStr : Option Str → Json
  | some s => jStr s
  | none => Json.null

def handle (j : Json) : Except String Json := do
  let op ← getS j "op"
  match op with
  | "re" =>
    let name ← getS j "name"
    let fn ← getS j "fn"
    let s ← getStr j "s"
    match Gen.all.find? (·.1 == name) with
    | none => throw "bad-pattern"
    | some (_, r) =>
      let a := s.toArray
      match fn with
      | "match" => pure (match matchAt Gen.uni a r 0 with | some st => showSpans r 0 st | none => Json.null)
      | "search" => pure (match search Gen.uni a r with | some (i, st) => showSpans r i st | none => Json.null)
      | "finditer" => pure (jArr ((finditer Gen.uni a r).map (fun (i, st) => showSpans r i st)))
      | _ => throw "bad-fn"
  | "tokens" =>
    let s ← getStr j "s"
    pure (jArr ((iterXml s).map jTok))
  | "quote" =>
    let site ← getS j "site"
    let vals ← (← j.getObjVal? "vals").getArr?
    let qs ← vals.toList.mapM getQIn
    let dflt : Option Str := match getStr j "default" with | .ok d => some d | _ => Option.none
    match site with
    | "text" => pure (jArr (qs.map (fun v => jOptStr (quoteVal Site.text.q Site.text.qe dflt v))))
    | "dq" => pure (jArr (qs.map (fun v => jOptStr (quoteVal Site.dq.q Site.dq.qe dflt v))))
    | "sq" => pure (jArr (qs.map (fun v => jOptStr (quoteVal Site.sq.q Site.sq.qe dflt v))))
    | "content" => pure (jArr (qs.map (fun v => jOptStr (quoteVal Site.content.q Site.content.qe dflt v))))
    | "none" => pure (jArr (qs.map (fun v => jOptStr (convertVal v))))
    | _ => throw "bad site"
  | "static" =>
    let s ← getStr j "s"
    pure (jSRes (staticRenderWith (getRx j) (getQuirks j) true s))
  | "dissect" =>
    -- per document: are all its tags dissected without loss, and does the static path accept it?
    let s ← getStr j "s"
    let body := if isXmlDoc s then s else normalizeNewlines s
    let rx := getRx j
    let toks := iterXmlWith rx.xmlSpe body
    let tags := toks.filter (fun t => match identify rx t with | .ok k => isTagKind k | _ => false)
    let allOk := tags.all (fun t => match matchTagWith rx t with | some g => g.dissectOK t | none => false)
    let r := staticRenderWith rx (getQuirks j) true s
    let compiles := match r with | .ok _ => true | .error (.unsupported _) => true | _ => false
    let stmtFree := match r with | .error (.unsupported _) => false | _ => true
    pure (Json.mkObj [("dissect_ok", Json.bool allOk), ("compiles", Json.bool compiles),
      ("statement_free", Json.bool stmtFree), ("tags", jNat tags.length)])
  | _ => throw s!"bad-op {op}"

partial def loop (hin : IO.FS.Stream) (hout : IO.FS.Stream) : IO Unit := do
  let line ← hin.getLine
  if line.isEmpty then return ()
  let out := match Json.parse line with
    | .error e => Json.mkObj [("err", Json.str s!"parse: {e}")]
    | .ok j => match handle j with
      | .ok r => Json.mkObj [("ok", r)]
      | .error e => Json.mkObj [("err", Json.str e)]
  hout.putStrLn out.compress
  loop hin hout

def main : IO Unit := do
  let hout ← IO.getStdout
  loop (← IO.getStdin) hout
  hout.flush

import ChamVerif.Re
import ChamVerif.Gen.Regexes
import ChamVerif.Lex
import ChamVerif.Parse
import ChamVerif.Quirks
import ChamVerif.Static

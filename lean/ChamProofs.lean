import ChamProofs.ReLemmas
import ChamProofs.Props.C03
import ChamProofs.Props.C02
import ChamProofs.Props.C13
import ChamProofs.Props.C01
import ChamProofs.Props.C04
import ChamProofs.Props.C05
import ChamProofs.Props.C08

import ChamProofs.ReLemmas
import ChamProofs.Props.C03

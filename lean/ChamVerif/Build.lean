import ChamVerif.Node
import ChamVerif.Static
/-! `zpt/program.py`: `MacroProgram.visit_*` — element tree → node tree.  Follows
`visit_element` statement by statement; the nesting of the statement wrappers is
`wrapOrder` (tied to the code by `Gen.wrapOrder`, a probe observation). -/
namespace ChamVerif

structure BCfg where
  rx : Rx := Rx.live
  q : Quirks := Quirks.current
  escape : Bool := true
  booleanAttrs : List Str := []
  implicitI18nAttrs : List Str := []
  implicitI18nTranslate : Bool := false
  trimAttributeSpace : Bool := false
  enableDataAttributes : Bool := false
  enableCommentInterpolation : Bool := true
  restrictedNamespace : Bool := true
  deriving Inhabited

structure BState where
  switches : List (Option Nat × Option Tok)   -- per open element: the switch value's cache id (and clause)
  useMacro : List (List (Tok × Node))         -- slot lists of the open use-macro elements (innermost first)
  interpolation : List Bool
  macros : List (Str × Node)
  last : Option Str                           -- `_last` (None after a repeat on a tal: element)
  whitespace : Str                            -- `_whitespace`
  nextId : Nat
  deriving Inhabited

abbrev BM (α : Type) := BState → CRes (α × BState)

instance : Monad BM where
  pure a := fun s => .ok (a, s)
  bind x f := fun s => match x s with
    | .ok (a, s') => f a s'
    | .error e => .error e

def bErr {α} (cls msg : String) (t : Tok) : BM α := fun _ => .error (.template cls msg t)
def bCrash {α} (cls : String) : BM α := fun _ => .error (.crash cls)
def bGet : BM BState := fun s => .ok (s, s)
def bSet (s : BState) : BM Unit := fun _ => .ok ((), s)
def bModify (f : BState → BState) : BM Unit := fun s => .ok ((), f s)
def liftCB {α} (r : CRes α) : BM α := fun s => match r with | .ok a => .ok (a, s) | .error e => .error e
def freshId : BM Nat := fun s => .ok (s.nextId, { s with nextId := s.nextId + 1 })

def nsGet (ns : List ((Str × Str) × Tok)) (k : Str × Str) : Option Tok := (ns.find? (·.1 == k)).map (·.2)

def talWhitelist : List String := ["define", "comment", "condition", "content", "replace", "repeat", "attributes",
  "on-error", "omit-tag", "script", "switch", "case", "xmlns", "xml"]
def metalWhitelist : List String := ["define-macro", "extend-macro", "use-macro", "define-slot", "fill-slot", "xmlns", "xml"]
def i18nWhitelist : List String := ["translate", "domain", "context", "target", "source", "attributes", "data",
  "name", "mode", "xmlns", "xml", "comment", "ignore", "ignore-attributes"]

/-- `validate_attributes`: the token is the attribute's local name (a `Token` slice: it has a position) -/
def validateAttributes (ns : List ((Str × Str) × Tok)) (names : List ((Str × Str) × Tok)) (namespace_ : Str)
    (wl : List String) : CRes Unit :=
  ns.forM (fun ((n, name), _) =>
    if n == namespace_ && !wl.contains name.toString then
      match names.find? (·.1 == (n, name)) with
      | some (_, tok) => .error (.template "CompilationError" ("Bad attribute for namespace '" ++ n.toString ++ "'") tok)
      | none => .error (.templateNoSrc "CompilationError" ("Bad attribute for namespace '" ++ n.toString ++ "'") name)
    else pure ())

/-- `_maybe_trim`: `re_trim.sub(" ", s)` -/
def maybeTrim (c : BCfg) (s : Str) : Str :=
  if !c.trimAttributeSpace then s else
    let ms := finditer Gen.uni s.toArray c.rx.reTrim
    let rec go (pos : Nat) (ms : List (Nat × St)) (acc : Str) : Str :=
      match ms with
      | [] => acc ++ s.drop pos
      | (st, m) :: rest => go m.pos rest (acc ++ (s.drop pos).take (st - pos) ++ [32])
    go 0 ms []

def lastLine (s : Str) : Str := (s.reverse.takeWhile (· != 10)).reverse

def rsplitSlash (s : Str) : Str := (s.reverse.takeWhile (· != 47)).reverse

/-- `_make_content_node(expression, default, key, translate)` -/
def makeContentNode (valueId : Nat) (expr : Tok) (dflt : Option Node) (structure_ : Bool) (translate : Bool) : Node :=
  match dflt with
  | none => .content (.value expr) (!structure_) translate
  | some d =>
    .define [.alias (lit "default") .marker]
      (.cache [(valueId, .value expr)]
        (.condition (.e (.binop (.ref valueId) .is_ .marker)) d (some (.content (.ref valueId) (!structure_) translate))))

def escOfQuote (quote : Str) : Esc :=
  if quote == [34] then .dq else if quote == [39] then .sq else if quote.isEmpty then .emptyQ else .emptyQ

/-- `_create_attributes_nodes(prepared, I18N_ATTRIBUTES)` → (attribute nodes, filtering[0]).
An attribute is filtered by the dictionaries that come *later* in the prepared list (the code
appends each dictionary expression to every filter list created so far). -/
def createAttributeNodes (c : BCfg) (prepared : List PAttr) (i18nAttrs : List (Str × Option Str)) :
    BM (List Node × List (Nat × EN)) := do
  let names : List (Option Str) := prepared.map (·.name)
  -- ids (and decoded expressions) of the dictionary entries, by position
  let dicts : List (Nat × Nat × EN) ← (prepared.zipIdx).foldlM (fun (acc : List (Nat × Nat × EN)) (pa, i) =>
    match pa.name, pa.expr with
    | none, some expr => do
      let did ← freshId
      match (if c.q.attrDecodeTwice then decodeEntities c.rx expr.str else some expr.str) with
      | none => bCrash "unsupported-entity"
      | some d => pure (acc ++ [(i, did, EN.valueD { expr with str := d } (pa.text.map (·.str)))])
    | _, _ => pure acc) []
  let later (i : Nat) : List Nat := (dicts.filter (fun (j, _, _) => j > i)).map (fun (_, did, _) => did)
  let step (acc : List Node × Nat) (pa : PAttr) : BM (List Node × Nat) := do
    let (nodes, i) := acc
    let implicit := match pa.name with | some n => c.implicitI18nAttrs.contains (lowerStr n) | none => false
    let esc := escOfQuote pa.quote
    let msgid : Option (Option Str) := match pa.name with
      | some n => lookupAssoc i18nAttrs n
      | none => none
    let boolean := match pa.name with | some n => c.booleanAttrs.contains n | none => false
    let curFilter : List Nat := later i
    let textS : Option Str := pa.text.map (·.str)
    match pa.expr, pa.text with
    | none, some text =>
      if hasInterp text.str then
        let v0 : EN := .interp text esc none (!boolean) true (implicit && msgid.isNone && !boolean)
        let v := if boolean then EN.replace v0 (pa.name.getD []) else v0
        let v := match msgid with | some m => EN.translate m v | none => v
        let attr := Node.define [.alias (lit "default") .marker]
          (.attribute (pa.name.getD []) v pa.quote pa.eq (maybeTrim c pa.space) none curFilter)
        pure (nodes ++ [attr], i + 1)
      else
        let msgid' : Option (Option Str) := if msgid.isNone && implicit then some (some text.str) else msgid
        let v : EN := .const text.str
        match msgid' with
        | some m =>
          let attr := Node.define [.alias (lit "default") .marker]
            (.attribute (pa.name.getD []) (.translate m v) pa.quote pa.eq (maybeTrim c pa.space) textS curFilter)
          pure (nodes ++ [attr], i + 1)
        | none =>
          pure (nodes ++ [.attribute (pa.name.getD []) v pa.quote pa.eq (maybeTrim c pa.space) textS curFilter], i + 1)
    | none, none => bCrash "TypeError"
    | some expr, _ =>
      match pa.name with
      | none =>
        match dicts.find? (fun (j, _, _) => j == i) with
        | some (_, did, e) =>
          let exclude := (names.drop i).filterMap (fun x => x)
          pure (nodes ++ [Node.dictAttrs did e exclude], i + 1)
        | none => bCrash "internal"
      | some name =>
        match (if c.q.attrDecodeTwice then decodeEntities c.rx expr.str else some expr.str) with
        | none => bCrash "unsupported-entity"
        | some d =>
          let dt : Tok := { expr with str := d }
          let v : EN := if boolean then .boolean expr name textS else .subst dt esc textS (!boolean)
          let v := match msgid with | some m => EN.translate m v | none => v
          let attr := Node.define [.alias (lit "default") .marker]
            (.attribute name v pa.quote pa.eq (maybeTrim c pa.space) textS curFilter)
          pure (nodes ++ [attr], i + 1)
  let (nodes, _) ← prepared.foldlM step ([], 0)
  pure (nodes, dicts.map (fun (_, did, e) => (did, e)))

/-- `convert_data_attributes(ns_attrs, attrs, namespaces)`; unknown prefix = `KeyError` -/
def dataTarget (q : Quirks) (nsMap : NsMap) (dropNs : List Str) (a : Attr) : CRes (Option (Str × Str)) :=
  if startsWith a.name.str (lit "data-") then
    let name := a.name.str.drop 5
    if !name.contains 45 then pure none else
      let pfx := name.takeWhile (· != 45)
      let rest := name.drop (pfx.length + 1)
      match nsMap.get (some pfx) with
      | none => if q.zipPairing then .error (.crash "KeyError") else pure none
      | some uri => if q.zipPairing || dropNs.contains uri then pure (some (uri, rest)) else pure none
  else pure none

def convertStep (q : Quirks) (dropNs : List Str) (nsMap : NsMap) (acc : List ((Str × Str) × Tok) × List Attr) (a : Attr) :
    CRes (List ((Str × Str) × Tok) × List Attr) := do
  match ← dataTarget q nsMap dropNs a with
  | some key => pure (odSet acc.1 key a.value, acc.2)
  | none => pure (acc.1, acc.2 ++ [a])

def convertDataAttributes (q : Quirks) (dropNs : List Str) (nsAttrs : List ((Str × Str) × Tok)) (attrs : List Attr) (nsMap : NsMap) :
    CRes (List ((Str × Str) × Tok) × List Attr) :=
  attrs.foldlM (convertStep q dropNs nsMap) (nsAttrs, [])

/-- order in which `wrap(inner, …)` nests the statement nodes: first listed = outermost -/
inductive Wrapper | defineSlot | define | case_ | condition | repeat_ | switch | domain | context | target
  deriving Repr, DecidableEq, Inhabited

def wrapOrder : List Wrapper :=
  [.defineSlot, .define, .case_, .condition, .repeat_, .switch, .domain, .context, .target]

def applyWrappers (ws : List (Wrapper × (Node → Node))) (order : List Wrapper) (inner : Node) : Node :=
  order.reverse.foldl (fun n w => match ws.find? (·.1 == w) with | some (_, f) => f n | none => n) inner

def visitText (c : BCfg) (t : Tok) : BM Node := do
  bModify (fun s => { s with last := some t.str })
  let s ← bGet
  if (s.interpolation.headD true) && hasInterp t.str then
    pure (.interpolation (.interp t (if c.escape then .text else .none) none true true c.implicitI18nTranslate))
  else
    let node := undoubleDollar t.str
    if !c.implicitI18nTranslate then pure (.text node)
    else
      -- implicit translation of plain text: prefix / normalised text / suffix
      let pre := node.takeWhile Tok.isWs
      let core0 := node.drop pre.length
      let suf := (core0.reverse.takeWhile Tok.isWs).reverse
      let core := core0.take (core0.length - suf.length)
      if core.isEmpty then pure (.text node)
      else do
        let tid ← freshId
        let normalized := collapseWs core
        pure (.seq [.text pre, .translate tid (some normalized) (.text normalized), .text suf])
where
  collapseWs (s : Str) : Str :=
    let rec go : Nat → Str → Bool → Str
      | 0, _, _ => []
      | _, [], _ => []
      | f+1, ch :: r, inWs =>
        if Tok.isWs ch then (if inWs then go f r true else 32 :: go f r true) else ch :: go f r false
    go (s.length + 1) s false


/-- what `visit_element` reads of a start tag besides its attributes -/
structure Head where
  name : Tok
  pfx : Tok
  suffix : Option Tok
  ns : Str
  deriving Repr, Inhabited

def Elem.head (e : Elem) : Head := { name := e.tag.name, pfx := e.tag.pfx, suffix := e.tag.suffix, ns := e.ns }

/-- decode entities of TAL/METAL attribute values (`none`: an entity the model does not know) -/
def decodeNsAttr (rx : Rx) (e : (Str × Str) × Tok) : Option ((Str × Str) × Tok) :=
  if e.1.1 == TAL || e.1.1 == METAL then
    (decodeEntities rx e.2.str).map (fun d => (e.1, ({ e.2 with str := d } : Tok)))
  else some e

def decodeNsAttrs (rx : Rx) : List ((Str × Str) × Tok) → Option (List ((Str × Str) × Tok))
  | [] => some []
  | e :: l => match decodeNsAttr rx e, decodeNsAttrs rx l with
    | some e', some l' => some (e' :: l')
    | _, _ => none

/-- the first steps of `visit_element`: data attributes, entity decoding and validation of the statement
attributes.  Yields the statement dictionary and the attribute list `prepare_attributes` works on. -/
def elementPre (c : BCfg) (start : Elem) : BM (List ((Str × Str) × Tok) × List Attr) := do
    let (ns0, attrs) ← if c.enableDataAttributes then liftCB (convertDataAttributes c.q dropNs start.nsAttrs start.tag.attrs start.nsMap)
                       else pure (start.nsAttrs, start.tag.attrs)
    let ns ← match decodeNsAttrs c.rx ns0 with
      | some ns => pure ns
      | none => bCrash "unsupported-entity"
    -- the dictionary keys of statements written as data-<prefix>-<name> are token slices of the attribute name
    let names : List ((Str × Str) × Tok) ← (if c.enableDataAttributes then
        start.tag.attrs.foldlM (fun (acc : List ((Str × Str) × Tok)) a => do
          match ← liftCB (dataTarget c.q start.nsMap dropNs a) with
          | some key =>
            let pfxLen := ((a.name.str.drop 5).takeWhile (· != 45)).length
            pure (acc ++ [(key, a.name.slice (5 + pfxLen + 1) none)])
          | none => pure acc) start.nsNames
      else pure start.nsNames)
    liftCB (validateAttributes ns names TAL talWhitelist)
    liftCB (validateAttributes ns names METAL metalWhitelist)
    liftCB (validateAttributes ns names I18N i18nWhitelist)
    pure (ns, attrs)

/-- the "inside" of an element that is not a macro use: what `tal:content`, a static `i18n:translate`, `tal:omit-tag`
and `tal:replace` make of the start tag, the body and the end tag -/
structure InnerSpec where
  /-- `tal:content`: cache id, expression, `structure`, translate -/
  content : Option (Nat × Tok × Bool × Bool)
  /-- a static `i18n:translate` (no `tal:content` / `tal:replace`): translation id, explicit message id -/
  translate : Option (Nat × Option Str)
  startTag : Node
  endTag : Option Node
  /-- `tal:omit-tag=""`, or an element of a template-language namespace -/
  omitAlways : Bool
  /-- `tal:omit-tag="expr"`: cache id, expression -/
  omitExpr : Option (Nat × Tok)
  /-- `tal:replace`: cache id, expression, `structure`, translate -/
  replace : Option (Nat × Tok × Bool × Bool)
  deriving Inhabited

/-- the body with `tal:content` (and a static `i18n:translate`) applied -/
def InnerSpec.contentNode (p : InnerSpec) (b : Node) : Node :=
  let c1 := match p.content with
    | none => b
    | some (id, expr, st, tr) => makeContentNode id expr (some b) st tr
  match p.translate with
  | none => c1
  | some (tid, msgid) => .translate tid msgid c1

/-- … inside its tags, unless they are omitted -/
def InnerSpec.tagged (p : InnerSpec) (b : Node) : Node :=
  if p.omitAlways then p.contentNode b
  else match p.omitExpr with
    | some (oid, cl) =>
      .cache [(oid, .negate (.value cl))]
        (.element (.condition (.e (.ref oid)) p.startTag none)
          (p.endTag.map (fun e => Node.condition (.e (.ref oid)) e none)) (p.contentNode b))
    | none => .element p.startTag p.endTag (p.contentNode b)

/-- … unless `tal:replace` puts a value in its place -/
def InnerSpec.node (p : InnerSpec) (b : Node) : Node :=
  match p.replace with
  | none => p.tagged b
  | some (id, expr, st, tr) => makeContentNode id expr (some (p.tagged b)) st tr

inductive InnerKind
  | macroUse (macroTok : Tok) (ext : Bool)
  | tal (p : InnerSpec)
  deriving Inhabited

/-- everything `visit_element` has parsed of an element's statements before it visits the children -/
structure ElemStmts where
  ns : Str
  kind : InnerKind
  useMacroNonEmpty : Bool
  omitTag : Bool
  startTag : Option Node
  endTag : Option Node
  staticAttrNodes : List Node
  staticDict : List (Str × Str)
  defines : List DefineSpec
  /-- `tal:case`: the cache id of the enclosing switch value, the clause -/
  case_ : Option (Nat × Tok)
  /-- `tal:repeat`: node id, clause, separator -/
  repeat_ : Option (Nat × DefineSpec × Str)
  condition : Option Tok
  switch : Option (Nat × Tok)
  domain : Option Tok
  context : Option Tok
  target : Option Tok
  name : Option Tok
  defineSlot : Option Tok
  fillSlot : Option Tok
  fillIndex : Nat
  defineMacro : Option Tok
  onError : Option (Bool × Tok)
  translateEmpty : Bool
  deriving Inhabited

def caseNode (swId : Nat) (cl : Tok) (node : Node) : Node :=
  Node.define [.alias (lit "default") .marker]
    (.condition (.and_ [.e (.binop (.ref swId) .isNot .cancelMarker),
                        .or_ [.e (.binop (.value cl) .equals (.ref swId)), .e (.binop (.value cl) .equals .marker)]])
      (.cancel [swId] node) none)

def ElemStmts.assigns (p : ElemStmts) : List Assign :=
  Assign.alias (lit "attrs") (.staticDict p.staticDict) ::
    p.defines.map (fun d => Assign.assign d.names (.value d.expr) (d.ctx == .local_))

/-- the statement wrappers of the element, by kind (`applyWrappers` nests them in `wrapOrder`) -/
def ElemStmts.wrappers (p : ElemStmts) : List (Wrapper × (Node → Node)) :=
  [(Wrapper.define, fun node => Node.define p.assigns node)] ++
  (match p.defineSlot with | some cl => [(Wrapper.defineSlot, fun node => Node.defineSlot cl node)] | none => []) ++
  (match p.case_ with | some (swId, cl) => [(Wrapper.case_, caseNode swId cl)] | none => []) ++
  (match p.condition with | some cl => [(Wrapper.condition, fun node => Node.condition (.e (.value cl)) node none)] | none => []) ++
  (match p.repeat_ with
    | some (rid, d, ws) => [(Wrapper.repeat_, fun node => Node.repeat_ rid d.names (.value d.expr) (d.ctx == .local_) ws node)]
    | none => []) ++
  (match p.switch with | some (sid, cl) => [(Wrapper.switch, fun node => Node.cache [(sid, .value cl)] node)] | none => []) ++
  (match p.domain with | some cl => [(Wrapper.domain, fun node => Node.domain cl.str node)] | none => []) ++
  (match p.context with | some cl => [(Wrapper.context, fun node => Node.txContext cl.str node)] | none => []) ++
  (match p.target with
    | some cl => [(Wrapper.target, fun node =>
        Node.define [.alias (lit "default") (.pyName (lit "target_language"))] (.target (.value cl) node))]
    | none => [])

/-- the fallback of `tal:on-error`: the start tag with the static attributes, the fallback content, the end tag -/
def ElemStmts.fallback (p : ElemStmts) (st : Bool) (expr : Tok) : Node :=
  let fbContent := makeContentNode 0 expr none st p.translateEmpty
  if !p.omitTag && !dropNs.contains p.ns then
    match p.startTag with
    | some (.start nm pfx sfx _) =>
      let (sfx', endTag') := match p.endTag with
        | some e => (sfx, e)
        | none => (some (lit ">"), Node.end_ nm (some []) (lit "</") (some (lit ">")))
      .element (.start nm pfx sfx' (.seq p.staticAttrNodes)) (some endTag') fbContent
    | _ => fbContent
  else fbContent

/-- the first part of the rest of `visit_element`: every statement of the element is parsed (and every error the
statements can raise is raised) before the children are visited.  The statement attributes are read only through the
lookup `get` (`ns_attrs.get((ns, name))`), the other attributes only through `prep` (`prepare_attributes`). -/
def elementStmts (c : BCfg) (start : Head) (end0 : Option Elem)
    (get : Str × Str → Option Tok)
    (prep : List (Option Tok × Tok) → List (Str × Option Str) → Option (List PAttr)) : BM ElemStmts := do
    let nonEmpty (o : Option Tok) : Bool := match o with | some t => !t.str.isEmpty | none => false
    -- _check_attributes
    if dropNs.contains start.ns && nonEmpty (get (TAL, lit "attributes")) then
      bErr "LanguageError" ("Dynamic attributes not allowed on elements of the namespace: " ++ start.ns.toString ++ ".")
        ((get (TAL, lit "attributes")).getD default)
    else pure ()
    match get (TAL, lit "script") with
    | some sc => bErr "LanguageError" "The script attribute is unsupported." sc
    | none => pure ()
    let talContent := get (TAL, lit "content")
    if nonEmpty talContent && nonEmpty (get (TAL, lit "replace")) then
      bErr "LanguageError" "You cannot use tal:content and tal:replace at the same time." (talContent.getD default)
    else pure ()
    if nonEmpty talContent && nonEmpty (get (I18N, lit "translate")) then
      bErr "LanguageError" "You cannot use tal:content with non-trivial i18n:translate." (talContent.getD default)
    else pure ()
    -- whitespace for item repetition
    let s0 ← bGet
    match s0.last with
    | some l => bSet { s0 with whitespace := 10 :: List.replicate (lastLine l).length 32 }
    | none => pure ()
    let s1 ← bGet
    let whitespace0 := s1.whitespace
    -- switch
    let switchTok := get (TAL, lit "switch")
    let switchId : Option Nat ← match switchTok with
      | some _ => do let i ← freshId; pure (some i)
      | none => pure none
    bModify (fun s => { s with switches := (switchId, switchTok) :: s.switches })
    let useMacro := get (METAL, lit "use-macro")
    let extendMacro := get (METAL, lit "extend-macro")
    let isMacroUse := nonEmpty useMacro || nonEmpty extendMacro
    -- the slot list of a use-/extend-macro element is opened before the children are visited
    if isMacroUse then bModify (fun s => { s with useMacro := [] :: s.useMacro }) else pure ()
    -- meta:interpolation
    let interpClause := get (META, lit "interpolation")
    let s2 ← bGet
    let interp ← match interpClause with
      | none => pure (s2.interpolation.headD true)
      | some cl =>
        if cl.str = lit "false" || cl.str = lit "off" then pure false
        else if cl.str = lit "true" || cl.str = lit "on" then pure true
        else bErr "LanguageError" "Bad interpolation setting." cl
    -- NOTE: in the code the children are visited at the very end of visit_element; every error the
    -- statements of this element can raise is raised before.  The model builds the statement nodes
    -- first (collecting the errors in the same order) and visits the children where the code does.
    let contentId ← freshId
    let replaceId ← freshId
    let omitId ← freshId
    let translateEmpty := match get (I18N, lit "translate") with | some t => t.str.isEmpty | none => false
    -- ---- the element's own statements, in source order of visit_element
    let mkInner : BM (InnerKind × Bool × Option Node × Option Node × List Node) := do
      if isMacroUse then
        let (macroTok, ext) := if nonEmpty useMacro then (useMacro.getD default, false) else (extendMacro.getD default, true)
        pure (.macroUse macroTok ext, true, none, none, [])
      else
        -- tal:content
        let (content1, end1, forceSuffix) : Option (Nat × Tok × Bool × Bool) × Option Tag × Bool ← match talContent with
          | none => pure (none, end0.map (fun e => e.tag), false)
          | some cl => do
            let (st, expr) ← liftCB (parseSubstitution c.rx cl)
            let n : Option (Nat × Tok × Bool × Bool) := some (contentId, expr, st, translateEmpty)
            match end0 with
            | some e => pure (n, some e.tag, false)
            | none => pure (n, some { pfx := { str := lit "</", pos := 0 }, name := start.name,
                                       suffix := some { str := lit ">", pos := 0 },
                                       space := some { str := [], pos := 0 }, attrs := [], spans := [], restLen := 0 }, true)
        -- i18n:translate
        let translate2 : Option (Nat × Option Str) ← match get (I18N, lit "translate") with
          | none => pure none
          | some cl =>
            let dynamic := nonEmpty talContent || nonEmpty (get (TAL, lit "replace"))
            if dynamic then pure none else do
              let tid ← freshId
              pure (some (tid, if cl.str.isEmpty then none else some cl.str))
        -- tal:attributes / i18n:attributes
        let talAttrs ← match get (TAL, lit "attributes") with
          | none => pure []
          | some cl => liftCB (parseAttributes c.rx c.q cl)
        let i18nAttrs ← match get (I18N, lit "attributes") with
          | none => pure []
          | some cl => liftCB (i18nParseAttributes c.q cl)
        let prepared ← match prep talAttrs i18nAttrs with
          | some p => pure p
          | none => bCrash "IndexError"
        let (attrNodes, filtering) ← createAttributeNodes c prepared i18nAttrs
        let attributes : Node := if filtering.isEmpty then .seq attrNodes else .cache filtering (.seq attrNodes)
        let suffix : Option Str := if forceSuffix then some (lit ">") else start.suffix.map (·.str)
        let startTag : Node := .start start.name.str (maybeTrim c start.pfx.str) (suffix.map (maybeTrim c)) attributes
        let endTag : Option Node := end1.map (fun e =>
          Node.end_ e.name.str (e.space.map (·.str)) (maybeTrim c e.pfx.str) (e.suffix.map (fun s => maybeTrim c s.str)))
        -- tal:omit-tag
        let (omitAlways, omitExpr) : Bool × Option Tok := match get (TAL, lit "omit-tag") with
          | none => (false, none)
          | some cl => let cl' := Tok.strip cl; if cl'.str.isEmpty then (true, none) else (false, some cl')
        -- tal:replace
        let replace1 : Option (Nat × Tok × Bool × Bool) ← match get (TAL, lit "replace") with
          | none => pure none
          | some cl => do
            let (st, expr) ← liftCB (parseSubstitution c.rx cl)
            pure (some (replaceId, expr, st, translateEmpty))
        -- the on-error fallback shows the static attributes, with an empty filter list
        let staticAttrs : List Node := attrNodes.filterMap (fun n => match n with
          | .attribute nm (.const v) qt eq sp df _ => some (.attribute nm (.const v) qt eq sp df []) | _ => none)
        let omitTag := omitAlways || dropNs.contains start.ns || omitExpr.isSome
        let inner : InnerSpec := { content := content1, translate := translate2, startTag := startTag, endTag := endTag,
                                   omitAlways := omitAlways || dropNs.contains start.ns,
                                   omitExpr := omitExpr.map (fun cl => (omitId, cl)), replace := replace1 }
        pure (.tal inner, omitTag, some startTag, endTag, staticAttrs)
    let (kind, omitTag, startTag, endTag, staticAttrNodes) ← mkInner
    -- static attribute dictionary for `attrs`
    let staticDict : List (Str × Str) ← (if isMacroUse then pure [] else do
      let talAttrs ← match get (TAL, lit "attributes") with
        | none => pure []
        | some cl => liftCB (parseAttributes c.rx c.q cl)
      let i18nAttrs ← match get (I18N, lit "attributes") with
        | none => pure []
        | some cl => liftCB (i18nParseAttributes c.q cl)
      match prep talAttrs i18nAttrs with
      | some p => pure (p.filterMap (fun pa => match pa.name with
          | some n => some (n, match pa.text with | some t => t.str | none => (pa.expr.map (·.str)).getD [])
          | none => none))
      | none => bCrash "IndexError")
    -- children are visited with this element's switch / interpolation / use-macro context
    bModify (fun s => { s with interpolation := interp :: s.interpolation })
    -- the statements that can raise are parsed before the children (as in the code)
    let defines ← match get (TAL, lit "define") with
      | none => pure []
      | some cl => liftCB (parseDefines c.rx c.q cl)
    let caseW : Option (Nat × Tok) ← match get (TAL, lit "case") with
      | none => pure none
      | some cl => do
        let s ← bGet
        match (s.switches.find? (fun sw => sw.1.isSome)) with
        | none => bErr "LanguageError" "Must define switch on a parent element." cl
        | some (sid, _) =>
          let swId := sid.getD 0
          let caseId ← freshId
          let _ := caseId
          pure (some (swId, cl))
    let repeatW : Option (Nat × DefineSpec × Str) ← match get (TAL, lit "repeat") with
      | none => pure none
      | some cl => do
        let defs ← liftCB (parseDefines c.rx c.q cl)
        match defs with
        | [d] =>
          let ws ← (if start.ns == TAL then do
              bModify (fun s => { s with last := none, whitespace := whitespace0.dropWhile (· == 10) })
              pure []
            else pure whitespace0)
          let rid ← freshId
          pure (some (rid, d, ws))
        | _ => bCrash "AssertionError"
    let switchW : Option (Nat × Tok) := match switchId, switchTok with
      | some sid, some cl => some (sid, cl)
      | _, _ => none
    let nameW : Option Tok := match get (I18N, lit "name") with
      | some cl => if (Tok.strip cl).str.isEmpty then none else some cl
      | none => none
    -- fill-slot / define-macro / on-error checks that need no children
    match get (METAL, lit "fill-slot") with
    | some cl =>
      if (Tok.strip cl).str.isEmpty then bErr "LanguageError" "Must provide a non-trivial string for metal:fill-slot." cl
      else do
        let s ← bGet
        let index := if isMacroUse then 1 else 0
        if s.useMacro.length ≤ index then bErr "LanguageError" "Cannot use metal:fill-slot without metal:use-macro." cl
        else pure ()
    | none => pure ()
    match get (METAL, lit "define-macro"), get (METAL, lit "fill-slot") with
    | some cl, some _ => bErr "LanguageError" "Can't have 'fill-slot' and 'define-macro' on the same element." cl
    | _, _ => pure ()
    let onErrorParsed ← match get (TAL, lit "on-error") with
      | none => pure none
      | some cl => do let r ← liftCB (parseSubstitution c.rx cl); pure (some r)
    pure { ns := start.ns, kind := kind, useMacroNonEmpty := nonEmpty useMacro, omitTag := omitTag, startTag := startTag,
           endTag := endTag, staticAttrNodes := staticAttrNodes, staticDict := staticDict, defines := defines,
           case_ := caseW, repeat_ := repeatW, condition := get (TAL, lit "condition"), switch := switchW,
           domain := get (I18N, lit "domain"), context := get (I18N, lit "context"), target := get (I18N, lit "target"),
           name := nameW, defineSlot := get (METAL, lit "define-slot"), fillSlot := get (METAL, lit "fill-slot"),
           fillIndex := if isMacroUse then 1 else 0, defineMacro := get (METAL, lit "define-macro"),
           onError := onErrorParsed, translateEmpty := translateEmpty }

/-- the innermost node: a macro use (with the slot fillers its children registered), or `InnerSpec.node` of the children -/
def ElemStmts.innerNode (p : ElemStmts) (slots : List (Tok × Node)) (body : List Node) : Node :=
  match p.kind with
  | .macroUse macroTok ext =>
    Node.define [.assign [{ str := lit "macroname", pos := 0 }] (.const (rsplitSlash macroTok.str)) true]
      (.useExternal (.value macroTok) slots ext)
  | .tal ip => ip.node (.seq body)

/-- the element's node with its statement wrappers: what `metal:fill-slot` hands to the enclosing use and
`metal:define-macro` registers as the macro's body -/
def ElemStmts.slotNode (p : ElemStmts) (slots : List (Tok × Node)) (body : List Node) : Node :=
  applyWrappers p.wrappers wrapOrder (p.innerNode slots body)

/-- … and what stands in the parent's body: the in-place use of a defined macro, inside `i18n:name`, inside `tal:on-error` -/
def ElemStmts.fullNode (p : ElemStmts) (oid : Nat) (slots : List (Tok × Node)) (body : List Node) : Node :=
  let slot2 := match p.defineMacro with
    | some cl => Node.useInternal (some cl.str)
    | none => p.slotNode slots body
  let slot3 := match p.name with | some cl => Node.name cl slot2 | none => slot2
  match p.onError with
  | none => slot3
  | some (st, expr) => .onError oid (p.fallback st expr) slot3

/-- what happens once the children are visited: the node of the element is assembled from its parsed statements `p`
and the nodes of its children; the builder state records the slot filler / the macro -/
def elementPost (p : ElemStmts) (body : List Node) : BM Node := do
      bModify (fun s => { s with switches := s.switches.drop 1, interpolation := s.interpolation.drop 1 })
      let sU ← bGet
      let slots := sU.useMacro.headD []
      if p.useMacroNonEmpty then bModify (fun s => { s with useMacro := s.useMacro.drop 1 }) else pure ()
      let slot0 := p.slotNode slots body
      -- metal:fill-slot: the node goes to the slot list of the enclosing use-macro
      match p.fillSlot with
        | some cl =>
          let index := p.fillIndex
          bModify (fun s => { s with useMacro := (s.useMacro.take index) ++
            [ (s.useMacro.getD index []) ++ [(cl, slot0)] ] ++ s.useMacro.drop (index + 1) })
        | none => pure ()
      -- metal:define-macro
      match p.defineMacro with
        | some cl =>
          -- `self._macros[clause] = slot`: a dict keeps the position of a key that is assigned again
          bModify (fun s =>
            let ms : List (Str × Node) := if s.macros.any (fun m => m.1 == cl.str)
              then s.macros.map (fun m => if m.1 == cl.str then (cl.str, slot0) else m)
              else s.macros ++ [(cl.str, slot0)]
            { s with macros := ms })
        | none => pure ()
      -- tal:on-error
      let oid ← (match p.onError with
        | none => pure 0
        | some _ => freshId)
      pure (p.fullNode oid slots body)

/-- the rest of `visit_element` up to the visit of the children; the result is the continuation that runs after it -/
def elementBodyPre (c : BCfg) (start : Head) (end0 : Option Elem)
    (get : Str × Str → Option Tok)
    (prep : List (Option Tok × Tok) → List (Str × Option Str) → Option (List PAttr)) : BM (List Node → BM Node) := do
  let p ← elementStmts c start end0 get prep
  pure (elementPost p)

/-- the rest of `visit_element`: the statements of the element itself, then the children (`kids`, the recursive
visit, runs exactly once), then the assembly of the node -/
def elementBody (c : BCfg) (kids : BM (List Node)) (start : Head) (end0 : Option Elem)
    (get : Str × Str → Option Tok)
    (prep : List (Option Tok × Tok) → List (Str × Option Str) → Option (List PAttr)) : BM Node := do
  let post ← elementBodyPre c start end0 get prep
  let body ← kids
  post body

/-- `visit_element(start, end, children)`; `kids` visits the children (the recursive call) -/
def elementCore (c : BCfg) (kids : List Item → BM (List Node)) (start : Elem) (end0 : Option Elem)
    (children : List Item) : BM Node := do
  let (ns, attrs) ← elementPre c start
  elementBody c (kids children) start.head end0 (nsGet ns)
    (fun dyn i18n => prepareAttributes c.q attrs dyn i18n (attrNamespace start.nsMap start.ns) ns dropNs)

mutual
def visitItems (c : BCfg) : Nat → List Item → BM (List Node)
  | _, [] => pure []
  | f, it :: rest => do
    let n ← visitItem c f it
    let ns ← visitItems c f rest
    pure (match n with | some n => n :: ns | none => ns)

def visitItem (c : BCfg) : Nat → Item → BM (Option Node)
  | 0, _ => bCrash "RecursionError"
  | f+1, it =>
    match it with
    | .text t => do let n ← visitText c t; pure (some n)
    | .dflt t => pure (some (.text t.str))
    | .cdata t => do
      let s ← bGet
      if !(s.interpolation.headD true) || !hasInterp t.str then pure (some (.text t.str))
      else pure (some (.interpolation (.interp t .none none true true false)))
    | .comment t => do
      let s ← bGet
      if startsWith t.str (lit "<!--!") then pure none
      else if !c.enableCommentInterpolation then pure (some (.text t.str))
      else if startsWith t.str (lit "<!--?") then
        pure (some (.text (if c.q.verbatimCommentLstrip then lit "<!--" ++ t.str.dropWhile (fun ch => (lit "<!-?").contains ch)
                           else lit "<!--" ++ t.str.drop 5)))
      else if !(s.interpolation.headD true) || !hasInterp t.str then pure (some (.text t.str))
      else
        let inner := t.slice 4 (some (t.str.length - 3))
        pure (some (.seq [.text (t.str.take 4),
          .interpolation (.interp inner (if c.escape then .text else .none) none true true false),
          .text (t.str.drop (t.str.length - 3))]))
    | .pi name text =>
      if name.str = lit "python" then pure (some (.codeBlock text))
      else do
        -- '<?' + name + text + '?>' is a plain str: the token position is lost (pos 0)
        let n ← visitText c { str := lit "<?" ++ name.str ++ text.str ++ lit "?>", pos := 0 }
        pure (some n)
    | .startTag e => do let n ← elementCore c (visitItems c f) e none []; pure (some n)
    | .element s e cs => do let n ← elementCore c (visitItems c f) s e cs; pure (some n)

end

/-- `MacroProgram(body, mode, …)`: the whole template → (body node, macros) -/
def buildProgram (c : BCfg) (textMode : Bool) (src : Str) (base : Nat := 0) : CRes (Node × List (Str × Node)) := do
  -- `base`: where this template's source starts in the position space shared by all templates of one rendering
  let toks0 := if textMode then iterText src else iterXmlWith c.rx.xmlSpe src
  let toks := if base == 0 then toks0 else toks0.map (fun t => { t with pos := t.pos + base })
  -- in text mode every token is text (before the D-20a fix the token went through `identify`)
  let items ← if textMode && !c.q.textModeIdentify then pure (toks.map Item.text)
              else parseTokens c.rx c.restrictedNamespace toks
  let init : BState := { switches := [], useMacro := [], interpolation := [true], macros := [], last := some [],
                         whitespace := [10], nextId := 1 }
  let (nodes, st) ← visitItems c (src.length + 4) items init
  pure (.seq nodes, st.macros)

end ChamVerif

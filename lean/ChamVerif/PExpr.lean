import ChamVerif.Value
import ChamVerif.Gen.Tables
/-! The modelled subset of Python expressions: lexer, parser (precedence climbing with fuel)
and evaluator.  `none` from the parser means "not in the subset" — never "invalid". -/
namespace ChamVerif

inductive BinOp | add | sub | mul | mod | floordiv | div
  deriving Repr, DecidableEq, Inhabited
inductive CmpOp | eq | ne | lt | le | gt | ge | in_ | notIn | is_ | isNot
  deriving Repr, DecidableEq, Inhabited

inductive PExpr
  | name (n : Str)
  | int (i : Int)
  | str (s : Str)
  | none | true_ | false_
  | attr (e : PExpr) (n : Str)
  | index (e i : PExpr)
  | call (f : PExpr) (args : List PExpr)
  | not_ (e : PExpr)
  | neg (e : PExpr)
  | binop (op : BinOp) (a b : PExpr)
  | cmp (op : CmpOp) (a b : PExpr)
  | and_ (a b : PExpr)
  | or_ (a b : PExpr)
  | ite (c a b : PExpr)
  | list (es : List PExpr)
  | tuple (es : List PExpr)
  deriving Repr, Inhabited

inductive PTok
  | name (s : Str) | int (i : Nat) | str (s : Str) | op (s : String)
  deriving Repr, DecidableEq, Inhabited

def isIdStart (c : Nat) : Bool := (65 ≤ c && c ≤ 90) || (97 ≤ c && c ≤ 122) || c == 95
def isDigit (c : Nat) : Bool := 48 ≤ c && c ≤ 57
def isIdChar (c : Nat) : Bool := isIdStart c || isDigit c

def digitsVal (ds : Str) : Nat := ds.foldl (fun acc d => acc * 10 + (d - 48)) 0

/-- string literal body after the opening quote `q`; returns (text, rest) -/
def lexStr (q : Nat) : Nat → Str → Str → Option (Str × Str)
  | 0, _, _ => none
  | _+1, _, [] => none
  | f+1, acc, c :: r =>
    if c == q then some (acc.reverse, r)
    else if c == 92 then
      match r with
      | 92 :: r' => lexStr q f (92 :: acc) r'
      | 39 :: r' => lexStr q f (39 :: acc) r'
      | 34 :: r' => lexStr q f (34 :: acc) r'
      | 110 :: r' => lexStr q f (10 :: acc) r'
      | 116 :: r' => lexStr q f (9 :: acc) r'
      | _ => none                       -- other escapes: outside the subset
    else if c == 10 then none
    else lexStr q f (c :: acc) r

def lexP : Nat → Str → Option (List PTok)
  | 0, _ => none
  | _+1, [] => some []
  | f+1, c :: r =>
    if c == 32 || c == 9 then lexP f r
    else if isIdStart c then
      let id := c :: r.takeWhile isIdChar
      let rest := r.dropWhile isIdChar
      -- a string prefix (r'', b'', f'') is outside the subset
      match rest with
      | 39 :: _ | 34 :: _ => none
      | _ => (lexP f rest).map (PTok.name id :: ·)
    else if isDigit c then
      let ds := c :: r.takeWhile isDigit
      let rest := r.dropWhile isDigit
      match rest with
      | d :: _ => if isIdStart d || d == 46 then none else
          if ds.length > 1 && c == 48 then none else (lexP f rest).map (PTok.int (digitsVal ds) :: ·)
      | [] => if ds.length > 1 && c == 48 then none else some [PTok.int (digitsVal ds)]
    else if c == 39 || c == 34 then
      match r with
      | d :: e :: _ => if d == c && e == c then none else       -- triple quotes
          match lexStr c (r.length + 1) [] r with
          | some (s, rest) => (lexP f rest).map (PTok.str s :: ·)
          | none => none
      | _ =>
        match lexStr c (r.length + 1) [] r with
        | some (s, rest) => (lexP f rest).map (PTok.str s :: ·)
        | none => none
    else
      let two : Option (String × Str) := match c, r with
        | 61, 61 :: r' => some ("==", r')
        | 33, 61 :: r' => some ("!=", r')
        | 60, 61 :: r' => some ("<=", r')
        | 62, 61 :: r' => some (">=", r')
        | 47, 47 :: r' => some ("//", r')
        | _, _ => none
      match two with
      | some (o, r') => (lexP f r').map (PTok.op o :: ·)
      | none =>
        let one : Option String :=
          if c == 60 then some "<" else if c == 62 then some ">" else if c == 43 then some "+"
          else if c == 45 then some "-" else if c == 42 then some "*" else if c == 37 then some "%"
          else if c == 40 then some "(" else if c == 41 then some ")" else if c == 91 then some "["
          else if c == 93 then some "]" else if c == 44 then some "," else if c == 46 then some "."
          else if c == 47 then some "/" else none
        match one with
        | some o => match o, r with
          | "*", 42 :: _ => none       -- ** is outside the subset
          | _, _ => (lexP f r).map (PTok.op o :: ·)
        | none => none

def kw (s : String) : PTok := .name (Str.ofString s)

def pyKeywords : List String :=
  ["False", "None", "True", "and", "as", "assert", "async", "await", "break", "class", "continue", "def", "del",
   "elif", "else", "except", "finally", "for", "from", "global", "if", "import", "in", "is", "lambda",
   "nonlocal", "not", "or", "pass", "raise", "return", "try", "while", "with", "yield"]

def isKeyword (s : Str) : Bool := pyKeywords.contains s.toString

abbrev PRes := Option (PExpr × List PTok)

mutual
def pTernary : Nat → List PTok → PRes
  | 0, _ => none
  | f+1, ts =>
    match pOr f ts with
    | none => none
    | some (a, ts) =>
      match ts with
      | t :: ts' =>
        if t == kw "if" then
          match pOr f ts' with
          | none => none
          | some (c, ts2) =>
            match ts2 with
            | t2 :: ts3 =>
              if t2 == kw "else" then
                match pTernary f ts3 with
                | none => none
                | some (b, ts4) => some (.ite c a b, ts4)
              else none
            | [] => none
        else some (a, ts)
      | [] => some (a, ts)
def pOr : Nat → List PTok → PRes
  | 0, _ => none
  | f+1, ts => do
    let (a, ts) ← pAnd f ts
    pOrRest f a ts
def pOrRest : Nat → PExpr → List PTok → PRes
  | 0, _, _ => none
  | f+1, a, ts =>
    match ts with
    | t :: ts' =>
      if t == kw "or" then
        match pAnd f ts' with
        | none => none
        | some (b, ts2) => pOrRest f (.or_ a b) ts2
      else pure (a, ts)
    | [] => pure (a, ts)
def pAnd : Nat → List PTok → PRes
  | 0, _ => none
  | f+1, ts => do
    let (a, ts) ← pNot f ts
    pAndRest f a ts
def pAndRest : Nat → PExpr → List PTok → PRes
  | 0, _, _ => none
  | f+1, a, ts =>
    match ts with
    | t :: ts' =>
      if t == kw "and" then
        match pNot f ts' with
        | none => none
        | some (b, ts2) => pAndRest f (.and_ a b) ts2
      else pure (a, ts)
    | [] => pure (a, ts)
def pNot : Nat → List PTok → PRes
  | 0, _ => none
  | f+1, ts =>
    match ts with
    | t :: ts' =>
      if t == kw "not" then
        match pNot f ts' with
        | none => none
        | some (a, ts2) => some (.not_ a, ts2)
      else pCmp f ts
    | [] => none
def pCmp : Nat → List PTok → PRes
  | 0, _ => none
  | f+1, ts => do
    let (a, ts) ← pArith f ts
    let opr : Option (CmpOp × List PTok) := match ts with
      | .op "==" :: r => some (.eq, r)
      | .op "!=" :: r => some (.ne, r)
      | .op "<" :: r => some (.lt, r)
      | .op "<=" :: r => some (.le, r)
      | .op ">" :: r => some (.gt, r)
      | .op ">=" :: r => some (.ge, r)
      | t1 :: r =>
        if t1 == kw "in" then some (.in_, r)
        else if t1 == kw "is" then
          match r with
          | t2 :: r2 => if t2 == kw "not" then some (.isNot, r2) else some (.is_, r)
          | [] => some (.is_, r)
        else if t1 == kw "not" then
          match r with
          | t2 :: r2 => if t2 == kw "in" then some (.notIn, r2) else none
          | [] => none
        else none
      | [] => none
    match opr with
    | none => pure (a, ts)
    | some (o, r) => do
      let (b, ts2) ← pArith f r
      -- chained comparisons are outside the subset
      match ts2 with
      | .op "==" :: _ | .op "!=" :: _ | .op "<" :: _ | .op "<=" :: _ | .op ">" :: _ | .op ">=" :: _ => none
      | t :: _ => if t == kw "in" || t == kw "is" || t == kw "not" then none else pure (.cmp o a b, ts2)
      | [] => pure (.cmp o a b, ts2)
def pArith : Nat → List PTok → PRes
  | 0, _ => none
  | f+1, ts => do
    let (a, ts) ← pTerm f ts
    pArithRest f a ts
def pArithRest : Nat → PExpr → List PTok → PRes
  | 0, _, _ => none
  | f+1, a, ts =>
    match ts with
    | .op "+" :: r => do let (b, ts2) ← pTerm f r; pArithRest f (.binop .add a b) ts2
    | .op "-" :: r => do let (b, ts2) ← pTerm f r; pArithRest f (.binop .sub a b) ts2
    | _ => pure (a, ts)
def pTerm : Nat → List PTok → PRes
  | 0, _ => none
  | f+1, ts => do
    let (a, ts) ← pUnary f ts
    pTermRest f a ts
def pTermRest : Nat → PExpr → List PTok → PRes
  | 0, _, _ => none
  | f+1, a, ts =>
    match ts with
    | .op "*" :: r => do let (b, ts2) ← pUnary f r; pTermRest f (.binop .mul a b) ts2
    | .op "%" :: r => do let (b, ts2) ← pUnary f r; pTermRest f (.binop .mod a b) ts2
    | .op "//" :: r => do let (b, ts2) ← pUnary f r; pTermRest f (.binop .floordiv a b) ts2
    | .op "/" :: r => do let (b, ts2) ← pUnary f r; pTermRest f (.binop .div a b) ts2
    | _ => pure (a, ts)
def pUnary : Nat → List PTok → PRes
  | 0, _ => none
  | f+1, ts =>
    match ts with
    | .op "-" :: r => do let (a, ts2) ← pUnary f r; pure (.neg a, ts2)
    | _ => do
      let (a, ts2) ← pAtom f ts
      pPostfix f a ts2
def pPostfix : Nat → PExpr → List PTok → PRes
  | 0, _, _ => none
  | f+1, a, ts =>
    match ts with
    | .op "." :: .name n :: r => if isKeyword n then none else pPostfix f (.attr a n) r
    | .op "[" :: r => do
      let (i, ts2) ← pTernary f r
      match ts2 with
      | .op "]" :: r2 => pPostfix f (.index a i) r2
      | _ => none
    | .op "(" :: .op ")" :: r => pPostfix f (.call a []) r
    | .op "(" :: r => do
      let (args, ts2) ← pArgs f r
      match ts2 with
      | .op ")" :: r2 => pPostfix f (.call a args) r2
      | _ => none
    | _ => pure (a, ts)
def pArgs : Nat → List PTok → Option (List PExpr × List PTok)
  | 0, _ => none
  | f+1, ts => do
    let (a, ts2) ← pTernary f ts
    match ts2 with
    | .op "," :: r => do
      let (rest, ts3) ← pArgs f r
      pure (a :: rest, ts3)
    | _ => pure ([a], ts2)
def pAtom : Nat → List PTok → PRes
  | 0, _ => none
  | f+1, ts =>
    match ts with
    | .int i :: r => pure (.int i, r)
    | .str s :: r =>
      match r with
      | .str _ :: _ => none       -- implicit concatenation: outside the subset
      | _ => pure (.str s, r)
    | .name n :: r =>
      if n == Str.ofString "None" then pure (.none, r)
      else if n == Str.ofString "True" then pure (.true_, r)
      else if n == Str.ofString "False" then pure (.false_, r)
      else if isKeyword n then none
      else pure (.name n, r)
    | .op "(" :: r => do
      let (a, ts2) ← pTernary f r
      match ts2 with
      | .op ")" :: r2 => pure (a, r2)
      | .op "," :: .op ")" :: r2 => pure (.tuple [a], r2)
      | .op "," :: r2 => do
        let (rest, ts3) ← pArgs f r2
        match ts3 with
        | .op ")" :: r3 => pure (.tuple (a :: rest), r3)
        | _ => none
      | _ => none
    | .op "[" :: .op "]" :: r => pure (.list [], r)
    | .op "[" :: r => do
      let (es, ts2) ← pArgs f r
      match ts2 with
      | .op "]" :: r2 => pure (.list es, r2)
      | _ => none
    | _ => none
end

/-- result of the lexical bracket scan -/
inductive ScanRes
  | invalid                      -- certainly a SyntaxError
  | unknown                      -- constructs the scan does not judge (comments, triple quotes)
  | ok (stack : List Nat)        -- scanned to the end, outside any string literal; open brackets left
  deriving Repr, DecidableEq, Inhabited

def closes (o c : Nat) : Bool := (o == 40 && c == 41) || (o == 91 && c == 93) || (o == 123 && c == 125)

/-- scanner mode: outside string literals / inside one with quote `q` / right after a backslash in one -/
inductive ScanMode | out | str (q : Nat) | esc (q : Nat)
  deriving Repr, DecidableEq, Inhabited

def isTriple (c : Nat) (r : Str) : Bool :=
  match r with
  | d :: e :: _ => d == c && e == c
  | _ => false

def popClose (st : List Nat) (c : Nat) : Option (List Nat) :=
  match st with
  | o :: rest => if closes o c then some rest else none
  | [] => none

/-- A *sound* syntactic test for invalid Python: scanning outside string literals, a closing
bracket without its opener, a mismatched pair, an unclosed bracket or an unterminated (single-line)
string literal.  Every such text is a `SyntaxError` in Python; the converse is not claimed. -/
def scan : ScanMode → List Nat → Str → ScanRes
  | .out, st, [] => .ok st
  | .str _, _, [] => .invalid
  | .esc _, _, [] => .invalid
  | .esc q, st, _ :: r => scan (.str q) st r
  | .str q, st, c :: r =>
    if c == 92 then scan (.esc q) st r
    else if c == 10 then .invalid
    else if c == q then scan .out st r
    else scan (.str q) st r
  | .out, st, c :: r =>
    if c == 39 || c == 34 then
      (if isTriple c r then .unknown else scan (.str c) st r)
    else if c == 40 || c == 91 || c == 123 then scan .out (c :: st) r
    else if c == 41 || c == 93 || c == 125 then
      (match popClose st c with
       | some rest => scan .out rest r
       | none => .invalid)
    else if c == 35 then .unknown
    else scan .out st r

def definitelyInvalid (s : Str) : Bool :=
  s.isEmpty || (match scan .out [] s with
    | .invalid => true
    | .ok (_ :: _) => true
    | _ => false)

/-- parse a complete expression of the subset -/
def parsePExpr (s : Str) : Option PExpr := do
  let ts ← lexP (s.length + 1) s
  let (e, rest) ← pTernary (4 * ts.length + 8) ts
  if rest.isEmpty then some e else none

end ChamVerif

/-! ## Evaluation -/
namespace ChamVerif

structure RepItem where
  length : Nat
  consumed : Nat           -- number of items the loop has taken so far
  /-- which loop activation this item belongs to (the loop advances its own iterator, whatever `repeat[name]` holds by now) -/
  tag : Str := []
  deriving Repr, Inhabited, DecidableEq

/-- index as `RepeatItem.index` computes it: `length - remaining - 1` -/
def RepItem.index (r : RepItem) : Int := (r.consumed : Int) - 1

structure ECtx where
  tab : ObjTab
  vars : List (Str × Val)            -- visible template variables (innermost binding first)
  aliases : List (Str × Val)         -- compile-time aliases (`default`, `attrs`)
  repeats : List (Str × RepItem)     -- the RepeatDict
  pyBuiltins : List String           -- names of Python builtins (Gen)
  /-- the template whose code is running (0 = the one being rendered) -/
  tid : Nat := 0
  /-- the macro names every template defines, by template id -/
  macroTable : List (Nat × List Str) := []
  deriving Inhabited

structure ESt where
  log : Array Str                    -- keys of the recorder calls, in evaluation order
  deriving Inhabited

abbrev EM (α : Type) := ESt → (R α × ESt)

instance : Monad EM where
  pure a := fun s => (.ok a, s)
  bind x f := fun s => match x s with
    | (.ok a, s') => f a s'
    | (.raised e, s') => (.raised e, s')
    | (.unsupported w, s') => (.unsupported w, s')

def liftR {α} (r : R α) : EM α := fun s => (r, s)
def emRaise {α} (cls : String) (msg : Str) : EM α := liftR (.raised { cls := cls, msg := msg })
def emUnsupported {α} (w : String) : EM α := liftR (.unsupported w)
def emLog (k : Str) : EM Unit := fun s => (.ok (), { s with log := s.log.push k })

def lookupAssoc {β} (l : List (Str × β)) (k : Str) : Option β := (l.find? (·.1 == k)).map (·.2)

/-- `COMPILER_INTERNALS_OR_DISALLOWED | set(Compiler.defaults)`: names left alone by `NameTransform` -/
def internals : List String := Gen.compilerInternals ++ Gen.compilerDefaults
def templateBuiltins : List String := ["template", "macros", "nothing"]
def modelledFns : List String := ["len", "str", "int", "bool"]

/-- `NameTransform` + `Scope.get` / `get_name` -/
def resolveName (c : ECtx) (n : Str) : EM Val :=
  let ns := n.toString
  if startsWith n (lit "__") || internals.contains ns then emUnsupported "internal name"
  else match lookupAssoc c.aliases n with
  | some v => pure v
  | none =>
    match lookupAssoc c.vars n with
    | some v => pure v
    | none =>
      if ns == "nothing" then pure .none
      else if ns == "macros" then pure (.macros c.tid)
      else if ns == "template" then pure (.template_ c.tid)
      else if modelledFns.contains ns then pure (.fn ns)
      else if c.pyBuiltins.contains ns then emUnsupported "python builtin outside the subset"
      else emRaise "NameError" n

def romanTable : List (Nat × String) :=
  [(1000, "M"), (900, "CM"), (500, "D"), (400, "CD"), (100, "C"), (90, "XC"),
   (50, "L"), (40, "XL"), (10, "X"), (9, "IX"), (5, "V"), (4, "IV"), (1, "I")]

/-- `for v, r in rnvalues: rct, n = divmod(n, v); s = s + r * rct` as a list of (count, value, numeral) -/
def romanDecomp : List (Nat × String) → Nat → List (Nat × Nat × String)
  | [], _ => []
  | (v, r) :: tbl, n => (n / v, v, r) :: romanDecomp tbl (n % v)

def romanWith (tbl : List (Nat × String)) (n : Nat) : Str :=
  ((romanDecomp tbl n).map (fun (c, _, r) => (List.replicate c (Str.ofString r)).flatten)).flatten

def roman (n : Nat) : Str := romanWith romanTable n

/-- `_letter`: repeated divmod by 26, most significant first -/
def letterFrom (base : Nat) : Nat → Nat → Str → Str
  | 0, _, acc => acc
  | f+1, index, acc =>
    let acc' := (base + index % 26) :: acc
    if index / 26 == 0 then acc' else letterFrom base f (index / 26) acc'

def lowerAscii (s : Str) : Str := s.map (fun c => if 65 ≤ c && c ≤ 90 then c + 32 else c)

def repItemAttr (r : RepItem) (n : String) : EM Val :=
  let i := r.index
  match n with
  | "index" => pure (.cint i)
  | "number" => pure (.cint (i + 1))
  | "length" => pure (.int r.length)
  | "start" => pure (.cint (if i == 0 then 1 else 0))
  | "end" => pure (.cint (if i == (r.length : Int) - 1 then 1 else 0))
  | "odd" => pure (.cstr (if i % 2 == 1 then lit "odd" else []))
  | "even" => pure (.cstr (if i % 2 == 0 then lit "even" else []))
  | "parity" => pure (.cstr (if i % 2 == 0 then lit "even" else lit "odd"))
  | "letter" => if i < 0 then emRaise "TypeError" (lit "No iteration position") else pure (.cstr (letterFrom 97 (i.toNat + 2) i.toNat []))
  | "Letter" => if i < 0 then emRaise "TypeError" (lit "No iteration position") else pure (.cstr (letterFrom 65 (i.toNat + 2) i.toNat []))
  | "Roman" => pure (.cstr (roman (i + 1).toNat))
  | "roman" => pure (.cstr (lowerAscii (roman (i + 1).toNat)))
  | _ => emUnsupported "repeat attribute"

/-- is `n` a real attribute of the builtin type (`dir(type)`, regenerated)?  Unknown types: assume yes. -/
def hasTypeAttr (ty : String) (n : Str) : Bool :=
  startsWith n (lit "__") || (match Gen.builtinAttrs.find? (·.1 == ty) with
    | some (_, l) => l.contains n.toString
    | none => true)

def attrErrMsg (v : Val) (n : Str) : Str :=
  lit "'" ++ lit v.typeName ++ lit "' object has no attribute '" ++ n ++ lit "'"

def dictMethods : List String := ["keys", "values", "items", "get", "pop", "update", "copy", "clear", "setdefault", "popitem", "fromkeys"]

/-- `lookup_attr(obj, name)`: attribute first, item lookup only on AttributeError, KeyError → the AttributeError -/
def lookupAttr (c : ECtx) (v : Val) (n : Str) : EM Val :=
  match v with
  | .dict kvs =>
    if dictMethods.contains n.toString || startsWith n (lit "__") then emUnsupported "dict method"
    else match kvs.find? (fun kv => kv.1 == .str n) with
      | some kv => pure kv.2
      | none => emRaise "AttributeError" (attrErrMsg v n)
  | .obj id =>
    match c.tab[id]? with
    | none => emUnsupported "unknown object"
    | some o =>
      match lookupAssoc o.attrs n with
      | some a => pure a
      | none =>
        if startsWith n (lit "__") then emUnsupported "dunder attribute" else
        if o.hasGetitem then
          match o.items.find? (fun kv => kv.1 == .str n) with
          | some kv => pure kv.2
          | none => emRaise "AttributeError" (attrErrMsg v n)
        else emRaise "AttributeError" (attrErrMsg v n)
  | .repeatDict =>
    match lookupAssoc c.repeats n with
    | some _ => pure (.repeatItem n)
    | none => emRaise "AttributeError" n
  | .repeatItem k =>
    match lookupAssoc c.repeats k with
    | some r => repItemAttr r n.toString
    | none => emUnsupported "stale repeat item"
  | .errorInfo cls value pos =>
    match n.toString with
    | "type" => pure (.excClass cls)
    | "value" => pure (.excValue cls value)
    | "lineno" => pure (match pos with | some p => .int p.1 | none => .none)
    | "offset" => pure (match pos with | some p => .int p.2 | none => .none)
    | _ => emUnsupported "ErrorInfo attribute"
  | .none | .bool _ | .int _ | .cint _ =>
    if startsWith n (lit "__") then emUnsupported "dunder attribute"
    else match v with
      | .none => emRaise "AttributeError" (attrErrMsg v n)
      | .cint _ => emUnsupported "number attribute"
      | _ => if hasTypeAttr v.typeName n then emUnsupported "number attribute" else emRaise "AttributeError" (attrErrMsg v n)
  -- no such attribute → `obj.__getitem__(name)`: sequences raise TypeError (not KeyError), which propagates
  | .str _ | .markup _ | .cstr _ =>
    if hasTypeAttr "str" n then emUnsupported "str method"
    else emRaise "TypeError" (lit "string indices must be integers, not 'str'")
  | .list _ =>
    if hasTypeAttr "list" n then emUnsupported "list method"
    else emRaise "TypeError" (lit "list indices must be integers or slices, not str")
  | .tuple _ =>
    if hasTypeAttr "tuple" n then emUnsupported "tuple method"
    else emRaise "TypeError" (lit "tuple indices must be integers or slices, not str")
  | .template_ tid =>
    -- `template.macros` (everything else of a template object is outside the model)
    if n == lit "macros" then pure (.macros tid) else emUnsupported "template attribute"
  | _ => emUnsupported "attribute access on this value"

/-- `KeyError.args[0]` as text -/
def keyRepr (c : ECtx) (k : Val) : EM Str := liftR (Val.strOf c.tab k)

def subscript (c : ECtx) (v i : Val) : EM Val :=
  match v with
  | .dict kvs =>
    match i with
    | .str _ | .int _ =>
      match kvs.find? (fun kv => kv.1 == i) with
      | some kv => pure kv.2
      | none => do let r ← keyRepr c i; emRaise "KeyError" r
    | _ => emUnsupported "dict key class"
  | .list vs | .tuple vs =>
    match i with
    | .int k =>
      let n : Int := vs.length
      let k' := if k < 0 then k + n else k
      if k' < 0 || k' ≥ n then
        emRaise "IndexError" (lit (match v with | .list _ => "list index out of range" | _ => "tuple index out of range"))
      else pure (vs.getD k'.toNat .none)
    | .bool b =>
      let k' : Nat := if b then 1 else 0
      if k' ≥ vs.length then
        emRaise "IndexError" (lit (match v with | .list _ => "list index out of range" | _ => "tuple index out of range"))
      else pure (vs.getD k' .none)
    | .str _ | .none | .list _ | .tuple _ | .dict _ =>
      emRaise "TypeError" (lit (match v with | .list _ => "list" | _ => "tuple") ++ lit " indices must be integers or slices, not " ++ lit i.typeName)
    | _ => emUnsupported "sequence index class"
  | .str s =>
    match i with
    | .int k =>
      let n : Int := s.length
      let k' := if k < 0 then k + n else k
      if k' < 0 || k' ≥ n then emRaise "IndexError" (lit "string index out of range")
      else pure (.str [s.getD k'.toNat 0])
    | .str _ | .none | .list _ | .tuple _ | .dict _ =>
      emRaise "TypeError" (lit "string indices must be integers, not '" ++ lit i.typeName ++ lit "'")
    | _ => emUnsupported "string index class"
  | .obj id =>
    match c.tab[id]? with
    | none => emUnsupported "unknown object"
    | some o =>
      if !o.hasGetitem then emUnsupported "object without __getitem__" else
      match o.items.find? (fun kv => kv.1 == i) with
      | some kv => pure kv.2
      | none => do let r ← keyRepr c i; emRaise "KeyError" r
  | .repeatDict =>
    match i with
    | .str k => match lookupAssoc c.repeats k with
      | some _ => pure (.repeatItem k)
      | none => do let r ← keyRepr c i; emRaise "KeyError" r
    | _ => emUnsupported "repeat key class"
  | .macros tid =>
    match i with
    | .str k =>
      -- `Macros.__getitem__`: `name.replace('-', '_')`, then `getattr(template, "_render_" + name)`
      let k' := k.map (fun ch => if ch == 45 then 95 else ch)
      let names := ((c.macroTable.find? (·.1 == tid)).map (·.2)).getD []
      match names.find? (fun n => n.map (fun ch => if ch == 45 then 95 else ch) == k') with
      | some n => pure (.macro tid (some n))
      | none => emRaise "KeyError" (lit "Macro does not exist: '" ++ k' ++ lit "'.")
    | _ => emUnsupported "macro key class"
  | _ => emUnsupported "subscript on this value"

def asInt : Val → Option Int
  | .int i | .cint i => some i
  | .bool b => some (if b then 1 else 0)
  | _ => none

def asStr : Val → Option Str
  | .str s | .cstr s => some s
  | _ => none

def isSubstr (a b : Str) : Bool :=
  (List.range (b.length + 1)).any (fun k => a.isPrefixOf (b.drop k))

def binop (op : BinOp) (a b : Val) : EM Val :=
  match asInt a, asInt b with
  | some x, some y =>
    match a, b with
    | .bool _, .bool _ => emUnsupported "bool arithmetic"
    | _, _ =>
    match op with
    | .add => pure (.int (x + y))
    | .sub => pure (.int (x - y))
    | .mul => pure (.int (x * y))
    | .mod => if y == 0 then emRaise "ZeroDivisionError" (lit "integer modulo by zero")
              else if y > 0 then pure (.int (x % y)) else emUnsupported "negative modulus"
    | .floordiv => if y == 0 then emRaise "ZeroDivisionError" (lit "integer division or modulo by zero")
              else if y > 0 then pure (.int (x.fdiv y)) else emUnsupported "negative divisor"
    | .div => if y == 0 then emRaise "ZeroDivisionError" (lit "division by zero") else emUnsupported "float division"
  | _, _ =>
    match op, a, b with
    | .add, .str x, .str y => pure (.str (x ++ y))
    | .add, .list x, .list y => pure (.list (x ++ y))
    | .add, .tuple x, .tuple y => pure (.tuple (x ++ y))
    | _, _, _ => emUnsupported "operator on these classes"

def compare (c : ECtx) (op : CmpOp) (a b : Val) : EM Val :=
  match op with
  | .eq => do let e ← liftR (Val.pyEq a b); pure (.bool e)
  | .ne => do let e ← liftR (Val.pyEq a b); pure (.bool (!e))
  | .is_ => do let e ← liftR (Val.pyIs a b); pure (.bool e)
  | .isNot => do let e ← liftR (Val.pyIs a b); pure (.bool (!e))
  | .lt | .le | .gt | .ge =>
    match asInt a, asInt b with
    | some x, some y =>
      pure (.bool (match op with | .lt => x < y | .le => x ≤ y | .gt => x > y | _ => x ≥ y))
    | _, _ => match asStr a, asStr b with
      | some _, some _ => emUnsupported "string ordering"
      | _, _ => emUnsupported "ordering on these classes"
  | .in_ | .notIn =>
    let neg := op == .notIn
    match b with
    | .list vs | .tuple vs => do
      let found ← vs.foldlM (fun acc x => do
        if acc then pure true else liftR (Val.pyEq a x)) false
      pure (.bool (found != neg))
    | .str s => match a with
      | .str t => pure (.bool (isSubstr t s != neg))
      | _ => emUnsupported "in <str> with non-str"
    | .dict kvs => match a with
      | .str _ | .int _ => pure (.bool (kvs.any (fun kv => kv.1 == a) != neg))
      | _ => emUnsupported "dict membership key class"
    | _ => let _ := c; emUnsupported "membership on this class"

def callFn (c : ECtx) (f : Val) (args : List Val) : EM Val :=
  match f, args with
  | .cint i, [] => pure (.cint i)
  | .cstr s, [] => pure (.cstr s)
  | .fn "len", [v] =>
    match v with
    | .str s | .cstr s | .bytes s => pure (.int s.length)
    | .list vs | .tuple vs => pure (.int vs.length)
    | .dict kvs => pure (.int kvs.length)
    | _ => emUnsupported "len of this value"
  | .fn "str", [v] => do let s ← liftR (Val.strOf c.tab v); pure (.str s)
  | .fn "bool", [v] => do let b ← liftR (Val.truthy c.tab v); pure (.bool b)
  | .fn "int", [v] => match v with
    | .int i | .cint i => pure (.int i)
    | .bool b => pure (.int (if b then 1 else 0))
    | _ => emUnsupported "int() of this value"
  -- the recorder: R(key, value) logs `key` and returns `value`; R(key, value, 'Exc') logs and raises Exc(key)
  | .fn "R", [.str k, v] => do emLog k; pure v
  | .fn "R", [.str k, _, .str cls] => do emLog k; emRaise cls.toString k
  | _, _ => emUnsupported "call"

def evalP (c : ECtx) : Nat → PExpr → EM Val
  | 0, _ => emUnsupported "expression too deep"
  | f+1, e =>
    match e with
    | .name n => if n == lit "R" then
        (match lookupAssoc c.vars n with | some v => pure v | none => emRaise "NameError" n)
      else resolveName c n
    | .int i => pure (.int i)
    | .str s => pure (.str s)
    | .none => pure .none
    | .true_ => pure (.bool true)
    | .false_ => pure (.bool false)
    | .attr e n => do let v ← evalP c f e; lookupAttr c v n
    | .index e i => do let v ← evalP c f e; let k ← evalP c f i; subscript c v k
    | .call fe args => do
      let fv ← evalP c f fe
      let vs ← evalArgs c f args
      callFn c fv vs
    | .not_ e => do let v ← evalP c f e; let b ← liftR (Val.truthy c.tab v); pure (.bool (!b))
    | .neg e => do
      let v ← evalP c f e
      match v with
      | .int i | .cint i => pure (.int (-i))
      | _ => emUnsupported "negation of this value"
    | .binop op a b => do let x ← evalP c f a; let y ← evalP c f b; binop op x y
    | .cmp op a b => do let x ← evalP c f a; let y ← evalP c f b; compare c op x y
    | .and_ a b => do
      let x ← evalP c f a
      let t ← liftR (Val.truthy c.tab x)
      if t then evalP c f b else pure x
    | .or_ a b => do
      let x ← evalP c f a
      let t ← liftR (Val.truthy c.tab x)
      if t then pure x else evalP c f b
    | .ite cnd a b => do
      let x ← evalP c f cnd
      let t ← liftR (Val.truthy c.tab x)
      if t then evalP c f a else evalP c f b
    | .list es => do let vs ← evalArgs c f es; pure (.list vs)
    | .tuple es => do let vs ← evalArgs c f es; pure (.tuple vs)
where
  evalArgs (c : ECtx) : Nat → List PExpr → EM (List Val)
    | _, [] => pure []
    | f, e :: es => do
      let v ← evalP c f e
      let vs ← evalArgs c f es
      pure (v :: vs)

end ChamVerif

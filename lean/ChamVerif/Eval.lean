import ChamVerif.Build
/-! What the generated Python does: a big-step interpreter of the node tree (`compiler.py`).
State = output streams, `econtext`/`rcontext`, the RepeatDict, the call stack of render-function
activations (cache variables, i18n triple, `__token`, saved stream lengths), and logs. -/
namespace ChamVerif

structure TCall where
  msgid : Str
  mapping : Option (List (Str × Str))
  dflt : Option Str
  domain : Option Str
  context : Option Str
  target : Option Str
  /-- not a message of the template: an inserted value that is not a string, a number or an `__html__` object, offered
  to the translation function by `__convert`/`__quote` before it is converted to text (`msgid` = its string form) -/
  offered : Bool := false
  deriving Repr, Inhabited, DecidableEq

structure Frame where
  cache : List (Nat × Val) := []
  domain : Option Str := none
  context : Option Str := none
  targetLang : Val := .none
  saved : List (Nat × Nat) := []              -- on-error saved stream lengths
  /-- `__slot_<name>` of a macro function: the filler popped at its start (`none` = no filler: default content) -/
  slotFns : List (Str × Option Nat) := []
  /-- the template this function was compiled from (0 = the one being rendered, k > 0 = library k) -/
  tid : Nat := 0
  deriving Inhabited

structure ErrRec where
  pos : Nat
  len : Nat
  deriving Repr, Inhabited, DecidableEq

/-- what evaluating an *expression* can change: the logs and `__token` — by typing, nothing else -/
structure XState where
  log : Array Str := #[]
  tlog : Array TCall := #[]
  token : Option (Nat × Nat) := none           -- `__token`: (pos, len) of the expression being evaluated
  deriving Inhabited

/-- what evaluating an expression can read -/
structure Env where
  own : List (Str × Val)                       -- econtext: this scope's own dictionary
  root : List (Str × Val)                      -- econtext._root's dictionary (shared)
  rcontext : List (Str × Val)
  repeats : List (Str × RepItem)
  frames : List Frame
  /-- is this scope a copy (`_root` set)?  The top-level scope is its own root. -/
  hasRoot : Bool := false
  deriving Inhabited

/-- a slot filler: its node, and what the nested function sees of the function it was written in -/
structure Closure where
  node : Node
  al : List (Str × Val)
  cache : List (Nat × Val)
  domain : Option Str
  context : Option Str
  targetLang : Val
  slotFns : List (Str × Option Nat)
  tid : Nat := 0
  deriving Inhabited

structure RState where
  streams : List Str                           -- innermost stream first
  env : Env
  x : XState
  handled : Nat                                -- on_error_handler calls
  /-- the `i18n:name` streams of the translations being rendered (innermost first): name ↦ rendered markup -/
  tmaps : List (List (Str × Str)) := []
  /-- `collections.deque` objects of slot fillers (by reference): id ↦ closure ids, leftmost first -/
  heap : List (Nat × List Nat) := []
  /-- the `__fill_<slot>` closures created so far -/
  closures : Array Closure := #[]
  /-- `rcontext['__error__']`: (pos, len) of the failing expression, innermost function first -/
  errs : Array (Nat × Nat) := #[]
  /-- number of `tal:repeat` activations so far (gives every loop its own identity) -/
  loops : Nat := 0
  deriving Inhabited

/-- a template other than the one being rendered: compiled when first used -/
structure LibTpl where
  src : Str
  base : Nat                                   -- its tokens carry positions `base + offset`
  macros : List (Str × Node)
  body : Node
  deriving Inhabited

structure ECfg where
  tc : TCfg
  tab : ObjTab
  pyBuiltins : List String
  talesExc : List String                       -- TalesExpr.exceptions (class names)
  existsExc : List String
  excParents : List (String × List String)     -- class ↦ its MRO names
  booleanAttrs : List Str
  src : Str                                    -- the (newline-normalised) template source, for token locations
  macros : List (Str × Node) := []             -- the template's macros (`render_<name>` functions)
  /-- the whole template as a render function (used when the template itself is used as a macro) -/
  body : Node := .seq []
  /-- other templates passed in as variables (library k = `libs[k-1]`); their token positions start at `base` -/
  libs : List LibTpl := []

inductive XRes (α : Type)
  | ok (a : α) (x : XState)
  | raised (e : Exc) (x : XState)
  | unsupported (why : String)
  deriving Inhabited

/-- expression-level monad: reads an `Env`, threads an `XState` -/
abbrev XM (α : Type) := XState → XRes α

instance : Monad XM where
  pure a := fun x => .ok a x
  bind m f := fun x => match m x with
    | .ok a x' => f a x'
    | .raised e x' => .raised e x'
    | .unsupported w => .unsupported w

def xRaise {α} (e : Exc) : XM α := fun x => .raised e x
def xUnsupported {α} (w : String) : XM α := fun _ => .unsupported w
def xLiftR {α} (r : R α) : XM α := fun x => match r with
  | .ok a => .ok a x
  | .raised e => .raised e x
  | .unsupported w => .unsupported w
def xSetToken (t : Tok) : XM Unit := fun x =>
  let st := Tok.strip t
  .ok () { x with token := some (st.pos, st.str.length) }
def xSetTokenRaw (pos len : Nat) : XM Unit := fun x => .ok () { x with token := some (pos, len) }

inductive Res (α : Type)
  | ok (a : α) (s : RState)
  | raised (e : Exc) (s : RState)
  | unsupported (why : String)
  deriving Inhabited

abbrev RM (α : Type) := RState → Res α

instance : Monad RM where
  pure a := fun s => .ok a s
  bind x f := fun s => match x s with
    | .ok a s' => f a s'
    | .raised e s' => .raised e s'
    | .unsupported w => .unsupported w

def mGet : RM RState := fun s => .ok s s
def mSet (s : RState) : RM Unit := fun _ => .ok () s
def mModify (f : RState → RState) : RM Unit := fun s => .ok () (f s)
def mRaise {α} (e : Exc) : RM α := fun s => .raised e s
def mUnsupported {α} (w : String) : RM α := fun _ => .unsupported w
def mLiftR {α} (r : R α) : RM α := fun s => match r with
  | .ok a => .ok a s
  | .raised e => .raised e s
  | .unsupported w => .unsupported w

/-- run an expression-level computation: it sees the environment, and can only change `s.x` -/
def liftX {α} (m : Env → XM α) : RM α := fun s =>
  match m s.env s.x with
  | .ok a x' => .ok a { s with x := x' }
  | .raised e x' => .raised e { s with x := x' }
  | .unsupported w => .unsupported w

def modEnv (f : Env → Env) : RM Unit := mModify (fun s => { s with env := f s.env })

def emit (t : Str) : RM Unit := mModify (fun s => match s.streams with
  | top :: rest => { s with streams := (top ++ t) :: rest }
  | [] => { s with streams := [t] })

def Env.topFrame (e : Env) : Frame := e.frames.headD {}
def modFrame (f : Frame → Frame) : RM Unit := modEnv (fun e => match e.frames with
  | fr :: rest => { e with frames := f fr :: rest }
  | [] => { e with frames := [f {}] })

def Env.get (e : Env) (k : Str) : Option Val :=
  match lookupAssoc e.own k with
  | some v => some v
  | none => lookupAssoc e.root k

def setVar (k : Str) (v : Val) : RM Unit := modEnv (fun e => { e with own := (k, v) :: e.own.filter (·.1 != k) })
def delVar (k : Str) : RM Unit := modEnv (fun e => { e with own := e.own.filter (·.1 != k) })
def setGlobal (k : Str) (v : Val) : RM Unit :=
  modEnv (fun e => { e with rcontext := (k, v) :: e.rcontext.filter (·.1 != k) })

def isSubclass (cfg : ECfg) (cls : String) (of_ : List String) : Bool :=
  match cfg.excParents.find? (·.1 == cls) with
  | some (_, mro) => mro.any (fun c => of_.contains c)
  | none => of_.contains cls

/-- run an `EM` computation of the Python-subset evaluator: only the recorder log changes -/
def runEM {α} (m : EM α) : XM α := fun x =>
  match m { log := x.log } with
  | (.ok a, es) => .ok a { x with log := es.log }
  | (.raised e, es) => .raised e { x with log := es.log }
  | (.unsupported w, _) => .unsupported w

/-- the macros of template `tid` -/
def ECfg.macrosOf (cfg : ECfg) (tid : Nat) : List (Str × Node) :=
  if tid == 0 then cfg.macros else ((cfg.libs[tid - 1]?).map (·.macros)).getD []

/-- the render function `Macros.__getitem__` / `template.include` gives: a macro's body, or the whole template -/
def ECfg.macroBody (cfg : ECfg) (tid : Nat) (name : Option Str) : Option Node :=
  match name with
  | some n => lookupAssoc (cfg.macrosOf tid) n
  | none => if tid == 0 then some cfg.body else (cfg.libs[tid - 1]?).map (·.body)

/-- the template a token position belongs to, and the position inside it -/
def ECfg.locate (cfg : ECfg) (pos : Nat) : Str × Nat :=
  match cfg.libs.find? (fun l => l.base ≤ pos && pos < l.base + l.src.length + 1) with
  | some l => (l.src, pos - l.base)
  | none => (cfg.src, pos)

def mkECtx (cfg : ECfg) (al : List (Str × Val)) (e : Env) : ECtx :=
  { tab := cfg.tab, vars := e.own ++ e.root, aliases := al, repeats := e.repeats, pyBuiltins := cfg.pyBuiltins,
    tid := (e.frames.headD {}).tid,
    macroTable := (0, cfg.macros.map (·.1)) :: cfg.libs.zipIdx.map (fun (l, i) => (i + 1, l.macros.map (·.1))) }

/-- value classes of `__quote` / `__convert` -/
def toQIn (cfg : ECfg) (v : Val) : R QIn :=
  match v with
  | .none => pure .none
  | .dflt => pure .marker
  | .bytes b => pure (.bytes b)
  | .str s => pure (.str s)
  | .int i => pure (.num (intToStr i))
  | .markup m => pure (.html m)
  | .obj id => match cfg.tab[id]? with
    | some o => match o.html with
      | some h => pure (.html h)
      | none => pure (.other o.strForm o.translation)
    | none => .unsupported "unknown object"
  | .bool _ | .cint _ | .cstr _ | .list _ | .tuple _ | .dict _ | .excClass _ | .excValue _ _ => do
    let s ← Val.strOf cfg.tab v
    pure (.other s none)
  | _ => .unsupported "conversion of this value to text"

def escQ : Esc → Option (Option Nat × Str)
  | .none => none
  | .text => some (Site.text.q, Site.text.qe)
  | .dq => some (Site.dq.q, Site.dq.qe)
  | .sq => some (Site.sq.q, Site.sq.qe)
  | .emptyQ => none

/-- `_convert_text(target, char_escape)`: `__quote` for an escaping class, `emit_convert` otherwise;
the result is `none` (Python `None`), or text -/
def convertText (cfg : ECfg) (esc : Esc) (dflt : Option Str) (v : Val) : R (Option Str) := do
  if esc == .emptyQ then .unsupported "dynamic value for an unquoted/valueless static attribute (D-07b)" else
  let q ← toQIn cfg v
  match escQ esc with
  | some (qc, qe) => pure (quoteVal qc qe dflt q)
  | none => match q with
    | .marker => pure dflt
    | _ => pure (convertVal q)

/-- the conversion `assign_text` appends to one `${…}` part: with `literal_false = False` (boolean attributes) a false
value becomes `None` before any conversion -/
def convPart (cfg : ECfg) (esc : Esc) (dflt : Option Str) (lf : Bool) (v : Val) : R (Option Str) := do
  if lf then convertText cfg esc dflt v
  else
    let b ← Val.truthy cfg.tab v
    if b then convertText cfg esc dflt v else pure none

/-- `simple_translate(msgid, mapping=…, default=…)` for str msgids: `${name}` / `$name` interpolation -/
def simpleTranslate (rx : Rx) (msgid : Str) (mapping : Option (List (Str × Str))) (dflt : Option Str) : Str :=
  let d := dflt.getD msgid
  match mapping with
  | none => d
  | some [] => d
  | some m =>
    let ms := finditer Gen.uni d.toArray rx.i18nInterp
    let rec go (pos : Nat) (ms : List (Nat × St)) (acc : Str) : Str :=
      match ms with
      | [] => acc ++ d.drop pos
      | (st, mt) :: rest =>
        let g (i : Nat) : Option Str := match mt.caps.find? (·.1 == i) with
          | some (_, x, y) => some ((d.drop x).take (y - x)) | none => none
        let whole := (d.drop st).take (mt.pos - st)
        let key := match g 2 with | some k => k | none => (g 3).getD []
        let rep := (lookupAssoc m key).getD whole
        go mt.pos rest (acc ++ (d.drop pos).take (st - pos) ++ rep)
    go 0 ms []

/-- the `translate(...)` call of the generated code, with the frame's i18n triple -/
def callTranslate (cfg : ECfg) (env : Env) (msgid : Str) (mapping : Option (List (Str × Str))) (dflt : Option Str) : XM Str :=
  fun x =>
    let fr := env.topFrame
    let tgt : Option Str := match fr.targetLang with | .str t => some t | _ => none
    let call : TCall := { msgid := msgid, mapping := mapping, dflt := dflt, domain := fr.domain, context := fr.context, target := tgt }
    .ok (simpleTranslate cfg.tc.rx msgid mapping dflt) { x with tlog := x.tlog.push call }

/-- the call an insertion of a value with string form `s` makes in frame `fr` -/
def offerOf (fr : Frame) (s : Str) : TCall :=
  { msgid := s, mapping := none, dflt := none, domain := fr.domain, context := fr.context,
    target := (match fr.targetLang with | .str t => some t | _ => none), offered := true }

/-- `__convert` / `__quote` on a value that is not `None`, bytes, a `str`, an `int`/`float` or an object with `__html__`:
`translate(target, domain=…, context=…, target_language=…)` is called before the value is converted to text -/
def offerCall (cfg : ECfg) (env : Env) (v : Val) : XM Unit :=
  fun x =>
    match toQIn cfg v with
    | .ok (.other s _) => .ok () { x with tlog := x.tlog.push (offerOf env.topFrame s) }
    | _ => .ok () x

/-- `convertText` with the offer logged -/
def convertTextX (cfg : ECfg) (env : Env) (esc : Esc) (dflt : Option Str) (v : Val) : XM (Option Str) := do
  if esc == .emptyQ then xUnsupported "dynamic value for an unquoted/valueless static attribute (D-07b)" else
  offerCall cfg env v
  xLiftR (convertText cfg esc dflt v)

/-- `convPart` with the offer logged: a false value under `literal_false = False` is not converted, hence not offered -/
def convPartX (cfg : ECfg) (env : Env) (esc : Esc) (dflt : Option Str) (lf : Bool) (v : Val) : XM (Option Str) := do
  if lf then convertTextX cfg env esc dflt v
  else
    let b ← xLiftR (Val.truthy cfg.tab v)
    if b then convertTextX cfg env esc dflt v else pure none

mutual
/-- evaluate a compiled TALES expression to an object -/
def evalT (cfg : ECfg) (al : List (Str × Val)) (env : Env) : Nat → TExpr → Esc → Option Str → XM Val
  | 0, _, _, _ => xUnsupported "expression nesting too deep"
  | f+1, e, esc, dflt =>
    match e with
    | .unsupported w => xUnsupported w
    | .py alts => evalAlts cfg al env f alts esc dflt
    | .not_ e tok => do
      xSetToken tok
      let v ← evalT cfg al env f e esc dflt
      let b ← xLiftR (Val.truthy cfg.tab v)
      pure (.bool (!b))
    | .exists_ e => fun x =>
      match evalT cfg al env f e esc dflt x with
      | .ok _ x' => .ok (.int 1) x'
      | .raised ex x' => if isSubclass cfg ex.cls cfg.existsExc then .ok (.int 0) x' else .raised ex x'
      | .unsupported w => .unsupported w
    | .structure_ e tok => do
      xSetToken tok
      let v ← evalT cfg al env f e esc dflt
      match v with
      | .none => pure (.markup (lit "None"))
      | _ => do let s ← xLiftR (Val.strOf cfg.tab v); pure (.markup s)
    | .str parts => do
      let r ← evalParts cfg al env f parts esc dflt true
      match r with
      | some s => pure (.str s)
      | none => pure .none
def evalAlts (cfg : ECfg) (al : List (Str × Val)) (env : Env) : Nat → List PyAlt → Esc → Option Str → XM Val
  | 0, _, _, _ => xUnsupported "expression nesting too deep"
  | _, [], _, _ => xUnsupported "empty expression"
  | f+1, a :: rest, esc, dflt => fun x =>
    let r : XRes Val := match a with
      | .expr e => runEM (evalP (mkECtx cfg al env) 200 e) x
      | .nested e tok => (do xSetToken tok; evalT cfg al env f e esc dflt) x
    match r with
    | .ok v x' => .ok v x'
    | .unsupported w => .unsupported w
    | .raised ex x' =>
      if rest.isEmpty then .raised ex x'
      else if isSubclass cfg ex.cls cfg.talesExc then evalAlts cfg al env f rest esc dflt x'
      else .raised ex x'
/-- the Interpolator's result: `none` = Python `None` (single part evaluating to nothing) -/
def evalParts (cfg : ECfg) (al : List (Str × Val)) (env : Env) : Nat → List IPart → Esc → Option Str → Bool → XM (Option Str)
  | 0, _, _, _, _ => xUnsupported "expression nesting too deep"
  | f+1, parts, esc, dflt, lf =>
    match parts with
    | [.lit s] => pure (some s)
    | [.expr e tok _] => do
      xSetToken tok
      let v ← evalT cfg al env f e esc dflt
      convPartX cfg env esc dflt lf v
    | _ => do
      let rs ← partsText cfg al env f parts esc dflt lf
      pure (some rs)
def partsText (cfg : ECfg) (al : List (Str × Val)) (env : Env) : Nat → List IPart → Esc → Option Str → Bool → XM Str
  | 0, _, _, _, _ => xUnsupported "expression nesting too deep"
  | _, [], _, _, _ => pure []
  | f+1, p :: rest, esc, dflt, lf => do
    let a ← match p with
      | .lit s => pure s
      | .expr e tok _ => do
        xSetToken tok
        let v ← evalT cfg al env f e esc dflt
        let t ← convPartX cfg env esc dflt lf v
        pure (t.getD [])
    let b ← partsText cfg al env f rest esc dflt lf
    pure (a ++ b)
end

/-- compile (at evaluation time) the expression held in a token; in non-strict mode an invalid
expression raises its `ExpressionError` here, i.e. exactly when it is reached -/
def compileAt (cfg : ECfg) (tok : Tok) : XM TExpr := do
  match compileTales cfg.tc 64 tok with
  | .ok e => pure e
  | .error (.template cls msg etok) =>
    -- TokenRef(exc.token); raise exc
    xSetTokenRaw etok.pos etok.str.length
    xRaise { cls := cls, msg := Str.ofString msg }
  | .error (.templateNoSrc cls _ _) => xUnsupported ("compile error " ++ cls)
  | .error (.crash cls) => xUnsupported ("compile crash " ++ cls)

def evalValue (cfg : ECfg) (al : List (Str × Val)) (env : Env) (tok : Tok) (esc : Esc) (dflt : Option Str) : XM Val := do
  let e ← compileAt cfg tok
  xSetToken tok
  evalT cfg al env 64 e esc dflt

/-- `RE_NAME`: `^[a-zA-Z_][-a-zA-Z0-9_]*$` (Python's `$` also matches before one trailing newline) -/
def isSimpleName (s : Str) : Bool :=
  let s := if s.getLast? == some 10 then s.dropLast else s
  match s with
  | [] => false
  | c :: rest =>
    ((65 ≤ c && c ≤ 90) || (97 ≤ c && c ≤ 122) || c == 95) &&
    rest.all (fun c => (65 ≤ c && c ≤ 90) || (97 ≤ c && c ≤ 122) || (48 ≤ c && c ≤ 57) || c == 95 || c == 45)

/-- implicit translation of an interpolated text whose expressions are all simple names: the message id is the text
with `${name}` placeholders, the mapping holds the converted values (`Interpolator.__call__`, `translate` branch) -/
def evalPartsTranslated (cfg : ECfg) (al : List (Str × Val)) (env : Env) : List IPart → Esc → Option Str → Bool → XM (Str × List (Str × Str))
  | [], _, _, _ => pure ([], [])
  | p :: rest, esc, dflt, lf => do
    let (a, m) ← match p with
      | .lit s => pure (s, ([] : List (Str × Str)))
      | .expr e tok text => do
        xSetToken tok
        let v ← evalT cfg al env 64 e esc dflt
        let t ← convPartX cfg env esc dflt lf v
        -- a value of `None` stays in the mapping; the translation function sees `str(None)`
        pure (lit "${" ++ text ++ lit "}", [(text, t.getD (lit "None"))])
    let (b, m') ← evalPartsTranslated cfg al env rest esc dflt lf
    pure (a ++ b, m ++ m')

/-- a dictionary display with repeated keys keeps the first position and the last value -/
def dedupMapping (m : List (Str × Str)) : List (Str × Str) :=
  m.foldl (fun acc (k, v) => if acc.any (·.1 == k) then acc.map (fun (k', v') => if k' == k then (k', v) else (k', v')) else acc ++ [(k, v)]) []

def getCached (env : Env) (id : Nat) : XM Val :=
  match env.topFrame.cache.find? (·.1 == id) with
  | some (_, v) => pure v
  | none => xUnsupported "read of a cache variable that this activation has not assigned"

/-- the statements `assign_text` appends after the evaluation -/
def substTail (cfg : ECfg) (env : Env) (esc : Esc) (dflt : Option Str) (literalFalse : Bool) (v : Val) : XM Val := do
  if !literalFalse then
    let b ← xLiftR (Val.truthy cfg.tab v)
    if !b then pure .none else do
      let t ← convertTextX cfg env esc dflt v
      pure (match t with | some s => .str s | none => .none)
  else do
    let t ← convertTextX cfg env esc dflt v
    pure (match t with | some s => .str s | none => .none)

/-- evaluate an expression node to an object (`ExpressionTransform`) -/
def evalEN (cfg : ECfg) (al : List (Str × Val)) (env : Env) : Nat → EN → XM Val
  | 0, _ => xUnsupported "expression node nesting"
  | f+1, e =>
    match e with
    | .const s => pure (.str s)
    | .value tok => evalValue cfg al env tok .none none
    | .valueD tok d => evalValue cfg al env tok .none d
    | .ref id => getCached env id
    | .marker => pure .dflt
    | .cancelMarker => pure (.excClass "<CANCEL>")
    | .staticDict kvs => pure (.dict (kvs.map (fun (k, v) => (Val.str k, Val.str v))))
    | .pyName n => runEM (resolveName (mkECtx cfg al env) n)
    | .negate e => do
      let v ← evalEN cfg al env f e
      let b ← xLiftR (Val.truthy cfg.tab v)
      pure (.bool (!b))
    | .binop l op r => do
      let x ← evalEN cfg al env f l
      let y ← evalEN cfg al env f r
      match op with
      | .is_ => do
        match x, y with
        | .excClass a, .excClass b => pure (.bool (a == b))
        | .excClass _, _ | _, .excClass _ => pure (.bool false)
        | _, _ => do let b ← xLiftR (Val.pyIs x y); pure (.bool b)
      | .isNot => do
        match x, y with
        | .excClass a, .excClass b => pure (.bool (a != b))
        | .excClass _, _ | _, .excClass _ => pure (.bool true)
        | _, _ => do let b ← xLiftR (Val.pyIs x y); pure (.bool (!b))
      | .equals => do
        match x, y with
        | .excClass _, _ | _, .excClass _ => xUnsupported "comparison with the cancel marker"
        | _, _ => do let b ← xLiftR (Val.pyEq x y); pure (.bool b)
    | .subst tok esc dflt literalFalse => do
      -- the engine of a Substitution is created without char_escape: nested `string:` parts are
      -- converted unescaped, only the outer `assign_text` escapes
      let v ← evalValue cfg al env tok .none dflt
      substTail cfg env esc dflt literalFalse v
    | .boolean tok s dflt => do
      let v ← evalValue cfg al env tok .none dflt
      match v with
      | .dflt => pure (match dflt with | some d => .str d | none => .none)
      | _ => do
        let b ← xLiftR (Val.truthy cfg.tab v)
        pure (if b then .str s else .none)
    | .interp tok esc dflt literalFalse required translation => do
      match compileInterp cfg.tc 64 tok required cfg.tc.decodeInterp with
      | .error (.template cls msg etok) => do
        xSetTokenRaw etok.pos etok.str.length
        xRaise { cls := cls, msg := Str.ofString msg }
      | .error (.templateNoSrc cls _ _) => xUnsupported ("compile error " ++ cls)
      | .error (.crash cls) => xUnsupported ("compile crash " ++ cls)
      | .ok parts => do
        xSetToken tok
        -- implicit translation: only when every `${…}` is a simple name (a lone expression is never translated)
        let allNames := parts.all (fun p => match p with | .lit _ => true | .expr _ _ text => isSimpleName text)
        -- an empty `${}` is a literal part in the model but an expression for the real Interpolator
        if translation && parts.any (fun p => match p with | .lit s => (List.range (s.length + 1)).any (fun i => (lit "${}").isPrefixOf (s.drop i)) | _ => false) then
          xUnsupported "implicit translation of a text with an empty ${}" else
        let r : Option Str ← (match translation && allNames, parts with
          | true, [.lit s] => do
            let t ← callTranslate cfg env s none none
            pure (some t)
          | true, _ :: _ :: _ => do
            let (msgid, mapping) ← evalPartsTranslated cfg al env parts esc dflt literalFalse
            let t ← callTranslate cfg env msgid (some (dedupMapping mapping)) none
            pure (some t)
          | _, _ => evalParts cfg al env 64 parts esc dflt literalFalse)
        let v : Val := match r with | some s => .str s | none => .none
        -- emit_convert on the joined result is the identity on str / None
        if literalFalse then pure v else do
          let b ← xLiftR (Val.truthy cfg.tab v)
          pure (if b then v else .none)
    | .replace e s => do
      let v ← evalEN cfg al env f e
      let b ← xLiftR (Val.truthy cfg.tab v)
      pure (if b then .str s else v)
    | .translate msgid e => do
      let v ← evalEN cfg al env f e
      match v with
      | .str t =>
        let r ← callTranslate cfg env (msgid.getD t) none (some t)
        pure (.str r)
      | .none =>
        match msgid with
        | some m => do let r ← callTranslate cfg env m none none; pure (.str r)
        | none => xUnsupported "translate(None)"
      | _ => xUnsupported "translation of a non-text attribute value"

/-- `Compiler.visit_Condition`: And/Or chains test `is True` / `is False` on the last result -/
def evalCond (cfg : ECfg) (al : List (Str × Val)) (env : Env) : Nat → CondE → XM Val
  | 0, _ => xUnsupported "condition nesting"
  | f+1, c =>
    match c with
    | .e x => evalEN cfg al env 64 x
    | .and_ xs => chain cfg al env f xs true
    | .or_ xs => chain cfg al env f xs false
where
  chain (cfg : ECfg) (al : List (Str × Val)) (env : Env) : Nat → List CondE → Bool → XM Val
    | _, [], _ => pure .none
    | f, [x] , _ => evalCond cfg al env f x
    | f, x :: rest, isAnd => do
      let v ← evalCond cfg al env f x
      match v with
      | .bool b => if b == isAnd then chain cfg al env f rest isAnd else pure v
      | _ => pure v

def pushStream : RM Unit := mModify (fun s => { s with streams := [] :: s.streams })
def popStream : RM Str := fun s => match s.streams with
  | top :: rest => .ok top { s with streams := rest }
  | [] => .ok [] s

def collapseWsStr (s : Str) : Str :=
  let rec go : Nat → Str → Bool → Str
    | 0, _, _ => []
    | _, [], _ => []
    | f+1, ch :: r, inWs =>
      if Tok.isWs ch then (if inWs then go f r true else 32 :: go f r true) else ch :: go f r false
  go (s.length + 1) s false

def stripStr (s : Str) : Str := ((s.dropWhile Tok.isWs).reverse.dropWhile Tok.isWs).reverse

def compilerDisallowed : List String := Gen.compilerInternals

/-- expression-level helpers lifted to the node level -/
def enVal (cfg : ECfg) (al : List (Str × Val)) (e : EN) : RM Val := liftX (fun env => evalEN cfg al env 64 e)
def vTruthy (cfg : ECfg) (v : Val) : RM Bool := mLiftR (Val.truthy cfg.tab v)

def restore (bk : List (Str × Option Val)) : RM Unit :=
  bk.forM (fun (k, v) => match v with | some x => setVar k x | none => delVar k)

/-- `NAME not in __chain(*filter values)`: lazily iterates each cached dictionary-expression value -/
def attrFiltered (name : Str) (filters : List Nat) : RM Bool := do
  let s ← mGet
  let fr := s.env.topFrame
  let rec go : List Nat → RM Bool
    | [] => pure false
    | id :: rest =>
      match fr.cache.find? (·.1 == id) with
      | some (_, .dict kvs) => if kvs.any (fun kv => kv.1 == Val.str name) then pure true else go rest
      | some (_, .list vs) | some (_, .tuple vs) => if vs.any (fun v => v == Val.str name) then pure true else go rest
      | some (_, .none) | some (_, .bool _) | some (_, .int _) => mRaise { cls := "TypeError", msg := [] }
      | some _ => mUnsupported "membership test on this filter value"
      | none => mUnsupported "filter expression not cached"
  go filters

/-- the `except Exception` branch of `visit_OnError`: bind `error`, call the handler, cut the stream
back to the saved length (dropping any translation sub-streams opened since), leave the fallback to run -/
def onErrorHandle (cfg : ECfg) (key depth savedLen : Nat) (ex : Exc) (s' : RState) : Option RState :=
  -- `__tokens[__token][1:3] if __token is not None else (None, None)`: no position is known when the exception comes
  -- out of an internal macro or a slot filler (before the D-13c fix the handler raised KeyError(None) then)
  let pos : Option (Nat × Nat) := s'.x.token.map (fun t => let (src, p) := cfg.locate t.1; Tok.location src { str := [], pos := p })
  -- the saved length lives in a Python local: one per on-error node, or (quirk D-13a) one per function
  let cut := if cfg.tc.q.sharedFallbackVar then ((s'.env.topFrame.saved.find? (·.1 == key)).map (·.2)).getD savedLen
             else savedLen
  let streams0 := s'.streams.drop (s'.streams.length - depth)
  let streams1 := match streams0 with | top :: rest => top.take cut :: rest | [] => []
  let env' : Env := { s'.env with own := (lit "error", Val.errorInfo ex.cls ex.msg pos) :: s'.env.own.filter (·.1 != lit "error") }
  some { s' with streams := streams1, handled := s'.handled + 1, env := env' }

/-- `mangle(name)`: every non-word character becomes `_` (ASCII names) -/
def mangleName (s : Str) : Str :=
  s.map (fun c => if (48 ≤ c && c ≤ 57) || (65 ≤ c && c ≤ 90) || (97 ≤ c && c ≤ 122) || c == 95 || c ≥ 128 then c else 95)

def slotKey (name : Str) : Str := lit "__slot_" ++ mangleName name

/-- the slot names a macro function resolves at its start (`Compiler._slots`): every `metal:define-slot` of its body,
those inside the fillers of nested `use-macro`s included (they are compiled as nested functions of this one) -/
def definedSlots : Nat → Node → List Str
  | 0, _ => []
  | f+1, n =>
    match n with
    | .seq ns => ns.flatMap (definedSlots f)
    | .element st en ct => definedSlots f st ++ definedSlots f ct ++ (match en with | some e => definedSlots f e | none => [])
    | .start _ _ _ attrs => definedSlots f attrs
    | .condition _ node orelse => definedSlots f node ++ (match orelse with | some o => definedSlots f o | none => [])
    | .cache _ node | .cancel _ node | .define _ node | .repeat_ _ _ _ _ _ node => definedSlots f node
    | .onError _ fallback node => definedSlots f fallback ++ definedSlots f node
    | .translate _ _ node | .name _ node => definedSlots f node
    | .domain _ node | .txContext _ node | .target _ node => definedSlots f node
    | .defineSlot nm node => mangleName nm.str :: definedSlots f node
    | .useExternal _ slots _ => slots.flatMap (fun (_, sn) => definedSlots f sn)
    | _ => []

def heapGet (h : List (Nat × List Nat)) (id : Nat) : List Nat := ((h.find? (·.1 == id)).map (·.2)).getD []
def heapSet (h : List (Nat × List Nat)) (id : Nat) (v : List Nat) : List (Nat × List Nat) := (id, v) :: h.filter (·.1 != id)

/-- `econtext.update(rcontext)` -/
def updateOwn (own rc : List (Str × Val)) : List (Str × Val) :=
  rc.foldr (fun (k, v) acc => (k, v) :: acc.filter (·.1 != k)) own

def Env.rootDict (e : Env) : List (Str × Val) := if e.hasRoot then e.root else e.own

/-- the slot resolution at the start of a macro function: `try: NAME = econtext[KEY].pop() except: NAME = None` -/
def resolveSlots (env : Env) (heap : List (Nat × List Nat)) (names : List Str) :
    List (Nat × List Nat) × List (Str × Option Nat) :=
  names.foldl (fun (acc : List (Nat × List Nat) × List (Str × Option Nat)) nm =>
    match env.get (lit "__slot_" ++ nm) with
    | some (.slots did) =>
      let ids := heapGet acc.1 did
      match ids.getLast? with
      | some cid => (heapSet acc.1 did ids.dropLast, acc.2 ++ [(nm, some cid)])
      | none => (acc.1, acc.2 ++ [(nm, none)])
    | _ => (acc.1, acc.2 ++ [(nm, none)])) (heap, [])

/-- the state in which a macro function starts: a copy of the caller's scope, a fresh frame with the i18n settings
passed as arguments, `__token = None`, slots resolved -/
def macroEnter (tid : Nat) (body : Node) (s : RState) : RState :=
  let names := (definedSlots 64 body).eraseDups
  let callee : Env := { s.env with root := s.env.rootDict, hasRoot := true }
  let (heap', slotFns) := resolveSlots callee s.heap names
  let fr : Frame := { domain := s.env.topFrame.domain, context := s.env.topFrame.context,
                      targetLang := s.env.topFrame.targetLang, slotFns := slotFns, tid := tid }
  { s with heap := heap', env := { callee with frames := fr :: s.env.frames }, x := { s.x with token := none } }

/-- back in the caller after a macro function returned: the callee's scope is gone, `rcontext` (and the repeat
dictionary) are shared objects, `econtext.update(rcontext)` -/
def macroLeave (s s' : RState) : RState :=
  { s' with env := { s.env with rcontext := s'.env.rcontext, repeats := s'.env.repeats,
                                 own := updateOwn s.env.own s'.env.rcontext },
            x := { s'.x with token := s.x.token } }

/-- … after it raised: its handler records `__tokens[__token]` (when a token is set) and re-raises; no update -/
def macroRaise (s s' : RState) : RState :=
  { s' with env := { s.env with rcontext := s'.env.rcontext, repeats := s'.env.repeats },
            x := { s'.x with token := s.x.token },
            errs := match s'.x.token with | some t => s'.errs.push t | none => s'.errs }

/-- the state in which a slot filler runs: `SLOT(__stream, econtext.copy(), rcontext)` with the i18n settings, cached
values and slot variables of the place where it was written -/
def fillerEnter (cl : Closure) (s : RState) : RState :=
  let fr : Frame := { cache := cl.cache, domain := cl.domain, context := cl.context, targetLang := cl.targetLang,
                      slotFns := cl.slotFns, tid := cl.tid }
  { s with env := { s.env with root := s.env.rootDict, hasRoot := true, frames := fr :: s.env.frames },
           x := { s.x with token := none } }

/-- back in the macro: the filler's scope is gone, its `__token` was its own local variable (the macro set its own to
`None` before the call, after the D-12d fix); the macro's scope is updated with the global definitions
(`econtext.update(rcontext)`, after the D-09c fix) -/
def fillerLeave (s s' : RState) : RState :=
  { s' with env := { s.env with rcontext := s'.env.rcontext, repeats := s'.env.repeats,
                                 own := updateOwn s.env.own s'.env.rcontext },
            x := { s'.x with token := none } }

/-- … after the filler raised: its handler records `__tokens[__token]` (when a token is set) and re-raises (after the
D-12d fix: before it the filler had no handler and the macro recorded its own last expression); no update -/
def fillerRaise (s s' : RState) : RState :=
  { s' with env := { s.env with rcontext := s'.env.rcontext, repeats := s'.env.repeats },
            x := { s'.x with token := none },
            errs := match s'.x.token with | some t => s'.errs.push t | none => s'.errs }

/-- the `i18n:name`s a translation collects at compile time (`Compiler._translations[-1]`): those of its body that
are not inside a nested translation, in the order the compiler visits them -/
def namesOf : Nat → Node → List Str
  | 0, _ => []
  | f+1, n =>
    match n with
    | .seq ns => ns.flatMap (namesOf f)
    | .element st en ct => namesOf f st ++ namesOf f ct ++ (match en with | some e => namesOf f e | none => [])
    | .start _ _ _ attrs => namesOf f attrs
    | .condition _ node orelse => namesOf f node ++ (match orelse with | some o => namesOf f o | none => [])
    | .cache _ node | .cancel _ node | .define _ node | .repeat_ _ _ _ _ _ node => namesOf f node
    | .onError _ fallback node => namesOf f fallback ++ namesOf f node
    | .name nm node => nm.str :: namesOf f node
    | .domain _ node | .txContext _ node | .target _ node | .defineSlot _ node => namesOf f node
    | .useExternal _ slots _ => slots.flatMap (fun (_, sn) => namesOf f sn)
    | _ => []

def setTName (n : Str) (v : Str) : RM Unit := mModify (fun s => match s.tmaps with
  | top :: rest => { s with tmaps := (top.map (fun (k, x) => if k == n then (k, v) else (k, x))) :: rest }
  | [] => s)

mutual
def eval (cfg : ECfg) (al : List (Str × Val)) : Nat → Node → RM Unit
  | 0, _ => mUnsupported "out of fuel"
  | f+1, n =>
    match n with
    | .text s => emit s
    | .seq ns => evalList cfg al f ns
    | .element st en ct => do
      eval cfg al f st
      eval cfg al f ct
      match en with
      | some e => eval cfg al f e
      | none => pure ()
    | .start name pfx suffix attrs => do
      emit (pfx ++ name)
      eval cfg al f attrs
      match suffix with
      | some s => emit s
      | none => mRaise { cls := "TypeError", msg := [] }
    | .end_ name space pfx suffix =>
      emit (pfx ++ name ++ (if cfg.tc.q.endTagSpaceTwice then (space.getD []) else []) ++ suffix.getD [])
    | .attribute name e quote eq space _dflt filters =>
      match e with
      | .const s => do
        let skip ← attrFiltered name filters
        if skip then pure () else emit (space ++ name ++ eq ++ quote ++ s ++ quote)
      | _ => do
        let v ← enVal cfg al e
        match v with
        | .none => pure ()
        | .str t => do
          let skip ← attrFiltered name filters
          if skip then pure () else emit (space ++ name ++ eq ++ quote ++ t ++ quote)
        | _ => mUnsupported "non-text attribute value"
    | .dictAttrs id e exclude => do
      let s0 ← mGet
      let d ← (match s0.env.topFrame.cache.find? (·.1 == id) with
        | some (_, v) => pure v
        | none => enVal cfg al e)
      match d with
      | .dict kvs =>
        kvs.forM (fun (k, v) => do
          match k with
          | .str name => do
            let (skip, v') ← (if cfg.booleanAttrs.contains name then do
                let b ← vTruthy cfg v
                pure (!b, if b then Val.str name else v)
              else pure (false, v))
            if skip then pure ()
            else if exclude.contains name then pure ()
            else match v' with
              | .none => pure ()
              | _ => do
                let t ← liftX (fun env => convertTextX cfg env .dq none v')
                match t with
                | some s => emit ([32] ++ name ++ [61, 34] ++ s ++ [34])
                | none => mRaise { cls := "TypeError", msg := [] }
          | _ => mUnsupported "non-str attribute key")
      | .none => mRaise { cls := "AttributeError", msg := lit "'NoneType' object has no attribute 'items'" }
      | _ => mUnsupported "attribute dictionary of this class"
    | .content e esc translate => do
      let v0 ← enVal cfg al e
      -- `__content = translate(__content, default=None, domain=…, context=…, target_language=…)`
      let v ← (if translate then
          match v0 with
          | .str s => do
            let r ← liftX (fun env => callTranslate cfg env s none none)
            pure (Val.str r)
          | .dflt | .markup _ => mUnsupported "tal:content with i18n:translate=\"\" of the default marker / markup"
          | .obj id =>
            -- the value itself is the message id (the recorder logs its string form); the simple translation function
            -- gives the value back, which is then inserted like any other value (and, not being text, offered again)
            match cfg.tab[id]? with
            | some o =>
              if o.translation.isSome then mUnsupported "tal:content with i18n:translate=\"\" of an object with a translation of its own"
              else do
                liftX (fun env x => .ok () { x with tlog := x.tlog.push (offerOf env.topFrame o.strForm) })
                pure v0
            | none => mUnsupported "unknown object"
          | _ => do
            let s ← mLiftR (Val.strOf cfg.tab v0)
            liftX (fun env x => .ok () { x with tlog := x.tlog.push (offerOf env.topFrame s) })
            pure v0
        else pure v0)
      liftX (fun env => offerCall cfg env v)
      let q ← mLiftR (toQIn cfg v)
      let t := if esc then quoteVal Site.content.q Site.content.qe none q else convertVal q
      match t with
      | some s => emit s
      | none => pure ()
    | .interpolation e => do
      let v ← enVal cfg al e
      match v with
      | .str s => emit s
      | .none => pure ()
      | _ => mUnsupported "interpolation result"
    | .condition c node orelse => do
      let v ← liftX (fun env => evalCond cfg al env 16 c)
      let b ← vTruthy cfg v
      if b then eval cfg al f node
      else match orelse with
        | some o => eval cfg al f o
        | none => pure ()
    | .cache es node => do
      es.forM (fun (id, e) => do
        let v ← enVal cfg al e
        modFrame (fun fr => { fr with cache := (id, v) :: fr.cache.filter (·.1 != id) }))
      eval cfg al f node
    | .cancel ids node => do
      ids.forM (fun id => modFrame (fun fr => { fr with cache := (id, Val.excClass "<CANCEL>") :: fr.cache.filter (·.1 != id) }))
      eval cfg al f node
    | .define assigns node => evalDefine cfg al f assigns node []
    | .repeat_ _id names e local_ ws node => do
      -- (local) backups are taken before the iterable is evaluated
      let s0 ← mGet
      let backups : List (Str × Option Val) := if local_ then names.map (fun nm => (nm.str, s0.env.get nm.str)) else []
      let it ← enVal cfg al e
      (match s0.env.get (lit "repeat") with
        | some .repeatDict => pure ()
        | _ => mUnsupported "`repeat` rebound by the template (D-05e)")
      let items : List Val ← match it with
        | .list vs | .tuple vs => pure vs
        | .none => pure []
        | .str s => pure (s.map (fun ch => Val.str [ch]))
        | .dict kvs => pure (kvs.map (·.1))
        | _ => mUnsupported "iterable class"
      -- the RepeatDict key is the name, or the tuple of names (not reachable by a template expression)
      let key : Str := match names with
        | [nm] => nm.str
        | _ => (names.map (fun nm => nm.str ++ [44])).flatten
      -- the RepeatItem is a new object; the loop keeps advancing *its* iterator even when an inner loop of the same
      -- name has put another item under `repeat[name]` meanwhile (D-08a)
      let s1 ← mGet
      let tag : Str := key ++ [0] ++ natToStr (s1.loops + 1)
      mModify (fun s => { s with loops := s.loops + 1 })
      modEnv (fun e => { e with repeats := (key, { length := items.length, consumed := 0, tag := tag }) :: e.repeats.filter (·.1 != key) })
      names.forM (fun nm => setVar nm.str .none)
      evalRepeat cfg al f tag names local_ ws node items items.length
      -- `if local: outer += self._leave_assignment(names)`
      if local_ then restore backups else pure ()
    | .onError id fallback node => fun s =>
      let key := if cfg.tc.q.sharedFallbackVar then 0 else id
      let savedLen := (s.streams.headD []).length
      let depth := s.streams.length
      let s1 : RState := { s with env := match s.env.frames with
        | fr :: rest => { s.env with frames := { fr with saved := (key, savedLen) :: fr.saved.filter (·.1 != key) } :: rest }
        | [] => s.env }
      match eval cfg al f node s1 with
      | .ok () s' => .ok () s'
      | .unsupported w => .unsupported w
      | .raised ex s' =>
        if !isSubclass cfg ex.cls ["Exception"] then .raised ex s'
        else match onErrorHandle cfg key depth savedLen ex s' with
          | none => .unsupported "unreachable: the handler always runs"
          -- the records of the handled failure are dropped (after the D-12b fix)
          | some s2 => eval cfg al f fallback { s2 with tmaps := s2.tmaps.drop (s2.tmaps.length - s.tmaps.length),
                                                        errs := s2.errs.extract 0 s.errs.size }
    | .translate _ msgid node => do
      let names := (namesOf 64 node).eraseDups
      mModify (fun s => { s with tmaps := names.map (fun n => (n, [])) :: s.tmaps })
      pushStream
      eval cfg al f node
      let body ← popStream
      let s ← mGet
      let tmap := s.tmaps.headD []
      mModify (fun s => { s with tmaps := s.tmaps.drop 1 })
      let mapping : Option (List (Str × Str)) := if names.isEmpty then none else some tmap
      let computed := stripStr (collapseWsStr body)
      match msgid with
      | some m => do
        let r ← liftX (fun env => callTranslate cfg env m mapping (some computed))
        emit r
      | none =>
        if computed.isEmpty then pure () else do
          let r ← liftX (fun env => callTranslate cfg env computed mapping (some computed))
          emit r
    | .domain d node => do
      let s ← mGet
      let old := s.env.topFrame.domain
      modFrame (fun fr => { fr with domain := some d })
      eval cfg al f node
      modFrame (fun fr => { fr with domain := old })
    | .txContext c node => do
      let s ← mGet
      let old := s.env.topFrame.context
      modFrame (fun fr => { fr with context := some c })
      eval cfg al f node
      modFrame (fun fr => { fr with context := old })
    | .target e node => do
      let s ← mGet
      let old := s.env.topFrame.targetLang
      let v ← enVal cfg al e
      modFrame (fun fr => { fr with targetLang := v })
      -- `econtext['target_language'] = target_language` (after the D-10b fix): expressions see it too
      setVar (lit "target_language") v
      eval cfg al f node
      modFrame (fun fr => { fr with targetLang := old })
      setVar (lit "target_language") old
    | .name nm node => do
      pushStream
      eval cfg al f node
      let v ← popStream
      emit (lit "${" ++ nm.str ++ lit "}")
      setTName nm.str v
    | .defineSlot nm node => fun s =>
      match lookupAssoc s.env.topFrame.slotFns (mangleName nm.str) with
      | some (some cid) =>
        match s.closures[cid]? with
        | none => .unsupported "unknown slot closure"
        | some cl =>
          match eval cfg cl.al f cl.node (fillerEnter cl s) with
          | .ok () s' => .ok () (fillerLeave s s')
          | .raised ex s' => .raised ex (fillerRaise s s')
          | .unsupported w => .unsupported w
      | _ => eval cfg al f node s
    | .useExternal e slots extend => do
      -- the fillers become nested functions; their deques go into the current scope
      slots.forM (fun (nm, sn) => do
        let s ← mGet
        let cid := s.closures.size
        let fr := s.env.topFrame
        let cl : Closure := { node := sn, al := al, cache := fr.cache, domain := fr.domain, context := fr.context,
                              targetLang := fr.targetLang, slotFns := fr.slotFns, tid := fr.tid }
        let key := slotKey nm.str
        let existing : Option Val := if extend then s.env.get key else none
        match existing with
        | some (.slots did) =>
          mSet { s with closures := s.closures.push cl, heap := heapSet s.heap did (cid :: heapGet s.heap did) }
        | some _ => mUnsupported "extend-macro over a non-deque slot value"
        | none => do
          let did := s.heap.length + s.closures.size
          mSet { s with closures := s.closures.push cl, heap := heapSet s.heap did [cid] }
          setVar key (.slots did))
      let v ← enVal cfg al e
      -- `__macro.include`: a `Macro` object, or a template object (the whole template used as a macro)
      let target : Option (Nat × Option Str) := match v with
        | .macro tid name => some (tid, name)
        | .template_ tid => some (tid, none)
        | _ => none
      match target with
      | some (tid, name) =>
        match cfg.macroBody tid name with
        | none => mUnsupported "unknown macro"
        | some body => (fun s =>
          match eval cfg ([] : List (Str × Val)) f body (macroEnter tid body s) with
          | .ok () s' => .ok () (macroLeave s s')
          | .raised ex s' => .raised ex (macroRaise s s')
          | .unsupported w => .unsupported w)
      | none => mUnsupported "use-macro of this value"
    | .useInternal name =>
      match name with
      | none => mUnsupported "use of the template itself as a macro"
      | some nm => fun s =>
        -- a macro of the template whose code is running
        let tid := s.env.topFrame.tid
        match lookupAssoc (cfg.macrosOf tid) nm with
        | none => .unsupported "unknown internal macro"
        | some body =>
          -- `__token = None` before the call
          let s0 : RState := { s with x := { s.x with token := none } }
          match eval cfg ([] : List (Str × Val)) f body (macroEnter tid body s0) with
          | .ok () s' => .ok () (macroLeave s0 s')
          | .raised ex s' => .raised ex (macroRaise s0 s')
          | .unsupported w => .unsupported w
    | .codeBlock _ => mUnsupported "code block"
def evalList (cfg : ECfg) (al : List (Str × Val)) : Nat → List Node → RM Unit
  | 0, _ => mUnsupported "out of fuel"
  | _, [] => pure ()
  | f+1, n :: ns => do
    eval cfg al f n
    evalList cfg al f ns
def evalDefine (cfg : ECfg) (al : List (Str × Val)) : Nat → List Assign → Node → List (Str × Option Val) → RM Unit
  | 0, _, _, _ => mUnsupported "out of fuel"
  | f+1, [], node, backups => do
    eval cfg al f node
    restore backups
  | f+1, a :: rest, node, backups =>
    match a with
    | .alias name e => do
      let v ← enVal cfg al e
      evalDefine cfg ((name, v) :: al) f rest node backups
    | .assign names e local_ => do
      let s0 ← mGet
      let bk : List (Str × Option Val) := if local_ then names.map (fun nm => (nm.str, s0.env.get nm.str)) else []
      let v ← enVal cfg al e
      match names with
      | [nm] => do
        setVar nm.str v
        if !local_ then setGlobal nm.str v else pure ()
      | _ => do
        let vs ← match v with
          | .list vs | .tuple vs => pure vs
          | .none | .bool _ | .int _ => mRaise { cls := "TypeError", msg := [] }
          | _ => mUnsupported "unpacking of this class"
        if vs.length != names.length then
          mRaise { cls := "ValueError", msg := [] }
        else do
          (names.zip vs).forM (fun (nm, x) => setVar nm.str x)
          -- global tuple define: `rcontext[name] = econtext[name]`, each name its own item (D-05g fixed in /repo)
          if !local_ then (names.zip vs).forM (fun (nm, x) => setGlobal nm.str x) else pure ()
      -- later assignments' backups are restored first (reverse order)
      evalDefine cfg al f rest node (bk ++ backups)
def evalRepeat (cfg : ECfg) (al : List (Str × Val)) : Nat → Str → List Tok → Bool → Str → Node → List Val → Nat → RM Unit
  | 0, _, _, _, _, _, _, _ => mUnsupported "out of fuel"
  | _, _, _, _, _, _, [], _ => pure ()
  | f+1, key, names, local_, ws, node, item :: rest, remaining => do
    -- next(): the shared iterator advances
    modEnv (fun e => { e with repeats := e.repeats.map (fun (k, r) => if r.tag == key then (k, { r with consumed := r.consumed + 1 }) else (k, r)) })
    match names with
    | [nm] => do
      setVar nm.str item
      if !local_ then setGlobal nm.str item else pure ()
    | _ => do
      let vs ← match item with
        | .list vs | .tuple vs => pure vs
        | .none | .bool _ | .int _ => mRaise { cls := "TypeError", msg := [] }
        | _ => mUnsupported "unpacking of this class"
      if vs.length != names.length then mRaise { cls := "ValueError", msg := [] }
      else do
        (names.zip vs).forM (fun (nm, x) => setVar nm.str x)
        if !local_ then (names.zip vs).forM (fun (nm, x) => setGlobal nm.str x) else pure ()
    eval cfg al f node
    if remaining - 1 > 0 then emit ws else pure ()
    evalRepeat cfg al f key names local_ ws node rest (remaining - 1)
end

end ChamVerif

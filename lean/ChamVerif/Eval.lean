import ChamVerif.Build
/-! What the generated Python does: a big-step interpreter of the node tree (`compiler.py`).
State = output streams, `econtext`/`rcontext`, the RepeatDict, the call stack of render-function
activations (cache variables, i18n triple, `__token`, saved stream lengths), and logs. -/
namespace ChamVerif

structure TCall where
  msgid : Str
  mapping : Option (List (Str × Str))
  dflt : Option Str
  domain : Option Str
  context : Option Str
  target : Option Str
  deriving Repr, Inhabited, DecidableEq

structure Frame where
  cache : List (Nat × Val) := []
  domain : Option Str := none
  context : Option Str := none
  targetLang : Val := .none
  token : Option (Nat × Nat) := none          -- `__token`: (pos, len) of the expression being evaluated
  saved : List (Nat × Nat) := []              -- on-error saved stream lengths
  deriving Inhabited

structure ErrRec where
  pos : Nat
  len : Nat
  deriving Repr, Inhabited, DecidableEq

structure RState where
  streams : List Str                           -- innermost stream first
  own : List (Str × Val)                       -- econtext: this scope's own dictionary
  root : List (Str × Val)                      -- econtext._root's dictionary (shared)
  rcontext : List (Str × Val)
  repeats : List (Str × RepItem)
  frames : List Frame
  log : Array Str
  tlog : Array TCall
  errors : List ErrRec                         -- rcontext['__error__']
  handled : Nat                                -- on_error_handler calls
  deriving Inhabited

structure ECfg where
  tc : TCfg
  tab : ObjTab
  pyBuiltins : List String
  talesExc : List String                       -- TalesExpr.exceptions (class names)
  existsExc : List String
  excParents : List (String × List String)     -- class ↦ its MRO names
  booleanAttrs : List Str
  strict : Bool
  src : Str                                    -- the (newline-normalised) template source, for token locations

inductive Res (α : Type)
  | ok (a : α) (s : RState)
  | raised (e : Exc) (s : RState)
  | unsupported (why : String)
  deriving Inhabited

abbrev RM (α : Type) := RState → Res α

instance : Monad RM where
  pure a := fun s => .ok a s
  bind x f := fun s => match x s with
    | .ok a s' => f a s'
    | .raised e s' => .raised e s'
    | .unsupported w => .unsupported w

def mGet : RM RState := fun s => .ok s s
def mSet (s : RState) : RM Unit := fun _ => .ok () s
def mModify (f : RState → RState) : RM Unit := fun s => .ok () (f s)
def mRaise {α} (e : Exc) : RM α := fun s => .raised e s
def mUnsupported {α} (w : String) : RM α := fun _ => .unsupported w
def mLiftR {α} (r : R α) : RM α := fun s => match r with
  | .ok a => .ok a s
  | .raised e => .raised e s
  | .unsupported w => .unsupported w

def emit (t : Str) : RM Unit := mModify (fun s => match s.streams with
  | top :: rest => { s with streams := (top ++ t) :: rest }
  | [] => { s with streams := [t] })

def topFrame (s : RState) : Frame := s.frames.headD {}
def modFrame (f : Frame → Frame) : RM Unit := mModify (fun s => match s.frames with
  | fr :: rest => { s with frames := f fr :: rest }
  | [] => { s with frames := [f {}] })

def setToken (t : Tok) : RM Unit :=
  let st := Tok.strip t
  modFrame (fun f => { f with token := some (st.pos, st.str.length) })

def scopeGet (s : RState) (k : Str) : Option Val :=
  match lookupAssoc s.own k with
  | some v => some v
  | none => lookupAssoc s.root k

def setVar (k : Str) (v : Val) : RM Unit := mModify (fun s => { s with own := (k, v) :: s.own.filter (·.1 != k) })
def delVar (k : Str) : RM Unit := mModify (fun s => { s with own := s.own.filter (·.1 != k) })

def isSubclass (cfg : ECfg) (cls : String) (of_ : List String) : Bool :=
  match cfg.excParents.find? (·.1 == cls) with
  | some (_, mro) => mro.any (fun c => of_.contains c)
  | none => of_.contains cls

/-- run an `EM` computation of the expression evaluator inside `RM` -/
def runEM {α} (x : EM α) : RM α := fun s =>
  match x { log := s.log } with
  | (.ok a, es) => .ok a { s with log := es.log }
  | (.raised e, es) => .raised e { s with log := es.log }
  | (.unsupported w, _) => .unsupported w

def mkECtx (cfg : ECfg) (al : List (Str × Val)) (s : RState) : ECtx :=
  { tab := cfg.tab, vars := s.own ++ s.root, aliases := al, repeats := s.repeats, pyBuiltins := cfg.pyBuiltins }

/-- value classes of `__quote` / `__convert` -/
def toQIn (cfg : ECfg) (v : Val) : RM QIn :=
  match v with
  | .none => pure .none
  | .dflt => pure .marker
  | .bytes b => pure (.bytes b)
  | .str s => pure (.str s)
  | .int i => pure (.num (intToStr i))
  | .markup m => pure (.html m)
  | .obj id => match cfg.tab[id]? with
    | some o => match o.html with
      | some h => pure (.html h)
      | none => pure (.other o.strForm o.translation)
    | none => mUnsupported "unknown object"
  | .bool _ | .cint _ | .cstr _ | .list _ | .tuple _ | .excClass _ | .excValue _ _ => do
    let s ← mLiftR (Val.strOf cfg.tab v)
    pure (.other s none)
  | _ => mUnsupported "conversion of this value to text"

def escQ : Esc → Option (Option Nat × Str)
  | .none => none
  | .text => some (Site.text.q, Site.text.qe)
  | .dq => some (Site.dq.q, Site.dq.qe)
  | .sq => some (Site.sq.q, Site.sq.qe)
  | .emptyQ => none

/-- `_convert_text(target, char_escape)`: `__quote` for an escaping class, `emit_convert` otherwise;
the result is `none` (Python `None`), or text -/
def convertText (cfg : ECfg) (esc : Esc) (dflt : Option Str) (v : Val) : RM (Option Str) := do
  if esc == .emptyQ then mUnsupported "dynamic value for an unquoted/valueless static attribute (D-07b)" else
  let q ← toQIn cfg v
  match escQ esc with
  | some (qc, qe) => pure (quoteVal qc qe dflt q)
  | none => match q with
    | .marker => pure dflt
    | _ => pure (convertVal q)

/-- `simple_translate(msgid, mapping=…, default=…)` for str msgids: `${name}` / `$name` interpolation -/
def simpleTranslate (rx : Rx) (msgid : Str) (mapping : Option (List (Str × Str))) (dflt : Option Str) : Str :=
  let d := dflt.getD msgid
  match mapping with
  | none => d
  | some [] => d
  | some m =>
    let ms := finditer Gen.uni d.toArray rx.i18nInterp
    let rec go (pos : Nat) (ms : List (Nat × St)) (acc : Str) : Str :=
      match ms with
      | [] => acc ++ d.drop pos
      | (st, mt) :: rest =>
        let g (i : Nat) : Option Str := match mt.caps.find? (·.1 == i) with
          | some (_, x, y) => some ((d.drop x).take (y - x)) | none => none
        let whole := (d.drop st).take (mt.pos - st)
        let key := match g 2 with | some k => k | none => (g 3).getD []
        let rep := (lookupAssoc m key).getD whole
        go mt.pos rest (acc ++ (d.drop pos).take (st - pos) ++ rep)
    go 0 ms []

/-- the `translate(...)` call of the generated code, with the frame's i18n triple -/
def callTranslate (cfg : ECfg) (msgid : Str) (mapping : Option (List (Str × Str))) (dflt : Option Str) : RM Str := do
  let s ← mGet
  let fr := topFrame s
  let tgt : Option Str := match fr.targetLang with | .str t => some t | _ => none
  let call : TCall := ⟨msgid, mapping, dflt, fr.domain, fr.context, tgt⟩
  mModify (fun s => { s with tlog := s.tlog.push call })
  pure (simpleTranslate cfg.tc.rx msgid mapping dflt)

mutual
/-- evaluate a compiled TALES expression to an object -/
def evalT (cfg : ECfg) (al : List (Str × Val)) : Nat → TExpr → Esc → Option Str → RM Val
  | 0, _, _, _ => mUnsupported "expression nesting too deep"
  | f+1, e, esc, dflt =>
    match e with
    | .unsupported w => mUnsupported w
    | .py alts => evalAlts cfg al f alts esc dflt
    | .not_ e tok => do
      setToken tok
      let v ← evalT cfg al f e esc dflt
      let b ← mLiftR (Val.truthy cfg.tab v)
      pure (.bool (!b))
    | .exists_ e => fun s =>
      match evalT cfg al f e esc dflt s with
      | .ok _ s' => .ok (.int 1) s'
      | .raised ex s' => if isSubclass cfg ex.cls cfg.existsExc then .ok (.int 0) s' else .raised ex s'
      | .unsupported w => .unsupported w
    | .structure_ e tok => do
      setToken tok
      let v ← evalT cfg al f e esc dflt
      match v with
      | .none => pure (.markup (lit "None"))
      | _ => do let s ← mLiftR (Val.strOf cfg.tab v); pure (.markup s)
    | .str parts => do
      let r ← evalParts cfg al f parts esc dflt
      match r with
      | some s => pure (.str s)
      | none => pure .none
def evalAlts (cfg : ECfg) (al : List (Str × Val)) : Nat → List PyAlt → Esc → Option Str → RM Val
  | 0, _, _, _ => mUnsupported "expression nesting too deep"
  | _, [], _, _ => mUnsupported "empty expression"
  | f+1, a :: rest, esc, dflt => fun s =>
    let r : Res Val := match a with
      | .expr e => (do let st ← mGet; runEM (evalP (mkECtx cfg al st) 200 e)) s
      | .nested e tok => (do setToken tok; evalT cfg al f e esc dflt) s
    match r with
    | .ok v s' => .ok v s'
    | .unsupported w => .unsupported w
    | .raised ex s' =>
      if rest.isEmpty then .raised ex s'
      else if isSubclass cfg ex.cls cfg.talesExc then evalAlts cfg al f rest esc dflt s'
      else .raised ex s'
/-- the Interpolator's result: `none` = Python `None` (single part evaluating to nothing) -/
def evalParts (cfg : ECfg) (al : List (Str × Val)) : Nat → List IPart → Esc → Option Str → RM (Option Str)
  | 0, _, _, _ => mUnsupported "expression nesting too deep"
  | f+1, parts, esc, dflt =>
    match parts with
    | [.lit s] => pure (some s)
    | [.expr e tok _] => do
      setToken tok
      let v ← evalT cfg al f e esc dflt
      convertText cfg esc dflt v
    | _ => do
      let rs ← partsText cfg al f parts esc dflt
      pure (some rs)
def partsText (cfg : ECfg) (al : List (Str × Val)) : Nat → List IPart → Esc → Option Str → RM Str
  | 0, _, _, _ => mUnsupported "expression nesting too deep"
  | _, [], _, _ => pure []
  | f+1, p :: rest, esc, dflt => do
    let a ← match p with
      | .lit s => pure s
      | .expr e tok _ => do
        setToken tok
        let v ← evalT cfg al f e esc dflt
        let t ← convertText cfg esc dflt v
        pure (t.getD [])
    let b ← partsText cfg al f rest esc dflt
    pure (a ++ b)
end

/-- compile (at evaluation time) the expression held in a token; in non-strict mode an invalid
expression raises its `ExpressionError` here, i.e. exactly when it is reached -/
def compileAt (cfg : ECfg) (tok : Tok) : RM TExpr := do
  match compileTales cfg.tc 64 tok with
  | .ok e => pure e
  | .error (.template cls msg etok) =>
    -- TokenRef(exc.token); raise exc
    modFrame (fun f => { f with token := some (etok.pos, etok.str.length) })
    mRaise { cls := cls, msg := Str.ofString msg }
  | .error (.crash cls) => mUnsupported ("compile crash " ++ cls)

def evalValue (cfg : ECfg) (al : List (Str × Val)) (tok : Tok) (esc : Esc) (dflt : Option Str) : RM Val := do
  let e ← compileAt cfg tok
  setToken tok
  evalT cfg al 64 e esc dflt

def getCached (id : Nat) : RM Val := do
  let s ← mGet
  match (topFrame s).cache.find? (·.1 == id) with
  | some (_, v) => pure v
  | none => mUnsupported "read of a cache variable that this activation has not assigned"

/-- evaluate an expression node to an object (`ExpressionTransform`) -/
def evalEN (cfg : ECfg) (al : List (Str × Val)) : Nat → EN → RM Val
  | 0, _ => mUnsupported "expression node nesting"
  | f+1, e =>
    match e with
    | .const s => pure (.str s)
    | .value tok => evalValue cfg al tok .none none
    | .valueD tok d => evalValue cfg al tok .none d
    | .ref id => getCached id
    | .marker => pure .dflt
    | .cancelMarker => pure (.excClass "<CANCEL>")
    | .staticDict kvs => pure (.dict (kvs.map (fun (k, v) => (Val.str k, Val.str v))))
    | .pyName n => do
      let s ← mGet
      runEM (resolveName (mkECtx cfg al s) n)
    | .negate e => do
      let v ← evalEN cfg al f e
      let b ← mLiftR (Val.truthy cfg.tab v)
      pure (.bool (!b))
    | .binop l op r => do
      let x ← evalEN cfg al f l
      let y ← evalEN cfg al f r
      match op with
      | .is_ => do
        match x, y with
        | .excClass a, .excClass b => pure (.bool (a == b))
        | .excClass _, _ | _, .excClass _ => pure (.bool false)
        | _, _ => do let b ← mLiftR (Val.pyIs x y); pure (.bool b)
      | .isNot => do
        match x, y with
        | .excClass a, .excClass b => pure (.bool (a != b))
        | .excClass _, _ | _, .excClass _ => pure (.bool true)
        | _, _ => do let b ← mLiftR (Val.pyIs x y); pure (.bool (!b))
      | .equals => do
        match x, y with
        | .excClass _, _ | _, .excClass _ => mUnsupported "comparison with the cancel marker"
        | _, _ => do let b ← mLiftR (Val.pyEq x y); pure (.bool b)
    | .subst tok esc dflt literalFalse => do
      let v ← evalValue cfg al tok esc dflt
      substTail cfg esc dflt literalFalse v
    | .boolean tok s dflt => do
      let v ← evalValue cfg al tok .none dflt
      match v with
      | .dflt => pure (match dflt with | some d => .str d | none => .none)
      | _ => do
        let b ← mLiftR (Val.truthy cfg.tab v)
        pure (if b then .str s else .none)
    | .interp tok esc dflt literalFalse required translation => do
      if translation then mUnsupported "implicit translation of interpolated text" else
      match compileInterp cfg.tc 64 tok required true with
      | .error (.template cls msg etok) =>
        modFrame (fun fr => { fr with token := some (etok.pos, etok.str.length) })
        mRaise { cls := cls, msg := Str.ofString msg }
      | .error (.crash cls) => mUnsupported ("compile crash " ++ cls)
      | .ok parts => do
        setToken tok
        let r ← evalParts cfg al 64 parts esc dflt
        let v : Val := match r with | some s => .str s | none => .none
        -- emit_convert on the joined result is the identity on str / None
        if literalFalse then pure v else do
          let b ← mLiftR (Val.truthy cfg.tab v)
          pure (if b then v else .none)
    | .replace e s => do
      let v ← evalEN cfg al f e
      let b ← mLiftR (Val.truthy cfg.tab v)
      pure (if b then .str s else v)
    | .translate msgid e => do
      let v ← evalEN cfg al f e
      match v with
      | .str t =>
        let r ← callTranslate cfg (msgid.getD t) none (some t)
        pure (.str r)
      | .none =>
        match msgid with
        | some m => do let r ← callTranslate cfg m none none; pure (.str r)
        | none => mUnsupported "translate(None)"
      | _ => mUnsupported "translation of a non-text attribute value"
where
  /-- the statements `assign_text` appends after the evaluation -/
  substTail (cfg : ECfg) (esc : Esc) (dflt : Option Str) (literalFalse : Bool) (v : Val) : RM Val := do
    if !literalFalse then
      let b ← mLiftR (Val.truthy cfg.tab v)
      if !b then pure .none else do
        let t ← convertText cfg esc dflt v
        pure (match t with | some s => .str s | none => .none)
    else do
      let t ← convertText cfg esc dflt v
      pure (match t with | some s => .str s | none => .none)

/-- `Compiler.visit_Condition`: And/Or chains test `is True` / `is False` on the last result -/
def evalCond (cfg : ECfg) (al : List (Str × Val)) : Nat → CondE → RM Val
  | 0, _ => mUnsupported "condition nesting"
  | f+1, c =>
    match c with
    | .e x => evalEN cfg al 64 x
    | .and_ xs => chain cfg al f xs true
    | .or_ xs => chain cfg al f xs false
where
  chain (cfg : ECfg) (al : List (Str × Val)) : Nat → List CondE → Bool → RM Val
    | _, [], _ => pure .none
    | f, [x] , _ => evalCond cfg al f x
    | f, x :: rest, isAnd => do
      let v ← evalCond cfg al f x
      match v with
      | .bool b => if b == isAnd then chain cfg al f rest isAnd else pure v
      | _ => pure v

def pushStream : RM Unit := mModify (fun s => { s with streams := [] :: s.streams })
def popStream : RM Str := fun s => match s.streams with
  | top :: rest => .ok top { s with streams := rest }
  | [] => .ok [] s

def collapseWsStr (s : Str) : Str :=
  let rec go : Nat → Str → Bool → Str
    | 0, _, _ => []
    | _, [], _ => []
    | f+1, ch :: r, inWs =>
      if Tok.isWs ch then (if inWs then go f r true else 32 :: go f r true) else ch :: go f r false
  go (s.length + 1) s false

def stripStr (s : Str) : Str := ((s.dropWhile Tok.isWs).reverse.dropWhile Tok.isWs).reverse

def compilerDisallowed : List String := Gen.compilerInternals

/-- Python truthiness of a dictionary-attribute value etc. -/
def vTruthy (cfg : ECfg) (v : Val) : RM Bool := mLiftR (Val.truthy cfg.tab v)

def restore (bk : List (Str × Option Val)) : RM Unit :=
  bk.forM (fun (k, v) => match v with | some x => setVar k x | none => delVar k)

mutual
def eval (cfg : ECfg) (al : List (Str × Val)) : Nat → Node → RM Unit
  | 0, _ => mUnsupported "out of fuel"
  | f+1, n =>
    match n with
    | .text s => emit s
    | .seq ns => evalList cfg al f ns
    | .element st en ct => do
      eval cfg al f st
      eval cfg al f ct
      match en with
      | some e => eval cfg al f e
      | none => pure ()
    | .start name pfx suffix attrs => do
      emit (pfx ++ name)
      eval cfg al f attrs
      match suffix with
      | some s => emit s
      | none => mRaise { cls := "TypeError", msg := [] }
    | .end_ name _space pfx suffix =>
      emit (pfx ++ name ++ (if cfg.tc.q.endTagSpaceTwice then (_space.getD []) else []) ++ suffix.getD [])
    | .attribute name e quote eq space _dflt filters => do
      -- `NAME not in __chain(*filter values)`: lazily iterates each cached dictionary-expression value
      let filtered : RM Bool := do
        let s ← mGet
        let fr := topFrame s
        let rec go : List Nat → RM Bool
          | [] => pure false
          | id :: rest =>
            match fr.cache.find? (·.1 == id) with
            | some (_, .dict kvs) => if kvs.any (fun kv => kv.1 == Val.str name) then pure true else go rest
            | some (_, .list vs) | some (_, .tuple vs) => if vs.any (fun v => v == Val.str name) then pure true else go rest
            | some (_, .none) | some (_, .bool _) | some (_, .int _) => mRaise { cls := "TypeError", msg := [] }
            | some _ => mUnsupported "membership test on this filter value"
            | none => mUnsupported "filter expression not cached"
        go filters
      match e with
      | .const s => do
        let skip ← filtered
        if skip then pure () else emit (space ++ name ++ eq ++ quote ++ s ++ quote)
      | _ => do
        let v ← evalEN cfg al 64 e
        match v with
        | .none => pure ()
        | .str t => do
          let skip ← filtered
          if skip then pure () else emit (space ++ name ++ eq ++ quote ++ t ++ quote)
        | _ => mUnsupported "non-text attribute value"
    | .dictAttrs id e exclude => do
      let d ← (do
        let s ← mGet
        match (topFrame s).cache.find? (·.1 == id) with
        | some (_, v) => pure v
        | none => evalEN cfg al 64 e)
      match d with
      | .dict kvs =>
        kvs.forM (fun (k, v) => do
          match k with
          | .str name => do
            let (skip, v') ← (if cfg.booleanAttrs.contains name then do
                let b ← vTruthy cfg v
                pure (!b, if b then Val.str name else v)
              else pure (false, v))
            if skip then pure ()
            else if exclude.contains name then pure ()
            else match v' with
              | .none => pure ()
              | _ => do
                let t ← convertText cfg .dq none v'
                match t with
                | some s => emit ([32] ++ name ++ [61, 34] ++ s ++ [34])
                | none => mRaise { cls := "TypeError", msg := [] }
          | _ => mUnsupported "non-str attribute key")
      | .none => mRaise { cls := "AttributeError", msg := lit "'NoneType' object has no attribute 'items'" }
      | _ => mUnsupported "attribute dictionary of this class"
    | .content e esc translate => do
      let v ← evalEN cfg al 64 e
      if translate then mUnsupported "tal:content with i18n:translate=\"\"" else
      let q ← toQIn cfg v
      let t := if esc then quoteVal Site.content.q Site.content.qe none q else convertVal q
      match t with
      | some s => emit s
      | none => pure ()
    | .interpolation e => do
      let v ← evalEN cfg al 64 e
      match v with
      | .str s => emit s
      | .none => pure ()
      | _ => mUnsupported "interpolation result"
    | .condition c node orelse => do
      let v ← evalCond cfg al 16 c
      let b ← vTruthy cfg v
      if b then eval cfg al f node
      else match orelse with
        | some o => eval cfg al f o
        | none => pure ()
    | .cache es node => do
      es.forM (fun (id, e) => do
        let s ← mGet
        -- `if self._expression_cache.get(expression): continue` is a compile-time test on the object
        let _ := s
        let v ← evalEN cfg al 64 e
        modFrame (fun fr => { fr with cache := (id, v) :: fr.cache.filter (·.1 != id) }))
      eval cfg al f node
    | .cancel ids node => do
      ids.forM (fun id => modFrame (fun fr => { fr with cache := (id, Val.excClass "<CANCEL>") :: fr.cache.filter (·.1 != id) }))
      eval cfg al f node
    | .define assigns node => evalDefine cfg al f assigns node []
    | .repeat_ _id names e local_ ws node => do
      -- outer: evaluate the iterable first, then (local) backups were taken *before* it
      let s0 ← mGet
      let backups : List (Str × Option Val) := if local_ then names.map (fun nm => (nm.str, scopeGet s0 nm.str)) else []
      let it ← evalEN cfg al 64 e
      (match scopeGet s0 (lit "repeat") with
        | some .repeatDict => pure ()
        | _ => mUnsupported "`repeat` rebound by the template (D-05e)")
      let items : List Val ← match it with
        | .list vs | .tuple vs => pure vs
        | .none => pure []
        | .str s => pure (s.map (fun ch => Val.str [ch]))
        | .dict kvs => pure (kvs.map (·.1))
        | _ => mUnsupported "iterable class"
      let key : Str := match names with
        | [nm] => nm.str
        | _ => []
      if names.length != 1 then mUnsupported "tuple repeat key" else
      mModify (fun s => { s with repeats := (key, { length := items.length, consumed := 0 }) :: s.repeats.filter (·.1 != key) })
      names.forM (fun nm => setVar nm.str .none)
      evalRepeat cfg al f key names local_ ws node items items.length
      -- `if local: outer += self._leave_assignment(names)`
      if local_ then restore backups else pure ()
    | .onError id fallback node => fun s =>
      let key := if cfg.tc.q.sharedFallbackVar then 0 else id
      let savedLen := (s.streams.headD []).length
      let s1 : RState := match s.frames with
        | fr :: rest => { s with frames := { fr with saved := (key, savedLen) :: fr.saved.filter (·.1 != key) } :: rest }
        | [] => s
      match eval cfg al f node s1 with
      | .ok () s' => .ok () s'
      | .unsupported w => .unsupported w
      | .raised ex s' =>
        if !isSubclass cfg ex.cls ["Exception"] then .raised ex s'
        else
          -- econtext['error'] = ErrorInfo(exc, tokens[__token][1:3]); handler; del stream[saved:]; fallback
          let fr := topFrame s'
          match fr.token with
          | none => .unsupported "on-error with __token None"
          | some (pos, _) =>
            let srcTok : Tok := { str := [], pos := pos }
            let (line, col) := Tok.location cfg.src srcTok
            let cut := ((fr.saved.find? (·.1 == key)).map (·.2)).getD savedLen
            let s2 : RState := { s' with
              streams := match s'.streams with | top :: rest => top.take cut :: rest | [] => [],
              handled := s'.handled + 1,
              own := (lit "error", Val.errorInfo ex.cls ex.msg line col) :: s'.own.filter (·.1 != lit "error") }
            -- the fallback runs inside `_enter_assignment(('error',))` … `_leave_assignment` is *not* emitted
            -- around it at run time (both are compile-time bookkeeping for the name); it just runs
            eval cfg al f fallback s2
    | .translate _ msgid node => do
      pushStream
      eval cfg al f node
      let body ← popStream
      let computed := stripStr (collapseWsStr body)
      match msgid with
      | some m => do
        let r ← callTranslate cfg m none (some computed)
        emit r
      | none =>
        if computed.isEmpty then pure () else do
          let r ← callTranslate cfg computed none (some computed)
          emit r
    | .domain d node => do
      let s ← mGet
      let old := (topFrame s).domain
      modFrame (fun fr => { fr with domain := some d })
      eval cfg al f node
      modFrame (fun fr => { fr with domain := old })
    | .txContext c node => do
      let s ← mGet
      let old := (topFrame s).context
      modFrame (fun fr => { fr with context := some c })
      eval cfg al f node
      modFrame (fun fr => { fr with context := old })
    | .target e node => do
      let s ← mGet
      let old := (topFrame s).targetLang
      let v ← evalEN cfg al 64 e
      modFrame (fun fr => { fr with targetLang := v })
      eval cfg al f node
      modFrame (fun fr => { fr with targetLang := old })
    | .name _ _ => mUnsupported "i18n:name"
    | .defineSlot _ _ => mUnsupported "metal:define-slot"
    | .useExternal _ _ _ => mUnsupported "metal:use-macro"
    | .useInternal _ => mUnsupported "metal:define-macro"
    | .codeBlock _ => mUnsupported "code block"
def evalList (cfg : ECfg) (al : List (Str × Val)) : Nat → List Node → RM Unit
  | 0, _ => mUnsupported "out of fuel"
  | _, [] => pure ()
  | f+1, n :: ns => do
    eval cfg al f n
    evalList cfg al f ns
def evalDefine (cfg : ECfg) (al : List (Str × Val)) : Nat → List Assign → Node → List (Str × Option Val) → RM Unit
  | 0, _, _, _ => mUnsupported "out of fuel"
  | f+1, [], node, backups => do
    eval cfg al f node
    restore backups
  | f+1, a :: rest, node, backups =>
    match a with
    | .alias name e => do
      let v ← evalEN cfg al 64 e
      evalDefine cfg ((name, v) :: al) f rest node backups
    | .assign names e local_ => do
      let s0 ← mGet
      let bk : List (Str × Option Val) := if local_ then names.map (fun nm => (nm.str, scopeGet s0 nm.str)) else []
      let v ← evalEN cfg al 64 e
      match names with
      | [nm] => do
        setVar nm.str v
        if !local_ then mModify (fun s => { s with rcontext := (nm.str, v) :: s.rcontext.filter (·.1 != nm.str) }) else pure ()
      | _ => do
        let vs ← match v with
          | .list vs | .tuple vs => pure vs
          | _ => mUnsupported "unpacking of this class"
        if vs.length != names.length then
          mRaise { cls := "ValueError", msg := [] }
        else do
          (names.zip vs).forM (fun (nm, x) => setVar nm.str x)
          -- global tuple define: `rcontext[name] = __value` stores the *whole* value under each name
          if !local_ then names.forM (fun nm => mModify (fun s => { s with rcontext := (nm.str, v) :: s.rcontext.filter (·.1 != nm.str) }))
          else pure ()
      -- later assignments' backups are restored first (reverse order)
      evalDefine cfg al f rest node (bk ++ backups)
def evalRepeat (cfg : ECfg) (al : List (Str × Val)) : Nat → Str → List Tok → Bool → Str → Node → List Val → Nat → RM Unit
  | 0, _, _, _, _, _, _, _ => mUnsupported "out of fuel"
  | _, _, _, _, _, _, [], _ => pure ()
  | f+1, key, names, local_, ws, node, item :: rest, remaining => do
    -- next(): the shared iterator advances
    mModify (fun s => { s with repeats := s.repeats.map (fun (k, r) => if k == key then (k, { r with consumed := r.consumed + 1 }) else (k, r)) })
    match names with
    | [nm] => do
      setVar nm.str item
      if !local_ then mModify (fun s => { s with rcontext := (nm.str, item) :: s.rcontext.filter (·.1 != nm.str) }) else pure ()
    | _ => mUnsupported "tuple repeat"
    eval cfg al f node
    if remaining - 1 > 0 then emit ws else pure ()
    evalRepeat cfg al f key names local_ ws node rest (remaining - 1)
end

end ChamVerif

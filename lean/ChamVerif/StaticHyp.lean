import ChamVerif.Static
/-! Decidable side conditions of the static-identity theorem (`ChamProofs/Props/C03Static.lean`), in the model library so
that the driver can evaluate them on every generated document. -/
namespace ChamVerif

mutual
/-- the source text an item stands for -/
def rawItem : Item → Str
  | .text t => t.str
  | .comment t => t.str
  | .cdata t => t.str
  | .dflt t => t.str
  | .pi name text => lit "<?" ++ name.str ++ text.str ++ lit "?>"
  | .startTag e => e.tag.reassemble
  | .element s e cs => s.tag.reassemble ++ rawItems cs ++ (match e with | some e => e.tag.reassembleEnd false | none => [])
def rawItems : List Item → Str
  | [] => []
  | i :: is => rawItem i ++ rawItems is
end


/-- what the token contributes to the document, as the parser dissects it -/
def tokOK (rx : Rx) (t : Tok) : Bool :=
  match identify rx t with
  | .ok .startTag | .ok .emptyTag | .ok .xmlDecl =>
    (match matchTagWith rx t with | some g => g.reassemble == t.str | none => false)
  | .ok .endTag =>
    (match matchTagWith rx t with | some g => g.reassembleEnd false == t.str | none => false)
  | .ok .pi =>
    (match matchAt Gen.uni t.str.toArray rx.pi 0 with
     | none => true
     | some st =>
       let g := tokGroup rx.piGroups st t
       lit "<?" ++ ((g "name").getD (emptyTok 0)).str ++ ((g "text").getD (emptyTok 0)).str ++ lit "?>" == t.str)
  | _ => true


def elemClean (e : Elem) : Bool :=
  !dropNs.contains e.ns &&
  !e.nsAttrs.any (fun ((ns, _), v) => dropNs.contains ns || (ns == XMLNS_NS && dropNs.contains v.str)) &&
  !e.tag.attrs.any (fun a => hasInterp a.value.str) && e.tag.suffix.isSome

mutual
/-- nothing in the item asks for evaluation: no `$`, no `<!--!`/`<!--?` comment, no language markup, no code block -/
def cleanItem : Item → Bool
  | .text t => !t.str.contains 36
  | .comment t => !startsWith t.str (lit "<!--!") && !startsWith t.str (lit "<!--?") && !hasInterp t.str
  | .cdata t => !hasInterp t.str
  | .dflt _ => true
  | .pi name text => !(name.str == lit "python") && !(lit "<?" ++ name.str ++ text.str ++ lit "?>").contains 36
  | .startTag e => elemClean e
  | .element s _ cs => elemClean s && cleanItems cs
def cleanItems : List Item → Bool
  | [] => true
  | i :: is => cleanItem i && cleanItems is
end


/-- the decidable hypotheses of `C03_static_identity` for a source -/
def staticHyp (r : Bool) (src : Str) : Bool :=
  let body := if isXmlDoc src then src else normalizeNewlines src
  let toks := iterXmlWith Rx.live.xmlSpe body
  toks.all (tokOK Rx.live) &&
    (match parseTokens Rx.live r toks with
     | .ok items => cleanItems items
     | .error _ => false)


end ChamVerif

/-! One model, faithful *and* ideal: every switch guards one small, local alternative in one
definition.  `Quirks.current` is what /repo does today (the correspondence runs with it and
expects zero disagreements); `Quirks.ideal` is what the properties need.  A `fix:` commit in
/repo flips the switch in `current`. -/
namespace ChamVerif

structure Quirks where
  /-- D-03a: `visit_End` emits `space` and a `suffix` that already contains it -/
  endTagSpaceTwice : Bool
  /-- D-06b: `'<!--' + node.lstrip('<!-?')` strips a character set instead of the 5-char prefix -/
  verbatimCommentLstrip : Bool
  /-- D-11a: `Token.split` advances by `len(part)` only -/
  splitIgnoresSep : Bool
  /-- D-07a: `normalized[name.lower()] = len(attributes) - 1` computed before the insert -/
  attrIndexOffByOne : Bool
  /-- D-13a: every `tal:on-error` of one function shares one saved-length variable -/
  sharedFallbackVar : Bool
  /-- D-20a: text-mode templates run `identify` on their single token -/
  textModeIdentify : Bool
  /-- D-18a: `prepare_attributes` pairs `attrs` with `ns_attrs.items()` by position; `convert_data_attributes` converts
  every `data-<bound prefix>-<name>` and raises `KeyError` for an unbound one -/
  zipPairing : Bool
  /-- D-07e: `_create_attributes_nodes` entity-decoded the expression of a named or dictionary `tal:attributes` entry a
  second time (`visit_element` has decoded the whole statement already) -/
  attrDecodeTwice : Bool := false
  deriving Repr, DecidableEq, Inhabited

def Quirks.current : Quirks :=
  { endTagSpaceTwice := false, verbatimCommentLstrip := false, splitIgnoresSep := false,
    attrIndexOffByOne := false, sharedFallbackVar := false, textModeIdentify := false, zipPairing := false }

def Quirks.ideal : Quirks :=
  { endTagSpaceTwice := false, verbatimCommentLstrip := false, splitIgnoresSep := false,
    attrIndexOffByOne := false, sharedFallbackVar := false, textModeIdentify := false, zipPairing := false }

end ChamVerif

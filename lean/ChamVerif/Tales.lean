import ChamVerif.PExpr
import ChamVerif.Tal
import ChamVerif.Escape
/-! TALES (`tales.py`) and the `Interpolator` (`compiler.py`): compilation of expression
strings into `TExpr` terms (prefix dispatch, pipes, `${…}` scanning with candidate shrinking),
with `Token` positions and the compile-time errors the code raises. -/
namespace ChamVerif

mutual
inductive TExpr
  | py (alts : List PyAlt)                 -- PythonExpr: pipe alternatives
  | str (parts : List IPart)               -- StringExpr (braces optional)
  | not_ (e : TExpr) (tok : Tok)           -- NotExpr: nested `engine.parse` (TokenRef of the inner text)
  | exists_ (e : TExpr)                    -- ExistsExpr parses with handle_errors=False: no TokenRef
  | structure_ (e : TExpr) (tok : Tok)
  | unsupported (why : String)             -- import:, load:, python outside the modelled subset
inductive PyAlt
  | expr (e : PExpr)
  | nested (e : TExpr) (tok : Tok)         -- a later alternative that starts with a type prefix
inductive IPart
  | lit (s : Str)
  | expr (e : TExpr) (tok : Tok) (text : Str)
end

instance : Inhabited TExpr := ⟨.unsupported "default"⟩

mutual
/-- does the compiled expression contain a part the model does not cover -/
def TExpr.hasUnsupported : TExpr → Bool
  | .unsupported _ => true
  | .py alts => altsUnsupported alts
  | .str parts => partsUnsupported parts
  | .not_ e _ | .exists_ e | .structure_ e _ => e.hasUnsupported
def altsUnsupported : List PyAlt → Bool
  | [] => false
  | .expr _ :: r => altsUnsupported r
  | .nested e _ :: r => e.hasUnsupported || altsUnsupported r
def partsUnsupported : List IPart → Bool
  | [] => false
  | .lit _ :: r => partsUnsupported r
  | .expr e _ _ :: r => e.hasUnsupported || partsUnsupported r
end

/-- validity oracle for Python source text the model's parser does not cover:
`some none` = valid Python, `some (some msg)` = SyntaxError with that message -/
abbrev PyOracle := List (Str × Option Str)

structure TCfg where
  rx : Rx
  q : Quirks
  oracle : PyOracle
  exprTypes : List String := ["python", "string", "not", "exists", "import", "structure"]
  defaultType : String := "python"
  /-- are character entities inside `${…}` decoded?  Yes in markup; no in a text template (`Interpolation.decode_htmlentities`,
  set from `MacroProgram.escape`; D-20b repaired in /repo) -/
  decodeInterp : Bool := true

/-- `decode_htmlentities` on a token: the five XML entities and numeric references
(named HTML entities beyond these are outside the model) -/
def decodeEntities (rx : Rx) (s : Str) : Option Str :=
  let a := s.toArray
  let ms := finditer Gen.uni a rx.entity2Re
  let rec go (pos : Nat) (ms : List (Nat × St)) (acc : Str) : Option Str :=
    match ms with
    | [] => some (acc ++ s.drop pos)
    | (st, m) :: rest =>
      let g (i : Nat) : Str := match m.caps.find? (·.1 == i) with
        | some (_, x, y) => (s.drop x).take (y - x) | none => []
      let whole := (s.drop st).take (m.pos - st)
      let ent := g 3
      let rep : Option Str :=
        if g 1 == [35] then
          if g 2 == [] then
            if ent.all isDigit then some [digitsVal ent] else none
          else none                      -- hex references: outside the model
        else
          if ent == lit "amp" then some [38] else if ent == lit "lt" then some [60]
          else if ent == lit "gt" then some [62] else if ent == lit "quot" then some [34]
          else if ent == lit "apos" then some [39] else if ent == lit "nbsp" then some [160]
          else if ent.all (fun c => isIdChar c) && ent.length ≤ 8 && !(knownNames.contains ent.toString) then
            some whole                   -- unknown name: left as is (only if certainly not an HTML entity)
          else none
      match rep with
      | none => none
      | some r => go m.pos rest (acc ++ (s.drop pos).take (st - pos) ++ r)
  go 0 ms []
where
  /-- names the model refuses to judge (they are HTML entities other than the six above) -/
  knownNames : List String := []

def Tok.mapStr (t : Tok) (f : Str → Str) : Tok := { t with str := f t.str }

/-- `PythonExpr.translate`'s text normalisation: strip, continuation → newline, newline → space -/
def pyNormalize (rx : Rx) (t : Tok) : Tok :=
  let s := Tok.strip t
  -- re_continuation = r'\\\s*$' (MULTILINE) replaced by '\n', then '\n' → ' '
  let a := s.str.toArray
  let ms := finditer Gen.uni a rx.continuation
  let rec go (pos : Nat) (ms : List (Nat × St)) (acc : Str) : Str :=
    match ms with
    | [] => acc ++ s.str.drop pos
    | (st, m) :: rest => go m.pos rest (acc ++ (s.str.drop pos).take (st - pos) ++ [10])
  let s1 := go 0 ms []
  { s with str := s1.map (fun c => if c == 10 then 32 else c) }

/-- first unescaped `|` (split_parts = `(?<!\\)\|`) -/
def findPipe (rx : Rx) (s : Str) : Option (Nat × Nat) :=
  match (finditer Gen.uni s.toArray rx.pipeSplit).head? with
  | some (a, st) => some (a, st.pos)
  | none => none

def matchPrefix (rx : Rx) (s : Str) : Option (Str × Nat) :=
  match matchAt Gen.uni s.toArray rx.matchPrefix 0 with
  | some st => match st.caps.find? (·.1 == 1) with
    | some (_, a, b) => some ((s.drop a).take (b - a), st.pos)
    | none => none
  | none => none

/-- does the text contain a candidate for interpolation at all -/
def bracesSearch (rx : Rx) (required : Bool) (s : Str) : Option (Nat × St) :=
  search Gen.uni s.toArray (if required then rx.bracesReq else rx.bracesOpt)

mutual
/-- `ExpressionParser.__call__` + the factory's compile step (`engine.parse(string)` then `assign_*`) -/
def compileTales (c : TCfg) : Nat → Tok → CRes TExpr
  | 0, _ => pure (.unsupported "nesting too deep")
  | f+1, t =>
    let (pfx, body) : String × Tok := match matchPrefix c.rx t.str with
      | some (p, e) => (p.toString, t.slice e none)
      | none => (c.defaultType, t)
    if !c.exprTypes.contains pfx then .error (.crash "LookupError")
    else match pfx with
      | "python" => compilePy c f body true
      | "string" => do
        let parts ← compileInterp c f body false false
        pure (.str parts)
      | "not" => do let e ← compileTales c f body; pure (.not_ e body)
      | "exists" => do let e ← compileTales c f body; pure (.exists_ e)
      | "structure" => do let e ← compileTales c f body; pure (.structure_ e body)
      | _ => pure (.unsupported ("expression type " ++ pfx))
/-- `TalesExpr.__call__` for `PythonExpr` -/
def compilePy (c : TCfg) : Nat → Tok → Bool → CRes TExpr
  | 0, _, _ => pure (.unsupported "nesting too deep")
  | f+1, t, _ =>
    if t.str.isEmpty then .error (.template "ExpressionError" "No input:" t)
    else do
      let alts ← compileAlts c f t
      pure (.py alts)
def compileAlts (c : TCfg) : Nat → Tok → CRes (List PyAlt)
  | 0, _ => pure [.nested (.unsupported "too many alternatives") default]
  | f+1, remaining =>
    if remaining.str.isEmpty then pure []
    else if (matchPrefix c.rx remaining.str).isSome then do
      let e ← compileTales c f remaining
      pure [.nested e (Tok.strip remaining)]
    else
      let (expression, rest) : Tok × Tok := match findPipe c.rx remaining.str with
        | some (a, b) => (remaining.slice 0 (some a), remaining.slice b none)
        | none => (remaining, { str := [], pos := remaining.pos + remaining.str.length })
      let expression := expression.replace [92, 124] [124]
      let string := pyNormalize c.rx expression
      do
        let alt ← match lookupAssoc c.oracle string.str with
          | some (some msg) => .error (.template "ExpressionError" msg.toString string)
          | some none =>
            match parsePExpr string.str with
            | some e => pure (PyAlt.expr e)
            | none => pure (PyAlt.nested (.unsupported "python outside the modelled subset") string)
          | none =>
            match parsePExpr string.str with
            | some e => pure (PyAlt.expr e)
            | none =>
              if definitelyInvalid string.str then .error (.template "ExpressionError" "?" string)
              else pure (PyAlt.nested (.unsupported "python text without oracle entry") string)
        let more ← compileAlts c f rest
        pure (alt :: more)
/-- `Interpolator.__call__`: scan `text` for `${…}` (and `$name` when braces are optional) -/
def compileInterp (c : TCfg) : Nat → Tok → Bool → Bool → CRes (List IPart)
  | 0, _, _, _ => pure [.expr (.unsupported "interpolation too long") default []]
  | f+1, text, required, decode =>
    if text.str.isEmpty then pure []
    else match bracesSearch c.rx required text.str with
      | none => pure [.lit (undoubleDollar text.str)]
      | some (mstart, _) =>
        let part := text.slice 0 (some mstart)
        let text' := text.slice mstart none
        let trailing := (part.str.reverse.takeWhile (· == 36)).length
        let litPart : List IPart := if part.str.isEmpty then [] else [.lit (undoubleDollar part.str)]
        if !part.str.isEmpty && trailing % 2 == 1 then do
          let rest ← compileInterp c f (text'.slice 1 none) required decode
          pure (litPart ++ rest)
        else do
          -- candidate loop on `matched` (the text before `part` was cut: positions are relative to it)
          let (ipart, mlen) ← candidate c f text mstart required decode (text.str.length + 1)
          let rest ← compileInterp c f (text'.slice mlen none) required decode
          pure (litPart ++ [ipart] ++ rest)
/-- the `while True` candidate loop; `matched` shrinks from the right at `}` -/
def candidate (c : TCfg) : Nat → Tok → Nat → Bool → Bool → Nat → CRes (IPart × Nat)
  | 0, _, _, _, _, _ => pure (.expr (.unsupported "nesting too deep") default [], 0)
  | _, _, _, _, _, 0 => pure (.expr (.unsupported "candidate loop") default [], 0)
  | f+1, matched, _, required, decode, k+1 =>
    match bracesSearch c.rx required matched.str with
    | none => .error (.crash "internal: candidate vanished")
    | some (ms, st) =>
      let groups := if required then c.rx.bracesReqGroups else c.rx.bracesOptGroups
      let g := tokGroup groups st matched
      let string : Tok := match g "expression" with
        | some e => if e.str.isEmpty then (match g "variable" with | some v => v | none => emptyTok 0) else e
        | none => (match g "variable" with | some v => v | none => emptyTok 0)
      let whole := (matched.str.drop ms).take (st.pos - ms)
      if string.str.isEmpty then pure (.lit whole, st.pos - ms)
      else
        let decoded : Option Tok := if decode then (decodeEntities c.rx string.str).map (fun s => { string with str := s })
                                    else some string
        match decoded with
        | none => pure (.expr (.unsupported "entity outside the model") string string.str, st.pos - ms)
        | some dtok =>
          match compileTales c f dtok with
          | .ok e => pure (.expr e dtok dtok.str, st.pos - ms)
          | .error (.template "ExpressionError" msg tok) =>
            let shorter := matched.slice ms (some (st.pos - 1))
            match bracesSearch c.rx required shorter.str with
            | none => .error (.template "ExpressionError" msg tok)
            | some _ => candidate c f shorter 0 required decode k
          | .error e => .error e
end

end ChamVerif

import ChamVerif.Lex
/-! `parser.py`: `match_tag`, `identify`, `ElementParser` (queue/index-stack algorithm,
namespace stack, `unpack_attributes`).  Outcomes distinguish template errors from crashes
(exceptions that are not `TemplateError`s). -/
namespace ChamVerif

/-- error outcomes of compilation -/
inductive CErr
  | template (cls : String) (msg : String) (tok : Tok)   -- a `TemplateError` subclass with its token
  | templateNoSrc (cls : String) (msg : String) (tok : Str)  -- … whose token is a plain str: `Token(str, 0)` without source
  | crash (cls : String)                                  -- any other exception class
  deriving Repr, DecidableEq, Inhabited

abbrev CRes (α : Type) := Except CErr α

/-- the regexes (and their named groups) the lexer/parser use: `Rx.live` is regenerated from /repo
on every run, `Rx.baseline` is the frozen copy taken from the unchanged tree (used only to decide
whether a failing case is an instance of a *recorded* known finding). -/
structure Rx where
  xmlSpe : Re
  tagPrefixName : Re
  singleAttr : Re
  pi : Re
  doubleHyphen : Re
  tagGroups : List (String × Nat)
  attrGroups : List (String × Nat)
  piGroups : List (String × Nat)
  defineRe : Re
  substRe : Re
  attrRe : Re
  entityRe : Re
  entity2Re : Re
  bracesReq : Re
  bracesOpt : Re
  bracesReqGroups : List (String × Nat)
  bracesOptGroups : List (String × Nat)
  pipeSplit : Re
  matchPrefix : Re
  continuation : Re
  i18nInterp : Re
  reTrim : Re
  reName : Re

def Rx.live : Rx :=
  { xmlSpe := Gen.XML_SPE, tagPrefixName := Gen.TAG_PREFIX_NAME, singleAttr := Gen.SINGLE_ATTR, pi := Gen.PI,
    doubleHyphen := Gen.DOUBLE_HYPHEN, tagGroups := Gen.TAG_PREFIX_NAME_groups,
    attrGroups := Gen.SINGLE_ATTR_groups, piGroups := Gen.PI_groups,
    defineRe := Gen.DEFINE_RE, substRe := Gen.SUBST_RE, attrRe := Gen.ATTR_RE, entityRe := Gen.ENTITY_RE,
    entity2Re := Gen.ENTITY2_RE, bracesReq := Gen.BRACES_REQ, bracesOpt := Gen.BRACES_OPT,
    bracesReqGroups := Gen.BRACES_REQ_groups, bracesOptGroups := Gen.BRACES_OPT_groups,
    pipeSplit := Gen.PIPE_SPLIT, matchPrefix := Gen.MATCH_PREFIX, continuation := Gen.CONTINUATION,
    i18nInterp := Gen.I18N_INTERP, reTrim := Gen.RE_TRIM, reName := Gen.RE_NAME }

def grpSpan (groups : List (String × Nat)) (st : St) (name : String) : Option (Nat × Nat) :=
  match groups.find? (·.1 == name) with
  | none => none
  | some (_, i) => match st.caps.find? (·.1 == i) with
    | some (_, a, b) => some (a, b)
    | none => none

/-- `groupdict(m, token)[name]` -/
def tokGroup (groups : List (String × Nat)) (st : St) (t : Tok) (name : String) : Option Tok :=
  (grpSpan groups st name).map (fun (a, b) => t.slice a (some b))

/-- `groups(m, token)[i-1]` -/
def tokGroupIdx (st : St) (t : Tok) (i : Nat) : Option Tok :=
  match st.caps.find? (·.1 == i) with
  | some (_, a, b) => some (t.slice a (some b))
  | none => none

structure Attr where
  space : Tok
  name : Tok
  eq : Tok
  quote : Tok
  value : Tok
  deriving Repr, DecidableEq, Inhabited

structure Tag where
  pfx : Tok
  name : Tok
  suffix : Option Tok
  space : Option Tok
  attrs : List Attr
  /-- (start, end) of every attribute match inside the remainder, for `DissectOK` -/
  spans : List (Nat × Nat)
  restLen : Nat
  deriving Repr, DecidableEq, Inhabited

def emptyTok (pos : Nat) : Tok := { str := [], pos := pos }

def mkAttr (rx : Rx) (rest : Tok) (st : St) : Attr :=
  let g := tokGroup rx.attrGroups st rest
  let space := (g "space").getD (emptyTok 0)
  let name := (g "name").getD (emptyTok 0)
  match g "alt_value" with
  | some v => { space, name, eq := (g "eq").getD (emptyTok 0), quote := emptyTok 0, value := v }
  | none =>
    match g "simple_value" with
    | some _ => { space, name, eq := emptyTok 0, quote := emptyTok 0, value := emptyTok 0 }
    | none => { space, name, eq := (g "eq").getD (emptyTok 0), quote := (g "quote").getD (emptyTok 0),
                value := (g "value").getD (emptyTok 0) }

/-- `match_tag(token)`; `none` = the prefix/name regex did not match (`AttributeError` in the code) -/
def matchTagWith (rx : Rx) (t : Tok) : Option Tag :=
  match matchAt Gen.uni t.str.toArray rx.tagPrefixName 0 with
  | none => none
  | some st =>
    let g := tokGroup rx.tagGroups st t
    let rest := t.slice st.pos none
    let ms := finditer Gen.uni rest.str.toArray rx.singleAttr
    let attrs := ms.map (fun (_, sa) => mkAttr rx rest sa)
    let suffix := match ms.getLast? with
      | some (_, sa) => some (rest.slice sa.pos none)
      | none => g "suffix"
    some { pfx := (g "prefix").getD (emptyTok t.pos), name := (g "name").getD (emptyTok t.pos),
           suffix := suffix, space := g "space", attrs := attrs,
           spans := ms.map (fun (a, sa) => (a, sa.pos)), restLen := rest.str.length }

def matchTag (t : Tok) : Option Tag := matchTagWith Rx.live t

def Attr.text (a : Attr) : Str := a.space.str ++ a.name.str ++ a.eq.str ++ a.quote.str ++ a.value.str ++ a.quote.str

/-- what the emitters concatenate for an unmarked start tag -/
def Tag.reassemble (g : Tag) : Str :=
  g.pfx.str ++ g.name.str ++ (g.attrs.map Attr.text).flatten ++ (g.suffix.map (·.str)).getD []

/-- the end-tag emitter; `spaceTwice` is the code's behaviour D-03a -/
def Tag.reassembleEnd (spaceTwice : Bool) (g : Tag) : Str :=
  g.pfx.str ++ g.name.str ++ (if spaceTwice then (g.space.map (·.str)).getD [] else []) ++ (g.suffix.map (·.str)).getD []

/-- the pieces of a tag in emission order (the closing quote is the opening one, re-used) -/
def Attr.pieces (a : Attr) : List Tok :=
  [a.space, a.name, a.eq, a.quote, a.value, { str := a.quote.str, pos := a.value.pos + a.value.str.length }]

def Tag.pieces (g : Tag) : List Tok :=
  [g.pfx, g.name] ++ (g.attrs.map Attr.pieces).flatten ++ (match g.suffix with | some s => [s] | none => [])

/-- `x` is the slice of `t`'s source text at `x.pos` -/
def anchoredIn (t x : Tok) : Bool :=
  x.str.isEmpty || (t.pos ≤ x.pos && (t.str.drop (x.pos - t.pos)).take x.str.length == x.str)

/-- non-empty pieces follow each other without gaps; returns the position after the last one -/
def contigE (p : Nat) : List Tok → Option Nat
  | [] => some p
  | x :: xs => if x.str.isEmpty then contigE p xs else if x.pos = p then contigE (p + x.str.length) xs else none

/-- decidable: the dissection of `t` into prefix, name, attributes and suffix loses nothing -/
def Tag.dissectOK (t : Tok) (g : Tag) : Bool :=
  g.suffix.isSome && g.pieces.all (anchoredIn t) && contigE t.pos g.pieces == some (t.pos + t.str.length)

def startsWith (s p : Str) : Bool := p.isPrefixOf s
def endsWith (s p : Str) : Bool := p.reverse.isPrefixOf s.reverse

inductive Kind | text | comment | cdata | declaration | xmlDecl | pi | endTag | emptyTag | startTag | error
  deriving Repr, DecidableEq, Inhabited

def lit (s : String) : Str := Str.ofString s

/-- `identify(string)` -/
def identify (rx : Rx) (t : Tok) : CRes Kind :=
  let s := t.str
  if startsWith s (lit "<") then
    if startsWith s (lit "<!--") then
      let body := s.drop 4
      match search Gen.uni body.toArray rx.doubleHyphen with
      | some (a, st) => .error (.template "ParseError" "The string '--' is not allowed in a comment."
          { str := (body.drop a).take (st.pos - a), pos := t.pos + 4 + a })
      | none => .ok .comment
    else if startsWith s (lit "<![CDATA[") then .ok .cdata
    else if startsWith s (lit "<!") then .ok .declaration
    else if startsWith s (lit "<?xml") then .ok .xmlDecl
    else if startsWith s (lit "<?") then .ok .pi
    else if startsWith s (lit "</") then .ok .endTag
    else if endsWith s (lit "/>") then .ok .emptyTag
    else if endsWith s (lit ">") then .ok .startTag
    else .ok .error
  else .ok .text

/-- namespace map: prefix (`none` = default) ↦ URI -/
abbrev NsMap := List (Option Str × Str)

def NsMap.get (m : NsMap) (k : Option Str) : Option Str := (m.find? (·.1 == k)).map (·.2)
def NsMap.set (m : NsMap) (k : Option Str) (v : Str) : NsMap :=
  if m.any (·.1 == k) then m.map (fun e => if e.1 == k then (k, v) else e) else m ++ [(k, v)]

def XML_NS : Str := lit "http://www.w3.org/XML/1998/namespace"
def XMLNS_NS : Str := lit "http://www.w3.org/2000/xmlns/"

structure Elem where
  tag : Tag
  ns : Str                       -- node['namespace']
  nsAttrs : List ((Str × Str) × Tok)   -- OrderedDict[(ns, name)] = value (later duplicates overwrite in place)
  nsNames : List ((Str × Str) × Tok)   -- the key objects: the local-name *tokens* (first occurrence, as a dict keeps its first key)
  nsMap : NsMap
  deriving Repr, Inhabited

def splitColon (name : Str) : Option (Str × Str) :=
  if name.contains 58 then
    let pfx := name.takeWhile (· != 58)
    some (pfx, name.drop (pfx.length + 1))
  else none

def updateNamespace (attrs : List Attr) (m : NsMap) : NsMap :=
  attrs.foldl (fun m a =>
    if a.name.str = lit "xmlns" then m.set none a.value.str
    else if startsWith a.name.str (lit "xmlns:") then m.set (some (a.name.str.drop 6)) a.value.str
    else m) m

def odSet (d : List ((Str × Str) × Tok)) (k : Str × Str) (v : Tok) : List ((Str × Str) × Tok) :=
  if d.any (·.1 == k) then d.map (fun e => if e.1 == k then (k, v) else e) else d ++ [(k, v)]

def unpackStep (m : NsMap) (default : Str) (restricted : Bool) (d : List ((Str × Str) × Tok)) (a : Attr) :
    CRes (List ((Str × Str) × Tok)) :=
  match splitColon a.name.str with
  | some (pfx, local_) =>
    match m.get (some pfx) with
    | some ns => pure (odSet d (ns, local_) a.value)
    | none => if restricted then .error (.crash "KeyError") else pure (odSet d (default, local_) a.value)
  | none => pure (odSet d (default, a.name.str) a.value)

def unpackAttributes (attrs : List Attr) (m : NsMap) (default : Str) (restricted : Bool) :
    CRes (List ((Str × Str) × Tok)) :=
  attrs.foldlM (unpackStep m default restricted) []

/-- `attribute['namespace']` as `unpack_attributes` records it on the attribute itself -/
def attrNamespace (m : NsMap) (default : Str) (a : Attr) : Str :=
  match splitColon a.name.str with
  | some (pfx, _) => (m.get (some pfx)).getD default
  | none => default

/-- the local-name token of each attribute, keyed like `unpack_attributes` keys them -/
def unpackNames (attrs : List Attr) (m : NsMap) (default : Str) : List ((Str × Str) × Tok) :=
  attrs.foldl (fun d a =>
    let (key, tok) : (Str × Str) × Tok := match splitColon a.name.str with
      | some (pfx, local_) =>
        let ns := (m.get (some pfx)).getD default
        ((ns, local_), a.name.slice (pfx.length + 1) none)
      | none => ((default, a.name.str), a.name)
    if d.any (·.1 == key) then d else d ++ [(key, tok)]) []

/-- `parse_tag(token, namespace, restricted)`; returns the element record and the updated namespace map -/
def parseTag (rx : Rx) (t : Tok) (m : NsMap) (restricted : Bool) : CRes (Elem × NsMap) :=
  match matchTagWith rx t with
  | none => .error (.crash "AttributeError")
  | some g => do
    let m' := updateNamespace g.attrs m
    let pfx : Option Str := (splitColon g.name.str).map (·.1)
    let default := (m'.get pfx).getD XML_NS
    let nsAttrs ← unpackAttributes g.attrs m' default restricted
    pure ({ tag := g, ns := default, nsAttrs := nsAttrs, nsNames := unpackNames g.attrs m' default, nsMap := m' }, m')

inductive Item
  | text (t : Tok)
  | comment (t : Tok)
  | cdata (t : Tok)
  | dflt (t : Tok)
  | pi (name text : Tok)
  | startTag (e : Elem)
  | element (start : Elem) (end_ : Option Elem) (children : List Item)
  deriving Repr, Inhabited

structure PState where
  queue : Array Item
  index : List (Str × Nat)
  namespaces : List NsMap     -- stack, top first
  deriving Inhabited

def popIndex (name : Str) : List (Str × Nat) → Option (Nat × List (Str × Nat))
  | [] => none
  | (n, pos) :: rest => if n = name then some (pos, rest) else popIndex name rest

def parseToken (rx : Rx) (restricted : Bool) (ps : PState) (t : Tok) : CRes PState := do
  let kind ← identify rx t
  let push (it : Item) : PState := { ps with queue := ps.queue.push it }
  match kind with
  | .comment => pure (push (.comment t))
  | .cdata => pure (push (.cdata t))
  | .text => pure (push (.text t))
  | .declaration | .error => pure (push (.dflt t))
  | .pi =>
    match matchAt Gen.uni t.str.toArray rx.pi 0 with
    | none => pure (push (.dflt t))
    | some st =>
      let g := tokGroup rx.piGroups st t
      pure (push (.pi ((g "name").getD (emptyTok 0)) ((g "text").getD (emptyTok 0))))
  | .startTag =>
    let top := ps.namespaces.headD []
    let (e, m') ← parseTag rx t top restricted
    pure { queue := ps.queue.push (.startTag e), index := (e.tag.name.str, ps.queue.size) :: ps.index,
           namespaces := m' :: ps.namespaces }
  | .endTag =>
    match ps.namespaces with
    | [] => .error (.template "ParseError" "Unexpected end tag." t)
    | top :: restNs =>
      let (e, _) ← parseTag rx t top restricted
      match popIndex e.tag.name.str ps.index with
      | none => .error (.template "ParseError" "Unexpected end tag." t)
      | some (pos, idx') =>
        match ps.queue[pos]? with
        | some (.startTag s) =>
          let children := (ps.queue.toList.drop (pos + 1))
          pure { queue := (ps.queue.take pos).push (.element s (some e) children), index := idx', namespaces := restNs }
        | _ => .error (.crash "ValueError")
  | .emptyTag | .xmlDecl =>
    let top := ps.namespaces.headD []
    let (e, _) ← parseTag rx t top restricted
    pure (push (.element e none []))

def defaultNamespaces : NsMap := [
  (some (lit "xmlns"), XMLNS_NS), (some (lit "xml"), XML_NS),
  (some (lit "tal"), lit "http://xml.zope.org/namespaces/tal"),
  (some (lit "metal"), lit "http://xml.zope.org/namespaces/metal"),
  (some (lit "i18n"), lit "http://xml.zope.org/namespaces/i18n"),
  (some (lit "meta"), lit "http://xml.zope.org/namespaces/meta")]

/-- `ElementParser(tokens, DEFAULT_NAMESPACES, restricted).__iter__()` -/
def parseTokens (rx : Rx) (restricted : Bool) (toks : List Tok) : CRes (List Item) := do
  let ps ← toks.foldlM (parseToken rx restricted) { queue := #[], index := [], namespaces := [defaultNamespaces] }
  pure ps.queue.toList

end ChamVerif

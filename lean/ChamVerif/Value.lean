import ChamVerif.Lex
import ChamVerif.Parse
/-! Values a template variable can hold in the model (the harness builds the real Python
object from the same JSON description), exceptions, and the Python-level operations on them
that the modelled expression subset needs.  Anything else is `unsupported`: the model never
guesses. -/
namespace ChamVerif

inductive Val
  | none
  | dflt                         -- the `default` marker
  | bool (b : Bool)
  | int (i : Int)
  | str (s : Str)
  | bytes (s : Str)              -- utf-8 decodable bytes, held as their decoded text
  | list (vs : List Val)
  | tuple (vs : List Val)
  | dict (kvs : List (Val × Val))
  | obj (id : Nat)               -- user object: row `id` of the object table
  | markup (s : Str)             -- `utils.Markup`
  | cint (i : Int)               -- `callableint` (repeat attributes)
  | cstr (s : Str)               -- `callablestr`
  | repeatDict
  | repeatItem (key : Str)
  | errorInfo (cls : String) (value : Str) (pos : Option (Nat × Nat))   -- (line, column); `none`: position unknown
  | excClass (name : String)
  | excValue (cls : String) (msg : Str)
  | fn (name : String)           -- builtin / harness callables: R, len, str, int, bool
  | macros (tid : Nat)           -- `template.macros` of template `tid` (0 = the template being rendered, k > 0 = library k)
  | template_ (tid : Nat)
  | macro (tid : Nat) (name : Option Str)   -- a macro of template `tid`; `none`: the whole template used as a macro
  | slots (id : Nat)             -- a deque of slot fillers (by reference: row `id` of the heap)
  deriving Repr, Inhabited, BEq

/-- a user object (or message object) as the harness builds it -/
structure ObjSpec where
  strForm : Str
  truthy : Bool := true
  html : Option Str := none
  attrs : List (Str × Val) := []
  items : List (Val × Val) := []
  hasGetitem : Bool := false
  /-- what `translate(obj)` returns: `none` = the object itself -/
  translation : Option (Option Str) := none
  deriving Repr, Inhabited

abbrev ObjTab := List ObjSpec

/-- a raised Python exception: class name and `str(exc)` -/
structure Exc where
  cls : String
  msg : Str
  deriving Repr, Inhabited, BEq, DecidableEq

/-- results of evaluation: a value, a Python exception, or "outside the modelled subset" -/
inductive R (α : Type)
  | ok (a : α)
  | raised (e : Exc)
  | unsupported (why : String)
  deriving Repr, Inhabited

instance : Monad R where
  pure := .ok
  bind x f := match x with
    | .ok a => f a
    | .raised e => .raised e
    | .unsupported w => .unsupported w

def raise {α} (cls : String) (msg : String) : R α := .raised { cls := cls, msg := Str.ofString msg }
def raiseS {α} (cls : String) (msg : Str) : R α := .raised { cls := cls, msg := msg }

def natToStr (n : Nat) : Str := Str.ofString (toString n)
def intToStr (i : Int) : Str := Str.ofString (toString i)

namespace Val

def typeName : Val → String
  | .none => "NoneType" | .dflt => "Symbol" | .bool _ => "bool" | .int _ => "int" | .str _ => "str"
  | .bytes _ => "bytes" | .list _ => "list" | .tuple _ => "tuple" | .dict _ => "dict" | .obj _ => "Obj"
  | .markup _ => "Markup" | .cint _ => "callableint" | .cstr _ => "callablestr" | .repeatDict => "RepeatDict"
  | .repeatItem _ => "RepeatItem" | .errorInfo .. => "ErrorInfo" | .excClass _ => "type"
  | .excValue c _ => c | .fn _ => "function" | .macros _ => "Macros" | .template_ _ => "PageTemplate" | .macro _ _ => "Macro" | .slots _ => "deque"

/-- `bool(v)` -/
def truthy (tab : ObjTab) : Val → R Bool
  | .none => pure false
  | .dflt => pure true
  | .bool b => pure b
  | .int i | .cint i => pure (i != 0)
  | .str s | .bytes s | .markup s | .cstr s => pure (!s.isEmpty)
  | .list vs | .tuple vs => pure (!vs.isEmpty)
  | .dict kvs => pure (!kvs.isEmpty)
  | .obj id => match tab[id]? with
    | some o => pure o.truthy
    | Option.none => .unsupported "unknown object"
  | _ => pure true

def quoteStrLit (s : Str) : Str :=
  -- repr() of a str: single quotes unless the text contains ' and no "
  let q : Nat := if s.contains 39 && !s.contains 34 then 34 else 39
  let body := s.flatMap (fun c =>
    if c == 92 then [92, 92] else if c == q then [92, q] else if c == 10 then [92, 110]
    else if c == 13 then [92, 114] else if c == 9 then [92, 116] else [c])
  [q] ++ body ++ [q]

/-- plain ASCII/printable check so that `repr` never has to guess `\x..` escapes -/
def reprSafe (s : Str) : Bool := s.all (fun c => (32 ≤ c && c < 127) || c == 10 || c == 13 || c == 9 || (160 < c && c < 0xD800 && c != 173))

mutual
/-- `repr(v)` where the model knows it -/
def repr (tab : ObjTab) : Val → R Str
  | .none => pure (lit "None")
  | .bool b => pure (lit (if b then "True" else "False"))
  | .int i | .cint i => pure (intToStr i)
  | .str s | .cstr s => if reprSafe s then pure (quoteStrLit s) else .unsupported "repr of non-printable"
  | .list vs => do
    let xs ← reprList tab vs
    pure (lit "[" ++ xs ++ lit "]")
  | .tuple vs => do
    let xs ← reprList tab vs
    match vs with
    | [_] => pure (lit "(" ++ xs ++ lit ",)")
    | _ => pure (lit "(" ++ xs ++ lit ")")
  | .dict kvs => do
    let xs ← reprPairs tab kvs
    pure (lit "{" ++ xs ++ lit "}")
  | _ => .unsupported "repr"
def reprList (tab : ObjTab) : List Val → R Str
  | [] => pure []
  | [v] => repr tab v
  | v :: vs => do
    let a ← repr tab v
    let b ← reprList tab vs
    pure (a ++ lit ", " ++ b)
def reprPairs (tab : ObjTab) : List (Val × Val) → R Str
  | [] => pure []
  | [(k, v)] => do
    let a ← repr tab k
    let b ← repr tab v
    pure (a ++ lit ": " ++ b)
  | (k, v) :: rest => do
    let a ← repr tab k
    let b ← repr tab v
    let c ← reprPairs tab rest
    pure (a ++ lit ": " ++ b ++ lit ", " ++ c)
end

/-- `str(v)` -/
def strOf (tab : ObjTab) : Val → R Str
  | .none => pure (lit "None")
  | .bool b => pure (lit (if b then "True" else "False"))
  | .int i | .cint i => pure (intToStr i)
  | .str s | .markup s | .cstr s => pure s
  | .obj id => match tab[id]? with
    | some o => pure o.strForm
    | Option.none => .unsupported "unknown object"
  | .excValue _ m => pure m
  | .excClass c => pure (lit "<class '" ++ lit c ++ lit "'>")
  | v@(.list _) | v@(.tuple _) | v@(.dict _) => repr tab v
  | _ => .unsupported "str() of this value"

def isPlain : Val → Bool
  | .none | .dflt | .bool _ | .int _ | .str _ | .bytes _ | .list _ | .tuple _ | .obj _ | .markup _
  | .cint _ | .cstr _ | .dict _ | .excClass _ => true
  | _ => false

mutual
/-- `a == b` (Python equality on the modelled classes) -/
def pyEq : Val → Val → R Bool
  | .none, .none => pure true
  | .dflt, .dflt => pure true
  | .bool a, .bool b => pure (a == b)
  | .bool a, .int b | .int b, .bool a | .bool a, .cint b | .cint b, .bool a => pure ((if a then 1 else 0) == b)
  | .int a, .int b | .cint a, .int b | .int a, .cint b | .cint a, .cint b => pure (a == b)
  | .str a, .str b | .cstr a, .str b | .str a, .cstr b | .cstr a, .cstr b => pure (a == b)
  | .markup a, .str b | .str a, .markup b | .markup a, .markup b => pure (a == b)
  | .bytes a, .bytes b => pure (a == b)
  | .obj a, .obj b => pure (a == b)
  | .list a, .list b => pyEqList a b
  | .tuple a, .tuple b => pyEqList a b
  | .dict _, .dict _ => .unsupported "dict equality"
  | .excClass a, .excClass b => pure (a == b)
  | .repeatDict, .repeatDict => pure true
  | a, b => if isPlain a && isPlain b then pure false else .unsupported "equality"
def pyEqList : List Val → List Val → R Bool
  | [], [] => pure true
  | x :: xs, y :: ys => do
    let e ← pyEq x y
    if e then pyEqList xs ys else pure false
  | _, _ => pure false
end

/-- `a is b` for the cases templates use (None, default, booleans, small identity checks) -/
def pyIs : Val → Val → R Bool
  | .none, .none => pure true
  | .dflt, .dflt => pure true
  | .bool a, .bool b => pure (a == b)
  | .obj a, .obj b => pure (a == b)
  | .none, _ | _, .none | .dflt, _ | _, .dflt => pure false
  | .bool _, _ | _, .bool _ => pure false
  -- CPython's small-integer cache: one object per value in [-5, 256]
  | .int a, .int b => if -5 ≤ a && a ≤ 256 && -5 ≤ b && b ≤ 256 then pure (a == b) else .unsupported "identity of values"
  | .int _, .str _ | .str _, .int _ | .int _, .list _ | .list _, .int _ | .int _, .tuple _ | .tuple _, .int _
  | .int _, .dict _ | .dict _, .int _ | .int _, .obj _ | .obj _, .int _ | .str _, .obj _ | .obj _, .str _
  | .str _, .list _ | .list _, .str _ | .str _, .tuple _ | .tuple _, .str _ | .str _, .dict _ | .dict _, .str _
  | .list _, .tuple _ | .tuple _, .list _ | .list _, .dict _ | .dict _, .list _ | .tuple _, .dict _ | .dict _, .tuple _
  | .list _, .obj _ | .obj _, .list _ | .tuple _, .obj _ | .obj _, .tuple _ | .dict _, .obj _ | .obj _, .dict _ => pure false
  | _, _ => .unsupported "identity of values"

end Val
end ChamVerif

import ChamVerif.Parse
import ChamVerif.Quirks
/-! `tal.py` / `i18n.py` clause parsers: `split_parts`, `parse_defines`, `parse_attributes`,
`parse_substitution`, `prepare_attributes`, `i18n.parse_attributes` — with `Token` positions. -/
namespace ChamVerif

/-- `str.replace(old, new)` for arbitrary non-empty `old` -/
def replaceAll (old new : Str) : Nat → Str → Str
  | 0, s => s
  | _, [] => []
  | f+1, c :: r =>
    if old.isPrefixOf (c :: r) && !old.isEmpty then new ++ replaceAll old new f ((c :: r).drop old.length)
    else c :: replaceAll old new f r

def Tok.replace (old new : Str) (t : Tok) : Tok := { t with str := replaceAll old new (t.str.length + 1) t.str }

/-- the entity loop of `split_parts`: an extra `;` after every entity -/
def insertSemis (rx : Rx) : Nat → Str → Nat → Str
  | 0, s, _ => s
  | f+1, s, i =>
    if i < s.length then
      match search Gen.uni (s.drop i).toArray rx.entityRe with
      | none => s
      | some (_, st) =>
        let e := i + st.pos
        insertSemis rx f (s.take e ++ [59] ++ s.drop e) e
    else s

/-- `split_parts(arg)` -/
def splitParts (rx : Rx) (q : Quirks) (arg : Tok) : List Tok :=
  let s1 := insertSemis rx (arg.str.length + 1) arg.str 0
  let a : Tok := { arg with str := s1 }
  let a := a.replace [59, 59] [0]
  let parts := (Tok.split (!q.splitIgnoresSep) 59 a).map (Tok.replace [0] [59])
  match parts.getLast? with
  | some l => if parts.length > 1 && (Tok.strip l).str.isEmpty then parts.dropLast else parts
  | none => parts

inductive DefCtx | local_ | global
  deriving Repr, DecidableEq, Inhabited

structure DefineSpec where
  ctx : DefCtx
  names : List Tok
  expr : Tok
  deriving Repr, Inhabited

def mkErr {α} (cls msg : String) (t : Tok) : CRes α := .error (.template cls msg t)

/-- `parse_defines(clause)` -/
def parseDefines (rx : Rx) (q : Quirks) (clause : Tok) : CRes (List DefineSpec) :=
  (splitParts rx q clause).mapM (fun part =>
    match matchAt Gen.uni part.str.toArray rx.defineRe 0 with
    | none => mkErr "LanguageError" "Invalid define syntax" part
    | some st =>
      let ctxTok := tokGroupIdx st part 1
      let name := (tokGroupIdx st part 2).getD (emptyTok 0)
      let expr := (tokGroupIdx st part 3).getD (emptyTok 0)
      let ctx := match ctxTok with
        | some c => if c.str = lit "global" then DefCtx.global else DefCtx.local_
        | none => DefCtx.local_
      let names :=
        if startsWith name.str (lit "(") then
          (Tok.split (!q.splitIgnoresSep) 44 (Tok.stripChars (lit "()") name)).map Tok.strip
        else [name]
      pure { ctx := ctx, names := names, expr := expr })

/-- `parse_attributes(clause)` → (name?, expr) -/
def parseAttributes (rx : Rx) (q : Quirks) (clause : Tok) : CRes (List (Option Tok × Tok)) := do
  let step (acc : List (Option Tok × Tok) × List (Option Str)) (part : Tok) :
      CRes (List (Option Tok × Tok) × List (Option Str)) :=
    let (name, expr) : Option Tok × Tok :=
      match matchAt Gen.uni part.str.toArray rx.attrRe 0 with
      | none => (none, Tok.strip part)
      | some st => (tokGroupIdx st part 1, (tokGroupIdx st part 2).getD (emptyTok 0))
    let key := name.map (·.str)
    if acc.2.contains key then mkErr "LanguageError" "Duplicate attribute name in attributes." part
    else pure (acc.1 ++ [(name, expr)], key :: acc.2)
  let r ← (splitParts rx q clause).foldlM step ([], [])
  pure r.1

/-- `parse_substitution(clause)` → (key, expression) -/
def parseSubstitution (rx : Rx) (clause : Tok) : CRes (Bool × Tok) :=
  match matchAt Gen.uni clause.str.toArray rx.substRe 0 with
  | none => mkErr "LanguageError" "Invalid content substitution syntax." clause
  | some st =>
    let key := tokGroupIdx st clause 1
    let expr := (tokGroupIdx st clause 2).getD (emptyTok 0)
    let isStruct := match key with | some k => k.str = lit "structure" | none => false
    pure (isStruct, expr)

/-- `str.split()` (whitespace) as a list of (part, cumulative-length position) like `Token.split(None)` -/
def splitWs (s : Str) : List Str :=
  let rec go : Nat → Str → Str → List Str → List Str
    | 0, _, _, acc => acc.reverse
    | _+1, [], cur, acc => (if cur.isEmpty then acc else cur.reverse :: acc).reverse
    | f+1, c :: r, cur, acc =>
      if Tok.isWs c then go f r [] (if cur.isEmpty then acc else cur.reverse :: acc)
      else go f r (c :: cur) acc
  go (s.length + 1) s [] []

/-- `i18n.parse_attributes(attrs)` → ordered (attribute, msgid?) -/
def i18nParseAttributes (q : Quirks) (attrs : Tok) : CRes (List (Str × Option Str)) := do
  let specs := (Tok.split (!q.splitIgnoresSep) 59 attrs).filter (fun t => !t.str.isEmpty)
  specs.foldlM (fun (d : List (Str × Option Str)) spec => do
    if spec.str.contains 44 then
      mkErr "CompilationError" "Attribute must not contain comma. Use semicolon to list multiple attributes" spec
    else
      let parts := Tok.splitParts 0 spec.pos (splitWs spec.str)
      let (attr, msgid) ← match parts with
        | [a, m] => pure (a, some m.str)
        | [a] => pure (a, none)
        | _ => mkErr "CompilationError" "Illegal i18n:attributes specification." spec
      let attr := Tok.strip attr
      if d.any (·.1 == attr.str) then
        mkErr "CompilationError" "Attribute may only be specified once in i18n:attributes" attr
      else pure (d ++ [(attr.str, msgid)])) []

/-- one entry of `prepare_attributes`' result: (name, text, quote, space, eq, expr) -/
structure PAttr where
  name : Option Str
  text : Option Tok
  quote : Str
  space : Str
  eq : Str
  expr : Option Tok
  deriving Repr, Inhabited, DecidableEq

def lowerStr (s : Str) : Str := s.map (fun c => if 65 ≤ c && c ≤ 90 then c + 32 else c)

/-- Python list indexing with a possibly negative index -/
def pyIndex (len : Nat) (i : Int) : Option Nat :=
  let j := if i < 0 then i + len else i
  if 0 ≤ j && j < len then some j.toNat else none

/-- `prepare_attributes(attrs, dyn_attributes, i18n_attributes, ns_attributes, drop_ns)`.
Attribute names are compared after ASCII lowering (the generators keep case games ASCII). -/
def isDropped (dropNs : List Str) (ns : Str) (value : Str) : Bool :=
  dropNs.contains ns || (ns == XMLNS_NS && dropNs.contains value)

/-- the names `prepare_attributes` drops: those of the attributes whose resolved namespace (`nsOf`, recorded by the
parser on each attribute) is a language namespace, or that declare one (`xmlns:p="<language uri>"`).
Before the D-18a fix the namespace was taken from `ns_attrs.items()` paired *by position*. -/
def dropNames (q : Quirks) (attrs : List Attr) (nsOf : Attr → Str) (nsAttrs : List ((Str × Str) × Tok)) (dropNs : List Str) : List Str :=
  if q.zipPairing then
    ((attrs.zip nsAttrs).filter (fun (a, ((ns, _), _)) => isDropped dropNs ns a.value.str)).map (fun (a, _) => a.name.str)
  else (attrs.filter (fun a => isDropped dropNs (nsOf a) a.value.str)).map (·.name.str)

def prepareAttributes (q : Quirks) (attrs : List Attr) (dyn : List (Option Tok × Tok))
    (i18nAttrs : List (Str × Option Str)) (nsOf : Attr → Str) (nsAttrs : List ((Str × Str) × Tok)) (dropNs : List Str) :
    Option (List PAttr) :=
  let drop : List Str := dropNames q attrs nsOf nsAttrs dropNs
  let init : List PAttr × List (Str × Int) := attrs.foldl (fun (acc : List PAttr × List (Str × Int)) a =>
    if drop.contains a.name.str then acc else
      let pa : PAttr := ⟨some a.name.str, some a.value, a.quote.str, a.space.str, a.eq.str, none⟩
      let l := acc.1 ++ [pa]
      (l, (lowerStr a.name.str, (l.length : Int) - 1) :: acc.2.filter (·.1 != lowerStr a.name.str))) ([], [])
  let afterDyn : Option (List PAttr × List (Str × Int)) :=
    dyn.foldlM (fun (acc : List PAttr × List (Str × Int)) (name, expr) =>
    let idx : Option Int := match name with
      | some n => if n.str.isEmpty then none else lookupNorm acc.2 (lowerStr n.str)
      | none => none
    match idx with
    | some i =>
      -- attributes[index] with Python index semantics; out of range = IndexError (not modelled)
      match pyIndex acc.1.length i with
      | none => none
      | some k =>
        let old := acc.1.getD k default
        let pa : PAttr := ⟨name.map (·.str), old.text, old.quote, old.space, old.eq, some expr⟩
        some (acc.1.set k pa, acc.2)
    | none =>
      let index : Int := acc.1.length
      let norm := match name with
        | some n => (lowerStr n.str, if q.attrIndexOffByOne then index - 1 else index) ::
                      acc.2.filter (·.1 != lowerStr n.str)
        | none => acc.2
      let pa : PAttr := ⟨name.map (·.str), none, [34], [32], [61], some expr⟩
      some (acc.1 ++ [pa], norm)) init
  afterDyn.map (fun ad =>
    (i18nAttrs.foldl (fun (acc : List PAttr × List (Str × Int)) (name, _) =>
      let a := lowerStr name
      if (lookupNorm acc.2 a).isSome then acc else
        let pa : PAttr := ⟨some name, some { str := name, pos := 0 }, [34], [32], [61], none⟩
        let l := acc.1 ++ [pa]
        (l, (a, (l.length : Int) - 1) :: acc.2)) ad).1)
where
  lookupNorm (m : List (Str × Int)) (k : Str) : Option Int := (m.find? (·.1 == k)).map (·.2)

end ChamVerif

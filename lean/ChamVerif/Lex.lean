import ChamVerif.Re
import ChamVerif.Gen.Regexes
/-! `tokenize.py`: `iter_xml`, `iter_text` and the position algebra of `Token`.
Strings are lists of code points (Python `str` indexing). -/
namespace ChamVerif

abbrev Str := List Nat

def Str.ofString (s : String) : Str := s.toList.map Char.toNat
def Str.toString (s : Str) : String := String.ofList (s.map Char.ofNat)

/-- `Token(string, pos, source)`; the source is kept outside (it never changes). -/
structure Tok where
  str : Str
  pos : Nat
  deriving Repr, DecidableEq, Inhabited

/-- `source[t.pos : t.pos + len(t)] == t` -/
def Anchored (src : Str) (t : Tok) : Prop := (src.drop t.pos).take t.str.length = t.str

instance (src : Str) (t : Tok) : Decidable (Anchored src t) := by unfold Anchored; infer_instance

/-- slice of an array as a list -/
def subStr (s : Array Nat) (a b : Nat) : Str := (s.toList.drop a).take (b - a)

/-- `iter_xml`: one token per `finditer` match of the tokenizer regex. -/
def iterXmlWith (r : Re) (s : Str) : List Tok :=
  let a := s.toArray
  (finditer Gen.uni a r).map (fun (i, st) => { str := subStr a i st.pos, pos := i })

def iterXml (s : Str) : List Tok := iterXmlWith Gen.XML_SPE s

/-- `iter_text` -/
def iterText (s : Str) : List Tok := [{ str := s, pos := 0 }]

/-- `str.replace('$$', '$')` -/
def undoubleDollar : Str → Str
  | 36 :: 36 :: r => 36 :: undoubleDollar r
  | c :: r => c :: undoubleDollar r
  | [] => []

/-- `'${' in s` -/
def hasInterp : Str → Bool
  | [] => false
  | 36 :: 123 :: _ => true
  | _ :: r => hasInterp r

namespace Tok

/-- `token[a:b]` for non-negative `a`, `b` (`b = none` ↦ to the end) -/
def slice (t : Tok) (a : Nat) (b : Option Nat) : Tok :=
  let e := match b with | some b => b | none => t.str.length
  { str := (t.str.drop a).take (e - a), pos := t.pos + a }

/-- `token + other` -/
def add (t : Tok) (o : Str) : Tok := { t with str := t.str ++ o }

def isWs (c : Nat) : Bool := inRanges Gen.spaceRanges c

/-- `str.lstrip(chars)` / `str.lstrip()`; position advances by the number of stripped characters -/
def lstripBy (p : Nat → Bool) (t : Tok) : Tok :=
  let s := t.str.dropWhile p
  { str := s, pos := t.pos + t.str.length - s.length }

def rstripBy (p : Nat → Bool) (t : Tok) : Tok :=
  { t with str := (t.str.reverse.dropWhile p).reverse }

def stripBy (p : Nat → Bool) (t : Tok) : Tok := rstripBy p (lstripBy p t)

def lstrip (t : Tok) : Tok := lstripBy isWs t
def rstrip (t : Tok) : Tok := rstripBy isWs t
def strip (t : Tok) : Tok := stripBy isWs t
def stripChars (cs : Str) (t : Tok) : Tok := stripBy (fun c => cs.contains c) t

/-- `str.split(sep)` for a one-character separator -/
def splitOn1 (sep : Nat) : Str → List Str
  | [] => [[]]
  | c :: cs =>
    match splitOn1 sep cs with
    | [] => [[]]   -- unreachable
    | p :: ps => if c = sep then [] :: p :: ps else (c :: p) :: ps

/-- `Token.split(sep)`; `sepLen` is what the position advances by between parts:
`0` is what the code does (quirk D-11a), `1` what anchoring needs. -/
def splitParts (sepLen : Nat) (pos : Nat) : List Str → List Tok
  | [] => []
  | p :: ps => { str := p, pos := pos } :: splitParts sepLen (pos + p.length + sepLen) ps

def split (sepCounts : Bool) (sep : Nat) (t : Tok) : List Tok :=
  splitParts (if sepCounts then 1 else 0) t.pos (splitOn1 sep t.str)

/-- `Token.location` → (line, column) -/
def location (src : Str) (t : Tok) : Nat × Nat :=
  let body := src.take t.pos
  let line := body.count 10
  -- body.rfind('\n', 0): index of last newline or -1
  let afterNl := (body.reverse.takeWhile (· != 10)).length
  (line + 1, t.pos - (body.length - afterNl))

end Tok
end ChamVerif

import ChamVerif.Tales
/-! The node tree `zpt/program.py` produces (`nodes.py`), with expressions kept as source
tokens: they are compiled when the compiler visits them (`checkCompile`, in visiting order) and
when they are evaluated (which gives non-strict mode its "error when reached" semantics). -/
namespace ChamVerif

/-- `char_escape` classes of a substitution -/
inductive Esc | none | text | dq | sq | emptyQ
  deriving Repr, DecidableEq, Inhabited

inductive NOp | is_ | isNot | equals
  deriving Repr, DecidableEq, Inhabited

/-- expression nodes (what `ExpressionTransform` handles) -/
inductive EN
  | const (s : Str)                                   -- ast.Constant(str)
  | value (tok : Tok)                                 -- nodes.Value(text)
  | valueD (tok : Tok) (dflt : Option Str)            -- Value(text, default, marker) (dict attributes)
  | ref (id : Nat)                                    -- an expression object that an enclosing Cache evaluated
  | subst (tok : Tok) (esc : Esc) (dflt : Option Str) (literalFalse : Bool)
  | boolean (tok : Tok) (s : Str) (dflt : Option Str)
  | interp (tok : Tok) (esc : Esc) (dflt : Option Str) (literalFalse : Bool) (required : Bool) (translation : Bool)
  | replace (e : EN) (s : Str)
  | translate (msgid : Option Str) (e : EN)
  | negate (e : EN)
  | binop (l : EN) (op : NOp) (r : EN)
  | marker                                            -- the default-marker symbol
  | cancelMarker
  | staticDict (kvs : List (Str × Str))               -- `attrs`
  | pyName (n : Str)                                  -- Alias(["default"], "target_language")
  deriving Repr, Inhabited

inductive CondE
  | e (x : EN)
  | and_ (xs : List CondE)
  | or_ (xs : List CondE)
  deriving Repr, Inhabited

inductive Assign
  | alias (name : Str) (e : EN)
  | assign (names : List Tok) (e : EN) (local_ : Bool)
  deriving Repr, Inhabited

inductive Node
  | text (s : Str)
  | seq (ns : List Node)
  | element (start : Node) (end_ : Option Node) (content : Node)
  | start (name pfx : Str) (suffix : Option Str) (attrs : Node)
  | end_ (name : Str) (space : Option Str) (pfx : Str) (suffix : Option Str)
  | attribute (name : Str) (e : EN) (quote eq space : Str) (dflt : Option Str) (filters : List Nat)
  | dictAttrs (id : Nat) (e : EN) (exclude : List Str)
  | content (e : EN) (esc : Bool) (translate : Bool)
  | interpolation (e : EN)
  | condition (c : CondE) (node : Node) (orelse : Option Node)
  | cache (es : List (Nat × EN)) (node : Node)
  | cancel (ids : List Nat) (node : Node)
  | define (assigns : List Assign) (node : Node)
  | repeat_ (id : Nat) (names : List Tok) (e : EN) (local_ : Bool) (ws : Str) (node : Node)
  | onError (id : Nat) (fallback : Node) (node : Node)
  | translate (id : Nat) (msgid : Option Str) (node : Node)
  | name (n : Tok) (node : Node)
  | domain (d : Str) (node : Node)
  | txContext (c : Str) (node : Node)
  | target (e : EN) (node : Node)
  | defineSlot (name : Tok) (node : Node)
  | useExternal (e : EN) (slots : List (Tok × Node)) (extend : Bool)
  | useInternal (name : Option Str)
  | codeBlock (src : Tok)
  deriving Repr, Inhabited

structure MacroDef where
  name : Option Str
  body : Node
  deriving Repr, Inhabited

end ChamVerif

/-! # Concurrent `render()` on a shared file template: `cook_check` / `cook` as atomic steps under any schedule

The file is unchanged (one version `v`); threads share the instance attributes `_v_last_read`, `_cooked` and the
installed `_render*` functions.  Every attribute read or write is one atomic step (the GIL's granularity). -/
namespace ChamVerif.Sys.Sched

structure Shared where
  lastRead : Option Nat := none
  cooked : Bool := false
  fns : List (String × Nat) := []       -- installed function name ↦ version
  deriving Repr, DecidableEq, Inhabited

inductive PC
  | start                 -- `mtime != self._v_last_read` is evaluated next
  | setLast               -- the comparison was true: `_v_last_read = mtime`
  | clearCooked           -- `_cooked = False`
  | testCooked            -- `if self._cooked is False`
  | install (i : Nat)     -- `setattr(self, names[i], f)` is next
  | clean                 -- remove functions of an earlier version
  | setCooked             -- `_cooked = True`
  | call                  -- `self._render(...)`
  | done (result : Option Nat)   -- the version whose `_render` ran; none = AttributeError
  deriving Repr, DecidableEq, Inhabited

structure Cfg where
  autoReload : Bool
  mtime : Nat
  version : Nat
  names : List String      -- the functions the version defines ("render" first)
  deriving Repr, DecidableEq, Inhabited

def lookup (fns : List (String × Nat)) (n : String) : Option Nat := (fns.find? (·.1 == n)).map (·.2)
def setFn (fns : List (String × Nat)) (n : String) (v : Nat) : List (String × Nat) := (n, v) :: fns.filter (·.1 != n)

/-- one atomic step of one thread -/
def stepThread (c : Cfg) (s : Shared) : PC → Shared × PC
  | .start => if c.autoReload && s.lastRead != some c.mtime then (s, .setLast) else (s, .testCooked)
  | .setLast => ({ s with lastRead := some c.mtime }, .clearCooked)
  | .clearCooked => ({ s with cooked := false }, .testCooked)
  | .testCooked => if s.cooked then (s, .call) else (s, .install 0)
  | .install i =>
    match c.names[i]? with
    | some n => ({ s with fns := setFn s.fns n c.version }, .install (i + 1))
    | none => (s, .clean)
  | .clean => ({ s with fns := s.fns.filter (fun f => c.names.contains f.1) }, .setCooked)
  | .setCooked => ({ s with cooked := true }, .call)
  | .call => (s, .done (lookup s.fns "render"))
  | .done r => (s, .done r)

structure World where
  shared : Shared
  threads : List PC
  deriving Repr, DecidableEq, Inhabited

/-- thread `i` takes a step (a schedule entry beyond the thread list does nothing) -/
def step (c : Cfg) (w : World) (i : Nat) : World :=
  match w.threads[i]? with
  | none => w
  | some pc =>
    let (s', pc') := stepThread c w.shared pc
    { shared := s', threads := w.threads.set i pc' }

def run (c : Cfg) (w : World) (sched : List Nat) : World := sched.foldl (step c) w

end ChamVerif.Sys.Sched

/-! # The on-disk module cache: `ModuleLoader.build` / `ModuleLoader.get` as file-system steps, and the cache key

A directory is a finite map from names to contents; a content is one of the stages a file written by `build` goes
through.  Two writers of the same entry run `build` step by step under an arbitrary schedule, and either may crash
(stop forever) at any point. -/
namespace ChamVerif.Sys.Cache

inductive Content
  | empty                    -- created by mkstemp
  | header                   -- "# -*- coding: utf-8 -*-" written
  | torn (src : Nat)         -- part of the encoded source written
  | full (src : Nat)         -- header and the complete source
  deriving Repr, DecidableEq, Inhabited

abbrev FS := List (String × Content)

def FS.get (fs : FS) (n : String) : Option Content := (fs.find? (·.1 == n)).map (·.2)
def FS.del (fs : FS) (n : String) : FS := fs.filter (·.1 != n)
def FS.set (fs : FS) (n : String) (c : Content) : FS := (n, c) :: fs.del n

/-- one `build(source, filename)` call in progress -/
structure Writer where
  src : Nat
  tmp : String               -- the name `mkstemp` returned
  pc : Nat := 0
  alive : Bool := true
  deriving Repr, DecidableEq, Inhabited

/-- the steps of `build` that touch the directory, in order:
0 mkstemp · 1 write header · 2 first part of the source · 3 rest of the source · 4 close · 5 rename onto the entry -/
def stepWriter (entry : String) (fs : FS) (w : Writer) : FS × Writer :=
  if !w.alive then (fs, w) else
  match w.pc with
  | 0 => (fs.set w.tmp .empty, { w with pc := 1 })
  | 1 => (fs.set w.tmp .header, { w with pc := 2 })
  | 2 => (fs.set w.tmp (.torn w.src), { w with pc := 3 })
  | 3 => (fs.set w.tmp (.full w.src), { w with pc := 4 })
  | 4 => (fs, { w with pc := 5 })
  | 5 => match fs.get w.tmp with
         | some c => ((fs.del w.tmp).set entry c, { w with pc := 6 })
         | none => (fs, { w with alive := false })       -- FileNotFoundError
  | _ => (fs, w)

inductive Ev | stepA | stepB | crashA | crashB
  deriving Repr, DecidableEq, Inhabited

structure St where
  fs : FS
  a : Writer
  b : Writer
  deriving Repr, DecidableEq, Inhabited

def step (entry : String) (s : St) : Ev → St
  | .stepA => let (fs, a) := stepWriter entry s.fs s.a; { s with fs := fs, a := a }
  | .stepB => let (fs, b) := stepWriter entry s.fs s.b; { s with fs := fs, b := b }
  | .crashA => { s with a := { s.a with alive := false } }
  | .crashB => { s with b := { s.b with alive := false } }

def run (entry : String) (s : St) (evs : List Ev) : St := evs.foldl (step entry) s

/-- `ModuleLoader.get(filename)`: the entry is loaded iff a file of that name exists -/
def get (entry : String) (fs : FS) : Option Content := fs.get entry

/-! ## the cache key -/

/-- a template configuration: option name ↦ canonical value -/
abbrev Config := List (String × String)

def Config.val (c : Config) (k : String) : Option String := (c.find? (·.1 == k)).map (·.2)

/-- the part of a configuration a set of option names sees -/
def proj (ks : List String) (c : Config) : List (Option String) := ks.map c.val

/-! ## how the template source enters the key: `body.encode('utf-8', errors)` -/

/-- UTF-8 of one code point; surrogates are encoded like any other code point (`surrogatepass`) -/
def utf8 (c : Nat) : List Nat :=
  if c < 0x80 then [c]
  else if c < 0x800 then [0xC0 + c / 64, 0x80 + c % 64]
  else if c < 0x10000 then [0xE0 + c / 4096, 0x80 + (c / 64) % 64, 0x80 + c % 64]
  else [0xF0 + c / 262144, 0x80 + (c / 4096) % 64, 0x80 + (c / 64) % 64, 0x80 + c % 64]

def isSurrogate (c : Nat) : Bool := 0xD800 ≤ c && c < 0xE000

/-- the bytes hashed for a source given as code points, for the `errors` modes `surrogatepass` and `ignore` -/
def encodeBody (errors : String) (s : List Nat) : List Nat :=
  s.flatMap (fun c => if errors == "ignore" && isSurrogate c then [] else utf8 c)

/-- the bytes hashed for (source, template class): the class name, a NUL, then the source (after the D-15d fix) -/
def keyBytes (cls body : List Nat) : List Nat := cls ++ 0 :: body

/-- … for a template that has a file name: the name goes in between, NUL-terminated too (it is compiled into the module —
error reports show it — and the module's own name has it without the extension only; after the D-15e fix) -/
def keyBytesFile (cls fn body : List Nat) : List Nat := cls ++ 0 :: (fn ++ 0 :: body)

/-- the layout before the fix: the source directly followed by the class name -/
def keyBytesOld (cls body : List Nat) : List Nat := body ++ cls

end ChamVerif.Sys.Cache

/-! `ModuleLoader._load` (`loader.py`): several threads of one process asking for the same cached module.

Atomic steps of one thread (the labelled points of the guarded hooks): take the process-wide lock; look at `sys.modules`;
create the module object; `exec_module`; `sys.modules[base] = module`; release the lock; `return module.__dict__`.
`LQuirks` switches on the two changes a realistic "optimisation" makes (register before executing, as the importlib recipe
does, and a lock-free look at `sys.modules` first). -/
namespace ChamVerif.Sys.Load

structure LQuirks where
  registerFirst : Bool := false
  lockFreeHit : Bool := false
  deriving Repr, DecidableEq

inductive PC
  | start | locked | created | executed | registered | released
  | done (complete : Bool)     -- returned `module.__dict__`; `complete`: the module had been executed by then
  deriving DecidableEq, Repr

structure Th where
  pc : PC := .start
  mine : Option Nat := none     -- the module object this thread holds
  deriving DecidableEq, Repr

structure LState where
  lock : Option Nat := none
  reg : Option Nat := none        -- `sys.modules[base]`: a module object, if any
  objs : List Bool := []          -- per module object: has `exec_module` finished
  ths : List Th := []
  deriving DecidableEq, Repr

def objDone (objs : List Bool) (id : Nat) : Bool := (objs[id]?).getD false

def setTh (s : LState) (t : Nat) (th : Th) : LState := { s with ths := s.ths.set t th }

def step (q : LQuirks) (s : LState) (t : Nat) : LState :=
  match s.ths[t]? with
  | none => s
  | some th =>
    match th.pc with
    | .start =>
      if q.lockFreeHit && s.reg.isSome then setTh s t { pc := .released, mine := s.reg }
      else if s.lock.isNone then setTh { s with lock := some t } t { th with pc := .locked }
      else s                                                   -- blocked on the lock
    | .locked =>
      match s.reg with
      | some id => setTh s t { pc := .registered, mine := some id }
      | none => setTh { s with objs := s.objs ++ [false] } t { pc := .created, mine := some s.objs.length }
    | .created =>
      if q.registerFirst then setTh { s with reg := th.mine } t { th with pc := .executed }
      else setTh { s with objs := s.objs.set (th.mine.getD 0) true } t { th with pc := .executed }
    | .executed =>
      if q.registerFirst then setTh { s with objs := s.objs.set (th.mine.getD 0) true } t { th with pc := .registered }
      else setTh { s with reg := th.mine } t { th with pc := .registered }
    | .registered => setTh { s with lock := none } t { th with pc := .released }
    | .released => setTh s t { th with pc := .done (objDone s.objs (th.mine.getD 0)) }
    | .done _ => s

def run (q : LQuirks) (s : LState) (sched : List Nat) : LState := sched.foldl (step q) s

def init (n : Nat) : LState := { ths := List.replicate n {} }

/-- what the threads that have returned got -/
def results (s : LState) : List Bool := s.ths.filterMap (fun th => match th.pc with | .done b => some b | _ => none)

end ChamVerif.Sys.Load

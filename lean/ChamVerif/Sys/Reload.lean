/-! # File templates follow their files (`BaseTemplateFile.cook_check` / `cook`) and `TemplateLoader.load`

The file system is a parameter-free, explicit state: a file is `(version, mtime)`; what a version *renders* is not
modelled here (that is `Pipeline.render`) — a version is identified by a number and described by its macro names
and its XML/HTML decision, which the harness supplies for every version it writes. -/
namespace ChamVerif.Sys

structure VersionInfo where
  macros : List String
  xml : Bool
  deriving Repr, DecidableEq, Inhabited

structure File where
  version : Nat
  mtime : Nat
  deriving Repr, DecidableEq, Inhabited

/-- the per-instance state of a file template -/
structure Tpl where
  autoReload : Bool
  lastRead : Option Nat := none        -- `_v_last_read`
  cooked : Bool := false               -- `_cooked`
  compiled : Option Nat := none        -- the version whose `_render` is installed
  attrs : List (String × Nat) := []    -- installed `_render_<macro>` attributes ↦ the version they come from
  contentXml : Option Bool := none     -- `content_type` as set by the last `read`
  cooks : Nat := 0                     -- number of compilations so far
  deriving Repr, DecidableEq, Inhabited

/-- D-16a switch: `cook` removes the render functions of the previous version (after the fix) -/
structure RQuirks where
  staleMacros : Bool
  deriving Repr, DecidableEq, Inhabited

/-- `cook(body)`: install the functions of `v` -/
def cook (q : RQuirks) (info : Nat → VersionInfo) (t : Tpl) (v : Nat) : Tpl :=
  let fresh := (info v).macros.map (fun m => (m, v))
  let kept := if q.staleMacros then t.attrs.filter (fun a => !(info v).macros.contains a.1) else []
  { t with compiled := some v, attrs := kept ++ fresh, cooked := true, cooks := t.cooks + 1 }

/-- `cook_check()` -/
def cookCheck (q : RQuirks) (info : Nat → VersionInfo) (f : File) (t : Tpl) : Tpl :=
  let t1 := if t.autoReload && t.lastRead != some f.mtime then { t with lastRead := some f.mtime, cooked := false } else t
  if !t1.cooked then cook q info { t1 with contentXml := some (info f.version).xml } f.version else t1

inductive Op
  | write (v : Nat)            -- replace the content, mtime unchanged
  | utime (t : Nat)
  | modify (v t : Nat)         -- write + utime
  | render
  | names
  | use (m : String)
  deriving Repr, DecidableEq, Inhabited

inductive Obs
  | none
  | rendered (v : Nat) (xml : Option Bool)   -- the version whose body was rendered, `content_type` afterwards
  | names (ns : List String)
  | macro (v : Option Nat)           -- the version a used macro comes from; `none` = KeyError
  deriving Repr, DecidableEq, Inhabited

structure World where
  file : File
  tpl : Tpl
  deriving Repr, DecidableEq, Inhabited

def step (q : RQuirks) (info : Nat → VersionInfo) (w : World) : Op → World × Obs
  | .write v => ({ w with file := { w.file with version := v } }, .none)
  | .utime t => ({ w with file := { w.file with mtime := t } }, .none)
  | .modify v t => ({ w with file := { version := v, mtime := t } }, .none)
  | .render =>
    let t := cookCheck q info w.file w.tpl
    ({ w with tpl := t }, .rendered (t.compiled.getD 0) t.contentXml)
  | .names =>
    let t := cookCheck q info w.file w.tpl
    ({ w with tpl := t }, .names (t.attrs.map (·.1)))
  | .use m =>
    let t := cookCheck q info w.file w.tpl
    ({ w with tpl := t }, .macro ((t.attrs.find? (·.1 == m)).map (·.2)))

def run (q : RQuirks) (info : Nat → VersionInfo) : World → List Op → World × List Obs
  | w, [] => (w, [])
  | w, op :: rest =>
    let (w1, o) := step q info w op
    let (w2, os) := run q info w1 rest
    (w2, o :: os)

/-! ## the loader -/

structure Loader where
  searchPath : List String
  defaultExtension : Option String       -- with its leading dot
  registry : List (String × Nat) := []   -- spec as passed ↦ instance id
  instances : List String := []          -- instance id ↦ resolved filename
  deriving Repr, DecidableEq, Inhabited

def isAbs (p : String) : Bool := p.startsWith "/"

def joinPath (dir spec : String) : String :=
  if isAbs spec then spec else if dir.isEmpty || dir.endsWith "/" then dir ++ spec else dir ++ "/" ++ spec

inductive LoadRes
  | instance_ (id : Nat) (filename : String)
  | notFound (spec : String)
  deriving Repr, DecidableEq, Inhabited

/-- the spec after `strip()` and the default extension rule -/
def normSpec (l : Loader) (spec : String) : String :=
  let s := spec.trimAscii.toString
  match l.defaultExtension with
  | some ext => if s.contains '.' then s else s ++ ext
  | none => s

/-- resolution along the search path: the first directory that has the file -/
def resolve (l : Loader) (exists_ : String → Bool) (spec : String) : Option String :=
  let s := normSpec l spec
  if isAbs s then some s
  else (l.searchPath.find? (fun d => exists_ (joinPath d s))).map (fun d => joinPath d s)

/-- `TemplateLoader.load(spec)` (package specs are not modelled) -/
def load (l : Loader) (exists_ : String → Bool) (spec : String) : Loader × LoadRes :=
  match l.registry.find? (·.1 == spec) with
  | some (_, id) => (l, .instance_ id (l.instances.getD id ""))
  | none =>
    match resolve l exists_ spec with
    | none => (l, .notFound (normSpec l spec))
    | some fn =>
      let id := l.instances.length
      ({ l with registry := l.registry ++ [(spec, id)], instances := l.instances ++ [fn] }, .instance_ id fn)

/-- the search path a file template gives its `load:` loader: its own directory first -/
def templateSearchPath (prepend : Bool) (ownDir : String) (searchPath : List String) : List String :=
  if prepend then ownDir :: searchPath else searchPath

end ChamVerif.Sys

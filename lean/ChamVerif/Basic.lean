def hello := "world"

import ChamVerif.Lex
/-! The emitted `__quote` / `__convert` functions (`compiler.py: emit_func_convert_and_escape`):
value classes → text, then the chain of `str.replace` calls guarded by `__re_needs_escape`. -/
namespace ChamVerif

def ampE : Str := [38, 97, 109, 112, 59]          -- &amp;
def ltE : Str := [38, 108, 116, 59]               -- &lt;
def gtE : Str := [38, 103, 116, 59]               -- &gt;
def quotE : Str := [38, 113, 117, 111, 116, 59]   -- &quot;
def aposE : Str := [38, 35, 51, 57, 59]           -- &#39;
def nulE : Str := [38, 35, 48, 59]                -- &#0;

/-- `g_re_needs_escape = re.compile(r'[&<>\"\']').search` -/
def needsEscape (s : Str) : Bool := s.any (fun c => c == 38 || c == 60 || c == 62 || c == 34 || c == 39)

def rep1 (c : Nat) (r : Str) (x : Nat) : Str := if x = c then r else [x]
/-- `str.replace(c, r)` for a one-character `c` -/
def replace1 (c : Nat) (r : Str) (s : Str) : Str := s.flatMap (rep1 c r)

/-- the chain of replacements at the end of `__quote(target, quote, quote_entity, …)` -/
def escapeSeq (q : Option Nat) (qe : Str) (s : Str) : Str :=
  let s3 := replace1 62 gtE (replace1 60 ltE (replace1 38 ampE s))
  match q with
  | none => s3
  | some c => replace1 c qe s3

def quoteStr (q : Option Nat) (qe : Str) (s : Str) : Str :=
  if needsEscape s then escapeSeq q qe s else s

/-- insertion sites by the `(quote, quote_entity)` arguments the compiler passes -/
inductive Site | text | dq | sq | content
  deriving Repr, DecidableEq, Inhabited

def Site.q : Site → Option Nat
  | .text => some 0 | .dq => some 34 | .sq => some 39 | .content => none
def Site.qe : Site → Str
  | .text => nulE | .dq => quotE | .sq => aposE | .content => [255]

def Site.quote (st : Site) (s : Str) : Str := quoteStr st.q st.qe s

/-- per-character image of the escaping at a site -/
def escChar (q : Option Nat) (qe : Str) (c : Nat) : Str :=
  if c = 38 then ampE else if c = 60 then ltE else if c = 62 then gtE
  else if q = some c then qe else [c]

def escapeMap (q : Option Nat) (qe : Str) (s : Str) : Str := s.flatMap (escChar q qe)

/-- the value classes `__quote` distinguishes (what the harness can build as real objects) -/
inductive QIn
  | none | marker
  | bytes (decoded : Str)
  | str (s : Str)
  | num (repr : Str)                -- exact int / float: `str(target)`, returned unescaped
  | html (markup : Str)             -- has `__html__`: returned as is
  | other (strForm : Str) (translated : Option (Option Str))
      -- any other object: `translate(target)` returned the object itself (`none`), `None`, or a string
  deriving Repr, DecidableEq, Inhabited

/-- `__quote(target, q, qe, default, marker)` -/
def quoteVal (q : Option Nat) (qe : Str) (dflt : Option Str) : QIn → Option Str
  | .none => Option.none
  | .marker => dflt
  | .bytes d => some (quoteStr q qe d)
  | .str s => some (quoteStr q qe s)
  | .num r => some r
  | .html m => some m
  | .other sf tr =>
    match tr with
    | Option.none => some (quoteStr q qe sf)
    | some Option.none => Option.none
    | some (some t) => some (quoteStr q qe t)

/-- `__convert(target)`: the same without the escaping tail (structure, CDATA, text mode) -/
def convertVal : QIn → Option Str
  | .none => Option.none
  | .marker => Option.none      -- not handled specially by `__convert`; callers never pass it
  | .bytes d => some d
  | .str s => some s
  | .num r => some r
  | .html m => some m
  | .other sf tr =>
    match tr with
    | Option.none => some sf
    | some Option.none => Option.none
    | some (some t) => some t

/-- left-to-right decoder of exactly the entities `__quote` can produce -/
def unescape : Str → Str
  | 38 :: 97 :: 109 :: 112 :: 59 :: r => 38 :: unescape r
  | 38 :: 108 :: 116 :: 59 :: r => 60 :: unescape r
  | 38 :: 103 :: 116 :: 59 :: r => 62 :: unescape r
  | 38 :: 113 :: 117 :: 111 :: 116 :: 59 :: r => 34 :: unescape r
  | 38 :: 35 :: 51 :: 57 :: 59 :: r => 39 :: unescape r
  | 38 :: 35 :: 48 :: 59 :: r => 0 :: unescape r
  | c :: r => c :: unescape r
  | [] => []

/-- every `&` of `t` begins one of the entities above -/
def ampOK : Str → Bool
  | 38 :: r =>
    (ampE.tail.isPrefixOf r || ltE.tail.isPrefixOf r || gtE.tail.isPrefixOf r || quotE.tail.isPrefixOf r
      || aposE.tail.isPrefixOf r || nulE.tail.isPrefixOf r) && ampOK r
  | _ :: r => ampOK r
  | [] => true

end ChamVerif

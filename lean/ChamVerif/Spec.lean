import ChamVerif.Eval
/-! # Statement semantics of TAL on one element (the reference the interpreter is proved against)

`specElement` says, statement by statement and in the order the language prescribes, what an element carrying
`tal:define`, `tal:case`, `tal:condition`, `tal:repeat`, `tal:switch`, `tal:content` | `tal:replace`, `tal:omit-tag`
and `tal:attributes` renders, given how its children render.  It is defined on the *parsed statements* of the element
(`ElemStmts`), not on the node tree the program builder makes of them; expressions, the start tag with its attributes
(C07) and the children are evaluated by the same functions the interpreter uses.

  1. definitions first: `attrs`, then every `tal:define` clause in order; locals are restored when the element is done
  2. the guards: `tal:case` (against the enclosing switch), then `tal:condition`
  3. `tal:repeat`: everything below once per item
  4. `tal:switch`: the value the children's cases are compared with
  5. `tal:replace`: a value other than `default` replaces the whole element
  6. `tal:omit-tag`: the start and end tags (with the attributes) unless omitted
  7. `tal:content`: a value other than `default` replaces the children

`ChamProofs/Props/C01Spec.lean` proves that the node `elementPost` builds, evaluated by the interpreter, gives exactly
the verdict of `specElement`. -/
namespace ChamVerif.Spec
open ChamVerif

/-- `__cache_<id> = v` in the current activation -/
def setCache (id : Nat) (v : Val) : RM Unit :=
  modFrame (fun fr => { fr with cache := (id, v) :: fr.cache.filter (·.1 != id) })

/-- insert the value of `e`: escaped unless `structure`, translated when asked to; `None` inserts nothing -/
def emitValue (cfg : ECfg) (al : List (Str × Val)) (e : EN) (esc translate : Bool) : RM Unit := do
  let v0 ← enVal cfg al e
  let v ← (if translate then
      match v0 with
      | .str s => do
        let r ← liftX (fun env => callTranslate cfg env s none none)
        pure (Val.str r)
      | .dflt | .markup _ => mUnsupported "tal:content with i18n:translate=\"\" of the default marker / markup"
      | .obj id =>
        match cfg.tab[id]? with
        | some o =>
          if o.translation.isSome then mUnsupported "tal:content with i18n:translate=\"\" of an object with a translation of its own"
          else do
            liftX (fun env x => .ok () { x with tlog := x.tlog.push (offerOf env.topFrame o.strForm) })
            pure v0
        | none => mUnsupported "unknown object"
      | _ => do
        let s ← mLiftR (Val.strOf cfg.tab v0)
        liftX (fun env x => .ok () { x with tlog := x.tlog.push (offerOf env.topFrame s) })
        pure v0
    else pure v0)
  liftX (fun env => offerCall cfg env v)
  let q ← mLiftR (toQIn cfg v)
  let t := if esc then quoteVal Site.content.q Site.content.qe none q else convertVal q
  match t with
  | some s => emit s
  | none => pure ()

/-- `tal:content` / `tal:replace`: evaluate the expression once, with `default` bound to the marker; if the value *is*
the marker render the original (`orig`), otherwise insert the value instead of it -/
def insertOr (cfg : ECfg) (al : List (Str × Val)) (st : Nat × Tok × Bool × Bool) (orig : List (Str × Val) → RM Unit) : RM Unit := do
  let al' := (lit "default", Val.dflt) :: al
  let v ← enVal cfg al' (.value st.2.1)
  setCache st.1 v
  let isDefault ← liftX (fun env => evalCond cfg al' env 16 (.e (.binop (.ref st.1) .is_ .marker)))
  let b ← vTruthy cfg isDefault
  if b then orig al' else emitValue cfg al' (.ref st.1) (!st.2.2.1) st.2.2.2

/-- 7. the children, or what `tal:content` puts in their place -/
def contentOf (cfg : ECfg) (ip : InnerSpec) (body : List (Str × Val) → RM Unit) (al : List (Str × Val)) : RM Unit :=
  match ip.content with
  | none => body al
  | some c => insertOr cfg al c body

/-- 6. the tags around the content, unless `tal:omit-tag` (or a template-language namespace) omits them -/
def taggedOf (cfg : ECfg) (F : Nat) (ip : InnerSpec) (body : List (Str × Val) → RM Unit) (al : List (Str × Val)) : RM Unit :=
  if ip.omitAlways then contentOf cfg ip body al
  else match ip.omitExpr with
    | some (oid, cl) => do
      -- the expression is evaluated once, before the start tag; the tags are shown when it is false
      let v ← enVal cfg al (.negate (.value cl))
      setCache oid v
      let shown := do
        let c ← liftX (fun env => evalCond cfg al env 16 (.e (.ref oid)))
        vTruthy cfg c
      let b1 ← shown
      (if b1 then eval cfg al F ip.startTag else pure ())
      contentOf cfg ip body al
      match ip.endTag with
      | some e => do
        let b2 ← shown
        (if b2 then eval cfg al F e else pure ())
      | none => pure ()
    | none => do
      eval cfg al F ip.startTag
      contentOf cfg ip body al
      match ip.endTag with
      | some e => eval cfg al F e
      | none => pure ()

/-- 5. `tal:replace`, or the element -/
def innerOf (cfg : ECfg) (F : Nat) (ip : InnerSpec) (body : List (Str × Val) → RM Unit) (al : List (Str × Val)) : RM Unit :=
  match ip.replace with
  | none => taggedOf cfg F ip body al
  | some r => insertOr cfg al r (taggedOf cfg F ip body)

/-- 4. `tal:switch`: the value is computed once and kept for the cases of the children -/
def switchOf (cfg : ECfg) (al : List (Str × Val)) (sw : Option (Nat × Tok)) (k : RM Unit) : RM Unit :=
  match sw with
  | none => k
  | some (sid, cl) => do
    let v ← enVal cfg al (.value cl)
    setCache sid v
    k

/-- the iterations of `tal:repeat` -/
def loopOf (key : Str) (names : List Tok) (local_ : Bool) (ws : Str) (k : RM Unit) : List Val → Nat → RM Unit
  | [], _ => pure ()
  | item :: rest, remaining => do
    modEnv (fun e => { e with repeats := e.repeats.map (fun (k, r) => if r.tag == key then (k, { r with consumed := r.consumed + 1 }) else (k, r)) })
    match names with
    | [nm] => do
      setVar nm.str item
      if !local_ then setGlobal nm.str item else pure ()
    | _ => do
      let vs ← match item with
        | .list vs | .tuple vs => pure vs
        | .none | .bool _ | .int _ => mRaise { cls := "TypeError", msg := [] }
        | _ => mUnsupported "unpacking of this class"
      if vs.length != names.length then mRaise { cls := "ValueError", msg := [] }
      else do
        (names.zip vs).forM (fun (nm, x) => setVar nm.str x)
        if !local_ then (names.zip vs).forM (fun (nm, x) => setGlobal nm.str x) else pure ()
    k
    if remaining - 1 > 0 then emit ws else pure ()
    loopOf key names local_ ws k rest (remaining - 1)

/-- 3. `tal:repeat`: `k` once per item, the loop variable bound to each item in turn (restored afterwards when local),
the separator between consecutive repetitions -/
def repeatOf (cfg : ECfg) (al : List (Str × Val)) (rp : Option (Nat × DefineSpec × Str)) (k : RM Unit) : RM Unit :=
  match rp with
  | none => k
  | some (_, d, ws) => do
    let local_ := d.ctx == .local_
    let s0 ← mGet
    let backups : List (Str × Option Val) := if local_ then d.names.map (fun nm => (nm.str, s0.env.get nm.str)) else []
    let it ← enVal cfg al (.value d.expr)
    (match s0.env.get (lit "repeat") with
      | some .repeatDict => pure ()
      | _ => mUnsupported "`repeat` rebound by the template (D-05e)")
    let items : List Val ← match it with
      | .list vs | .tuple vs => pure vs
      | .none => pure []
      | .str s => pure (s.map (fun ch => Val.str [ch]))
      | .dict kvs => pure (kvs.map (·.1))
      | _ => mUnsupported "iterable class"
    let key : Str := match d.names with
      | [nm] => nm.str
      | _ => (d.names.map (fun nm => nm.str ++ [44])).flatten
    let s1 ← mGet
    let tag : Str := key ++ [0] ++ natToStr (s1.loops + 1)
    mModify (fun s => { s with loops := s.loops + 1 })
    modEnv (fun e => { e with repeats := (key, { length := items.length, consumed := 0, tag := tag }) :: e.repeats.filter (·.1 != key) })
    d.names.forM (fun nm => setVar nm.str .none)
    loopOf tag d.names local_ ws k items items.length
    if local_ then restore backups else pure ()

/-- 2b. `tal:condition` -/
def conditionOf (cfg : ECfg) (al : List (Str × Val)) (c : Option Tok) (k : RM Unit) : RM Unit :=
  match c with
  | none => k
  | some cl => do
    let v ← liftX (fun env => evalCond cfg al env 16 (.e (.value cl)))
    let b ← vTruthy cfg v
    if b then k else pure ()

/-- the test of `tal:case`: the switch is still open, and the case value equals the switch value or is `default` -/
def caseCond (swId : Nat) (cl : Tok) : CondE :=
  .and_ [.e (.binop (.ref swId) .isNot .cancelMarker),
         .or_ [.e (.binop (.value cl) .equals (.ref swId)), .e (.binop (.value cl) .equals .marker)]]

/-- 2a. `tal:case`: rendered when the test holds; the switch is closed before the element renders -/
def caseOf (cfg : ECfg) (al : List (Str × Val)) (cs : Option (Nat × Tok)) (k : List (Str × Val) → RM Unit) : RM Unit :=
  match cs with
  | none => k al
  | some (swId, cl) => do
    let al' := (lit "default", Val.dflt) :: al
    let v ← liftX (fun env => evalCond cfg al' env 16 (caseCond swId cl))
    let b ← vTruthy cfg v
    if b then do
      setCache swId (Val.excClass "<CANCEL>")
      k al'
    else pure ()

/-- 1. the definitions, in order; each sees the earlier ones; the backups of the locals are restored (later ones
first) when the element is done -/
def definesOf (cfg : ECfg) : List Assign → List (Str × Val) → List (Str × Option Val) → (List (Str × Val) → RM Unit) → RM Unit
  | [], al, backups, k => do
    k al
    restore backups
  | .alias name e :: rest, al, backups, k => do
    let v ← enVal cfg al e
    definesOf cfg rest ((name, v) :: al) backups k
  | .assign names e local_ :: rest, al, backups, k => do
    let s0 ← mGet
    let bk : List (Str × Option Val) := if local_ then names.map (fun nm => (nm.str, s0.env.get nm.str)) else []
    let v ← enVal cfg al e
    match names with
    | [nm] => do
      setVar nm.str v
      if !local_ then setGlobal nm.str v else pure ()
    | _ => do
      let vs ← match v with
        | .list vs | .tuple vs => pure vs
        | .none | .bool _ | .int _ => mRaise { cls := "TypeError", msg := [] }
        | _ => mUnsupported "unpacking of this class"
      if vs.length != names.length then
        mRaise { cls := "ValueError", msg := [] }
      else do
        (names.zip vs).forM (fun (nm, x) => setVar nm.str x)
        if !local_ then (names.zip vs).forM (fun (nm, x) => setGlobal nm.str x) else pure ()
    definesOf cfg rest al (bk ++ backups) k

/-- **the statement semantics of one element** (of the TAL fragment): `body al` renders the children with the aliases
`al` in force; `F` is the fuel for rendering the start and end tags -/
def specElement (cfg : ECfg) (F : Nat) (p : ElemStmts) (ip : InnerSpec) (body : List (Str × Val) → RM Unit)
    (al : List (Str × Val)) : RM Unit :=
  definesOf cfg p.assigns al [] fun al1 =>
  caseOf cfg al1 p.case_ fun al2 =>
  conditionOf cfg al2 p.condition <|
  repeatOf cfg al2 p.repeat_ <|
  switchOf cfg al2 p.switch <|
  innerOf cfg F ip body al2

/-! ## the other statements: i18n settings, METAL, `i18n:name`, `tal:on-error`

With these every element is covered (`specFull`).  Three things stay opaque, i.e. are rendered by the interpreter itself on
both sides: a `metal:use-macro`/`extend-macro` element (`useOf`), the in-place use of a macro the element defines
(`macroOf`: the macro's body is looked up by name at render time), and a static `i18n:translate` with its collected
names (`contentFullOf`). -/

/-- `i18n:domain`: in force while the element renders, then the previous one again -/
def domainOf (d : Option Tok) (k : RM Unit) : RM Unit :=
  match d with
  | none => k
  | some cl => do
    let s ← mGet
    let old := s.env.topFrame.domain
    modFrame (fun fr => { fr with domain := some cl.str })
    k
    modFrame (fun fr => { fr with domain := old })

/-- `i18n:context` -/
def contextOf (c : Option Tok) (k : RM Unit) : RM Unit :=
  match c with
  | none => k
  | some cl => do
    let s ← mGet
    let old := s.env.topFrame.context
    modFrame (fun fr => { fr with context := some cl.str })
    k
    modFrame (fun fr => { fr with context := old })

/-- `i18n:target`: the expression may use `default` for the current target language -/
def targetOf (cfg : ECfg) (al : List (Str × Val)) (t : Option Tok) (k : List (Str × Val) → RM Unit) : RM Unit :=
  match t with
  | none => k al
  | some cl => do
    let cur ← enVal cfg al (.pyName (lit "target_language"))
    let al' := (lit "default", cur) :: al
    let s ← mGet
    let old := s.env.topFrame.targetLang
    let v ← enVal cfg al' (.value cl)
    modFrame (fun fr => { fr with targetLang := v })
    setVar (lit "target_language") v
    k al'
    modFrame (fun fr => { fr with targetLang := old })
    setVar (lit "target_language") old

/-- `metal:define-slot`: the caller's filler (run as a callee: enter, render, leave) when there is one, else the element -/
def slotOf (cfg : ECfg) (F : Nat) (ds : Option Tok) (k : RM Unit) : RM Unit :=
  match ds with
  | none => k
  | some nm => fun s =>
    match lookupAssoc s.env.topFrame.slotFns (mangleName nm.str) with
    | some (some cid) =>
      match s.closures[cid]? with
      | none => .unsupported "unknown slot closure"
      | some cl =>
        match eval cfg cl.al F cl.node (fillerEnter cl s) with
        | .ok () s' => .ok () (fillerLeave s s')
        | .raised ex s' => .raised ex (fillerRaise s s')
        | .unsupported w => .unsupported w
    | _ => k s

/-- `i18n:name`: the element renders into a stream of its own; the placeholder goes to the output, the markup to the mapping -/
def nameOf (n : Option Tok) (k : RM Unit) : RM Unit :=
  match n with
  | none => k
  | some nm => do
    pushStream
    k
    let v ← popStream
    emit (lit "${" ++ nm.str ++ lit "}")
    setTName nm.str v

/-- `tal:on-error`: if the element raises an `Exception`, what it emitted is cut off, `error` is bound, the handler is
counted, the records of the failure are dropped, and the fallback renders in its place -/
def onErrorOf (cfg : ECfg) (id : Nat) (fallback : RM Unit) (k : RM Unit) : RM Unit := fun s =>
  let key := if cfg.tc.q.sharedFallbackVar then 0 else id
  let savedLen := (s.streams.headD []).length
  let depth := s.streams.length
  let s1 : RState := { s with env := match s.env.frames with
    | fr :: rest => { s.env with frames := { fr with saved := (key, savedLen) :: fr.saved.filter (·.1 != key) } :: rest }
    | [] => s.env }
  match k s1 with
  | .ok () s' => .ok () s'
  | .unsupported w => .unsupported w
  | .raised ex s' =>
    if !isSubclass cfg ex.cls ["Exception"] then .raised ex s'
    else match onErrorHandle cfg key depth savedLen ex s' with
      | none => .unsupported "unreachable: the handler always runs"
      | some s2 => fallback { s2 with tmaps := s2.tmaps.drop (s2.tmaps.length - s.tmaps.length),
                                      errs := s2.errs.extract 0 s.errs.size }

/-- the children / `tal:content`; a static `i18n:translate` around them is rendered by the interpreter -/
def contentFullOf (cfg : ECfg) (F : Nat) (ip : InnerSpec) (bodyNode : Node) (body : List (Str × Val) → RM Unit)
    (al : List (Str × Val)) : RM Unit :=
  match ip.translate with
  | none => contentOf cfg ip body al
  | some _ => eval cfg al F (ip.contentNode bodyNode)

def taggedFullOf (cfg : ECfg) (F : Nat) (ip : InnerSpec) (bodyNode : Node) (body : List (Str × Val) → RM Unit)
    (al : List (Str × Val)) : RM Unit :=
  if ip.omitAlways then contentFullOf cfg F ip bodyNode body al
  else match ip.omitExpr with
    | some (oid, cl) => do
      let v ← enVal cfg al (.negate (.value cl))
      setCache oid v
      let shown := do
        let c ← liftX (fun env => evalCond cfg al env 16 (.e (.ref oid)))
        vTruthy cfg c
      let b1 ← shown
      (if b1 then eval cfg al F ip.startTag else pure ())
      contentFullOf cfg F ip bodyNode body al
      match ip.endTag with
      | some e => do
        let b2 ← shown
        (if b2 then eval cfg al F e else pure ())
      | none => pure ()
    | none => do
      eval cfg al F ip.startTag
      contentFullOf cfg F ip bodyNode body al
      match ip.endTag with
      | some e => eval cfg al F e
      | none => pure ()

def innerFullOf (cfg : ECfg) (F : Nat) (p : ElemStmts) (slots : List (Tok × Node)) (bodyNodes : List Node)
    (body : List (Str × Val) → RM Unit) (al : List (Str × Val)) : RM Unit :=
  match p.kind with
  | .macroUse _ _ => eval cfg al F (p.innerNode slots bodyNodes)          -- a macro use: opaque here (C09)
  | .tal ip =>
    match ip.replace with
    | none => taggedFullOf cfg F ip (.seq bodyNodes) body al
    | some r => insertOr cfg al r (taggedFullOf cfg F ip (.seq bodyNodes) body)

/-- the element renders the in-place use of the macro it defines (looked up by name when rendering) -/
def macroOf (cfg : ECfg) (F : Nat) (al : List (Str × Val)) (dm : Option Tok) (k : RM Unit) : RM Unit :=
  match dm with
  | none => k
  | some cl => eval cfg al F (.useInternal (some cl.str))

/-- **the statement semantics of any element**: `tal:on-error` around `i18n:name` around (the in-place use of a defined
macro, or) `metal:define-slot` around the definitions, the guards, repetition, the switch value, the i18n settings and
the inner part -/
def specFull (cfg : ECfg) (F : Nat) (p : ElemStmts) (oid : Nat) (slots : List (Tok × Node)) (bodyNodes : List Node)
    (al : List (Str × Val)) : RM Unit :=
  let core : RM Unit :=
    nameOf p.name <|
    macroOf cfg F al p.defineMacro <|
    slotOf cfg F p.defineSlot <|
    definesOf cfg p.assigns al [] fun al1 =>
    caseOf cfg al1 p.case_ fun al2 =>
    conditionOf cfg al2 p.condition <|
    repeatOf cfg al2 p.repeat_ <|
    switchOf cfg al2 p.switch <|
    domainOf p.domain <|
    contextOf p.context <|
    targetOf cfg al2 p.target fun al3 =>
    innerFullOf cfg F p slots bodyNodes (fun al' => evalList cfg al' F bodyNodes) al3
  match p.onError with
  | none => core
  | some (st, expr) => onErrorOf cfg oid (eval cfg al F (p.fallback st expr)) core

/-- the elements the semantics covers: no METAL, no i18n, no `tal:on-error` -/
def talOnly (p : ElemStmts) (ip : InnerSpec) : Prop :=
  p.kind = .tal ip ∧ ip.translate = none ∧ p.defineSlot = none ∧ p.domain = none ∧ p.context = none ∧ p.target = none ∧
  p.name = none ∧ p.fillSlot = none ∧ p.defineMacro = none ∧ p.onError = none

end ChamVerif.Spec

import ChamVerif.Pipeline
/-! # Byte input: `utils.read_bytes`, `detect_encoding`, `read_xml_encoding`, `BaseTemplate.write`

The decoder is a parameter of `readBytes` (theorems hold for any decoder); `stdDecode` is the executable one
the driver uses for the UTF family, latin-1 and ASCII (other codecs: `unknown`, reported as unsupported). -/
namespace ChamVerif

abbrev Bytes := List Nat

inductive DecRes
  | ok (s : Str)
  | error          -- UnicodeDecodeError
  | unknown        -- a codec the model does not implement
  deriving Repr, DecidableEq, Inhabited

/-! ## codecs -/

def isCont (b : Nat) : Bool := 128 ≤ b && b ≤ 191

/-- strict UTF-8 (no overlong forms, no surrogates, ≤ U+10FFFF), as CPython decodes -/
def decodeUtf8 : Bytes → Option Str
  | [] => some []
  | b0 :: rest =>
    if b0 < 128 then (decodeUtf8 rest).map (b0 :: ·)
    else if 194 ≤ b0 && b0 ≤ 223 then
      match rest with
      | b1 :: r => if isCont b1 then (decodeUtf8 r).map (((b0 - 192) * 64 + (b1 - 128)) :: ·) else none
      | _ => none
    else if 224 ≤ b0 && b0 ≤ 239 then
      match rest with
      | b1 :: b2 :: r =>
        let lo := if b0 == 224 then 160 else 128
        let hi := if b0 == 237 then 159 else 191
        if lo ≤ b1 && b1 ≤ hi && isCont b2 then
          (decodeUtf8 r).map (((b0 - 224) * 4096 + (b1 - 128) * 64 + (b2 - 128)) :: ·)
        else none
      | _ => none
    else if 240 ≤ b0 && b0 ≤ 244 then
      match rest with
      | b1 :: b2 :: b3 :: r =>
        let lo := if b0 == 240 then 144 else 128
        let hi := if b0 == 244 then 143 else 191
        if lo ≤ b1 && b1 ≤ hi && isCont b2 && isCont b3 then
          (decodeUtf8 r).map (((b0 - 240) * 262144 + (b1 - 128) * 4096 + (b2 - 128) * 64 + (b3 - 128)) :: ·)
        else none
      | _ => none
    else none

def units16 (le : Bool) : Bytes → Option (List Nat)
  | [] => some []
  | [_] => none
  | a :: b :: r => (units16 le r).map ((if le then a + 256 * b else 256 * a + b) :: ·)

def joinSurrogates : List Nat → Option Str
  | [] => some []
  | u :: r =>
    if 0xD800 ≤ u && u ≤ 0xDBFF then
      match r with
      | v :: r' => if 0xDC00 ≤ v && v ≤ 0xDFFF then (joinSurrogates r').map ((0x10000 + (u - 0xD800) * 1024 + (v - 0xDC00)) :: ·) else none
      | [] => none
    else if 0xDC00 ≤ u && u ≤ 0xDFFF then none
    else (joinSurrogates r).map (u :: ·)

def decodeUtf16 (le : Bool) (b : Bytes) : Option Str := (units16 le b).bind joinSurrogates

def decodeUtf32 (le : Bool) : Bytes → Option Str
  | [] => some []
  | a :: b :: c :: d :: r =>
    let cp := if le then a + 256 * b + 65536 * c + 16777216 * d else 16777216 * a + 65536 * b + 256 * c + d
    if cp > 0x10FFFF || (0xD800 ≤ cp && cp ≤ 0xDFFF) then none else (decodeUtf32 le r).map (cp :: ·)
  | _ => none

def normCodec (name : String) : String :=
  String.ofList ((name.toList.map Char.toLower).map (fun c => if c == '_' then '-' else c))

def optRes : Option Str → DecRes
  | some s => .ok s
  | none => .error

/-- `bytes.decode(codec)` for the codecs the model implements (little-endian host for the generic UTF-16/32 codecs) -/
def stdDecode (codec : String) (b : Bytes) : DecRes :=
  match normCodec codec with
  | "utf-8" | "utf8" | "u8" => optRes (decodeUtf8 b)
  | "utf-8-sig" => optRes (decodeUtf8 (if [239, 187, 191].isPrefixOf b then b.drop 3 else b))
  | "utf-16-le" | "utf-16le" => optRes (decodeUtf16 true b)
  | "utf-16-be" | "utf-16be" => optRes (decodeUtf16 false b)
  | "utf-16" | "utf16" =>
    if [255, 254].isPrefixOf b then optRes (decodeUtf16 true (b.drop 2))
    else if [254, 255].isPrefixOf b then optRes (decodeUtf16 false (b.drop 2))
    else optRes (decodeUtf16 true b)
  | "utf-32-le" | "utf-32le" => optRes (decodeUtf32 true b)
  | "utf-32-be" | "utf-32be" => optRes (decodeUtf32 false b)
  | "utf-32" | "utf32" =>
    if [255, 254, 0, 0].isPrefixOf b then optRes (decodeUtf32 true (b.drop 4))
    else if [0, 0, 254, 255].isPrefixOf b then optRes (decodeUtf32 false (b.drop 4))
    else optRes (decodeUtf32 true b)
  | "latin-1" | "latin1" | "iso-8859-1" | "iso8859-1" | "l1" => .ok b
  | "ascii" | "us-ascii" => if b.all (· < 128) then .ok b else .error
  | _ => .unknown

/-! ## sniffing -/

structure PrefixRow where
  bom : Bytes
  xmlPrefix : Bytes
  codec : String
  deriving Repr, DecidableEq, Inhabited

structure SniffCfg where
  rows : List PrefixRow
  reMeta : Re
  reEncoding : Re
  /-- the BOM branch decodes `body[len(bom):]` (after the D-17a fix) rather than the whole body -/
  bomSliced : Bool
  defaultEncoding : String

def SniffCfg.live : SniffCfg :=
  { rows := Gen.xmlPrefixes.map (fun (b, x, c) => ⟨b, x, c⟩), reMeta := Gen.RE_META, reEncoding := Gen.RE_ENCODING,
    bomSliced := Gen.bomSliced, defaultEncoding := Gen.defaultEncoding }

def asciiXmlDecl : Bytes := [60, 63, 120, 109, 108]      -- b"<?xml"
def xmlCT : Str := lit "text/xml"

inductive SniffRes
  | ok (doc : Str) (encoding : Str) (contentType : Option Str)
  | decodeError
  | unknownCodec (name : Str)
  deriving Repr, DecidableEq, Inhabited

def finishDecode (dec : String → Bytes → DecRes) (codec : Str) (payload : Bytes) (ct : Str → Option Str) : SniffRes :=
  match dec codec.toString payload with
  | .ok doc => .ok doc codec (ct doc)
  | .error => .decodeError
  | .unknown => .unknownCodec codec

/-- group `g` of a search over `s` -/
def searchGroup (r : Re) (s : List Nat) (g : Nat) : Option (List Nat) :=
  match search Gen.uni s.toArray r with
  | none => none
  | some (_, st) => (st.caps.find? (·.1 == g)).map (fun (_, a, b) => sub s.toArray a b)

/-- `detect_encoding(body, default)` on a str: (content type, encoding) of the first matching `<meta http-equiv…>` -/
def detectEncoding (c : SniffCfg) (text : List Nat) : Option Str × Str :=
  match search Gen.uni text.toArray c.reMeta with
  | none => (none, Str.ofString c.defaultEncoding)
  | some (_, st) =>
    let grp (g : Nat) : Str := ((st.caps.find? (·.1 == g)).map (fun (_, a, b) => sub text.toArray a b)).getD []
    (some (grp 1), grp 2)

/-- `read_xml_encoding(body)` -/
def readXmlEncoding (c : SniffCfg) (body : Bytes) : Option Str :=
  if asciiXmlDecl.isPrefixOf body then searchGroup c.reEncoding body 1 else none

/-- the loop over `_xml_prefixes` -/
def sniffRows (c : SniffCfg) (dec : String → Bytes → DecRes) (body : Bytes) : List PrefixRow → Option SniffRes
  | [] => none
  | row :: rest =>
    if row.bom.isPrefixOf body then
      some (finishDecode dec (Str.ofString row.codec) (if c.bomSliced then body.drop row.bom.length else body)
        (fun doc => if isXmlDoc doc then some xmlCT else none))
    else if row.xmlPrefix != asciiXmlDecl && row.xmlPrefix.isPrefixOf body then
      some (finishDecode dec (Str.ofString row.codec) body (fun _ => some xmlCT))
    else sniffRows c dec body rest

/-- `read_bytes(body, default_encoding)` -/
def readBytes (c : SniffCfg) (dec : String → Bytes → DecRes) (body : Bytes) : SniffRes :=
  match sniffRows c dec body c.rows with
  | some r => r
  | none =>
    if asciiXmlDecl.isPrefixOf body then
      finishDecode dec ((readXmlEncoding c body).getD (Str.ofString c.defaultEncoding)) body (fun _ => some xmlCT)
    else
      -- `body.decode('ascii', 'ignore')`
      let (ct, enc) := detectEncoding c (body.filter (· < 128))
      finishDecode dec enc body (fun _ => ct)

/-- the content type `BaseTemplate.write` derives for a *str* body -/
def strContentType (c : SniffCfg) (doc : Str) : Option Str :=
  if isXmlDoc doc then some xmlCT else (detectEncoding c doc).1

/-- XML mode: `content_type == 'text/xml'` (`content_type or default_content_type`) -/
def isXmlCT (ct : Option Str) : Bool := ct == some xmlCT

/-- `PageTemplate(bytes, …)(**vars)` -/
def renderBytes (c : SniffCfg) (dec : String → Bytes → DecRes) (r : RenderReq) (body : Bytes) : Outcome :=
  match readBytes c dec body with
  | .ok doc _ ct => render { r with src := doc, xmlMode := some (isXmlCT ct) }
  | .decodeError => .crash "UnicodeDecodeError"
  | .unknownCodec n => .unsupported ("codec " ++ n.toString)

/-- `PageTemplate(str, …)(**vars)` with the content type decision of `write` -/
def renderStr (c : SniffCfg) (r : RenderReq) : Outcome :=
  render { r with xmlMode := some (isXmlCT (strContentType c r.src)) }

end ChamVerif

import ChamVerif.Value
/-! `utils.Scope`: a dict with a shared root dict.  Scopes are handles into a store, because
`copy()` shares the root *by reference* and `set_global` writes through it. -/
namespace ChamVerif

abbrev Dict := List (Str × Val)

def Dict.get : Dict → Str → Option Val
  | [], _ => none
  | (a, b) :: r, k => if a == k then some b else Dict.get r k
/-- `d[k] = v` keeps the insertion position of an existing key (Python dict order) -/
def Dict.set : Dict → Str → Val → Dict
  | [], k, v => [(k, v)]
  | (a, b) :: r, k, v => if a == k then (k, v) :: r else (a, b) :: Dict.set r k v
def Dict.del : Dict → Str → Dict
  | [], _ => []
  | (a, b) :: r, k => if a == k then r else (a, b) :: Dict.del r k
def Dict.keys (d : Dict) : List Str := d.map (·.1)

structure ScopeStore where
  dicts : List Dict                 -- own dictionary of scope i
  rootOf : List (Option Nat)        -- `_root` of scope i (`none`: the attribute is not set)
  deriving Inhabited

namespace ScopeStore

def own (s : ScopeStore) (i : Nat) : Dict := s.dicts.getD i []
def root (s : ScopeStore) (i : Nat) : Option Nat := (s.rootOf.getD i none)
def setOwn (s : ScopeStore) (i : Nat) (d : Dict) : ScopeStore := { s with dicts := s.dicts.set i d }

/-- `Scope(d)` -/
def new (s : ScopeStore) (d : Dict) : ScopeStore × Nat :=
  ({ dicts := s.dicts ++ [d], rootOf := s.rootOf ++ [none] }, s.dicts.length)

/-- `scope.get(key, default)`: own dict, then the root's own dict -/
def get (s : ScopeStore) (i : Nat) (k : Str) : Option Val :=
  match (s.own i).get k with
  | some v => some v
  | none => match s.root i with
    | some r => (s.own r).get k
    | none => none

/-- `scope.copy()`: copies the own dict, shares the root (or makes the copied scope the root) -/
def copy (s : ScopeStore) (i : Nat) : ScopeStore × Nat :=
  let r := match s.root i with | some r => r | none => i
  ({ dicts := s.dicts ++ [s.own i], rootOf := s.rootOf ++ [some r] }, s.dicts.length)

def setItem (s : ScopeStore) (i : Nat) (k : Str) (v : Val) : ScopeStore := s.setOwn i ((s.own i).set k v)
def delItem (s : ScopeStore) (i : Nat) (k : Str) : Option ScopeStore :=
  if ((s.own i).get k).isSome then some (s.setOwn i ((s.own i).del k)) else none     -- KeyError otherwise
/-- `scope.set_global(name, value)`: `root[name] = value` -/
def setGlobal (s : ScopeStore) (i : Nat) (k : Str) (v : Val) : ScopeStore :=
  let r := match s.root i with | some r => r | none => i
  s.setOwn r ((s.own r).set k v)
/-- `list(scope)`: own keys, then root keys not in the own dict -/
def iter (s : ScopeStore) (i : Nat) : List Str :=
  let o := s.own i
  o.keys ++ (match s.root i with
    | some r => (s.own r).keys.filter (fun k => (o.get k).isNone)
    | none => [])
def update (s : ScopeStore) (i : Nat) (d : Dict) : ScopeStore :=
  s.setOwn i (d.foldl (fun acc (k, v) => acc.set k v) (s.own i))

end ScopeStore
end ChamVerif

import ChamVerif.Eval
/-! `PageTemplate(src, **cfg)(**bindings)`: source → tokens → elements → nodes → compile
checks (in the compiler's visiting order) → rendering, with the error records the code produces. -/
namespace ChamVerif

/-- non-strict mode swallows `ExpressionError`s at compile time (they are raised when reached) -/
def laxFilter (strict : Bool) (r : CRes Unit) : CRes Unit :=
  match r with
  | .error (.template cls msg tok) => if cls == "ExpressionError" && !strict then pure () else .error (.template cls msg tok)
  | r => r

/-- compile every expression an expression node holds (what `ExpressionTransform` does when
the compiler reaches it); non-strict mode swallows `ExpressionError`s here -/
def compileEN (tc : TCfg) (strict : Bool) : Nat → EN → CRes Unit
  | 0, _ => pure ()
  | f+1, e =>
    let lax := laxFilter strict
    match e with
    | .value tok | .valueD tok _ | .subst tok _ _ _ | .boolean tok _ _ =>
      lax (do
        let t ← compileTales tc 64 tok
        if t.hasUnsupported then .error (.crash "unsupported: expression outside the modelled subset") else pure ())
    | .interp tok _ _ _ required _ => lax (do
        let ps ← compileInterp tc 64 tok required tc.decodeInterp
        if partsUnsupported ps then .error (.crash "unsupported: expression outside the modelled subset") else pure ())
    | .replace e _ | .translate _ e | .negate e => compileEN tc strict f e
    | .binop l _ r => do compileEN tc strict f l; compileEN tc strict f r
    | _ => pure ()

def compileCond (tc : TCfg) (strict : Bool) : Nat → CondE → CRes Unit
  | 0, _ => pure ()
  | f+1, c =>
    match c with
    | .e x => compileEN tc strict 16 x
    | .and_ xs | .or_ xs => xs.forM (compileCond tc strict f)

def checkNames (names : List Tok) (dunder : Bool) : CRes Unit :=
  names.forM (fun nm =>
    if compilerDisallowed.contains nm.str.toString then
      .error (.template "TranslationError" "Name disallowed by compiler." nm)
    else if dunder && startsWith nm.str (lit "__") then
      .error (.template "TranslationError" "Name disallowed by compiler (double underscore)." nm)
    else pure ())

mutual
/-- `Compiler.visit(node)` as far as it can raise: names, i18n:name placement, expressions.
`trans` is the stack of translation-name sets (`Compiler._translations`). -/
def checkNode (tc : TCfg) (strict : Bool) : Nat → List (List Str) → Node → CRes (List (List Str))
  | 0, tr, _ => pure tr
  | f+1, tr, n =>
    match n with
    | .text _ | .end_ .. | .useInternal _ | .codeBlock _ => pure tr
    | .seq ns => checkNodes tc strict f tr ns
    | .element st en ct => do
      let tr ← checkNode tc strict f tr st
      let tr ← checkNode tc strict f tr ct
      match en with
      | some e => checkNode tc strict f tr e
      | none => pure tr
    | .start _ _ _ attrs => checkNode tc strict f tr attrs
    | .attribute _ e .. => do compileEN tc strict 16 e; pure tr
    | .dictAttrs _ e _ => do compileEN tc strict 16 e; pure tr
    | .content e _ _ => do compileEN tc strict 16 e; pure tr
    | .interpolation e => do compileEN tc strict 16 e; pure tr
    | .condition c node orelse => do
      compileCond tc strict 16 c
      let tr ← checkNode tc strict f tr node
      match orelse with
      | some o => checkNode tc strict f tr o
      | none => pure tr
    | .cache es node => do
      es.forM (fun (_, e) => compileEN tc strict 16 e)
      checkNode tc strict f tr node
    | .cancel _ node => checkNode tc strict f tr node
    | .define assigns node => do
      assigns.forM (fun a => match a with
        | .alias _ e => compileEN tc strict 16 e
        | .assign names e _ => do checkNames names true; compileEN tc strict 16 e)
      checkNode tc strict f tr node
    | .repeat_ _ names e _ _ node => do
      checkNames names false
      compileEN tc strict 16 e
      checkNode tc strict f tr node
    | .onError _ fallback node => do
      let tr ← checkNode tc strict f tr fallback
      checkNode tc strict f tr node
    | .translate _ _ node => do
      let tr' ← checkNode tc strict f ([] :: tr) node
      pure (tr'.drop 1)
    | .name nm node =>
      match tr with
      | [] => .error (.template "TranslationError" "Not allowed outside of translation." nm)
      | top :: rest =>
        if top.contains nm.str then .error (.template "TranslationError" "Duplicate translation name: %s." nm)
        else checkNode tc strict f ((nm.str :: top) :: rest) node
    | .domain _ node | .txContext _ node => checkNode tc strict f tr node
    | .target e node => do compileEN tc strict 16 e; checkNode tc strict f tr node
    | .defineSlot _ node => checkNode tc strict f tr node
    | .useExternal e slots _ => do
      let tr ← slots.foldlM (fun tr (_, sn) => checkNode tc strict f tr sn) tr
      compileEN tc strict 16 e
      pure tr
def checkNodes (tc : TCfg) (strict : Bool) : Nat → List (List Str) → List Node → CRes (List (List Str))
  | 0, tr, _ => pure tr
  | _, tr, [] => pure tr
  | f+1, tr, n :: ns => do
    let tr ← checkNode tc strict f tr n
    checkNodes tc strict f tr ns
end

structure RenderReq where
  src : Str
  textMode : Bool := false
  strict : Bool := true
  bcfg : BCfg := {}
  booleanAttrs : Option (List Str) := none       -- `boolean_attributes=` as passed (none = not configured)
  oracle : PyOracle := []
  tab : ObjTab := []
  vars : List (Str × Val) := []
  pyBuiltins : List String := []
  talesExc : List String := []
  existsExc : List String := []
  excParents : List (String × List String) := []
  htmlBooleans : List Str := []
  /-- `content_type == 'text/xml'` as decided by `write` (none: decided by the `<?xml` prefix alone) -/
  xmlMode : Option Bool := none
  /-- sources of other templates passed in as variables (`Val.template_ k` is `libs[k-1]`), default configuration -/
  libs : List Str := []

structure ErrorOut where
  text : Str
  line : Nat
  col : Nat
  deriving Repr, Inhabited

inductive Outcome
  | out (s : Str) (log : Array Str) (tlog : Array TCall) (handled : Nat)
  | templateError (cls msg : String) (tok : Tok) (line col : Nat)
  | crash (cls : String)
  | raised (e : Exc) (errors : List ErrorOut) (log : Array Str) (tlog : Array TCall)
  | unsupported (why : String)
  deriving Inhabited

/-- what `BaseTemplate.render` attaches to an exception that escaped the render function:
`rcontext['__error__']` records, through `create_formatted_exception` (which cannot mix `RenderError`
into `Exception`/`BaseException` themselves, and — after the D-12a fix — leaves everything outside the
`Exception` hierarchy alone) -/
def errorRecords (cfg : ECfg) (body : Str) (ex : Exc) (token : Option (Nat × Nat)) (inner : List (Nat × Nat) := []) : List ErrorOut :=
  if ex.cls == "Exception" || ex.cls == "BaseException" || !isSubclass cfg ex.cls ["Exception"] then [] else
    -- records of the macro functions the exception passed through (innermost first), then the render function's own
    (inner ++ (match token with | some t => [t] | none => [])).map (fun (pos, len) =>
      let _ := body
      let (src, p) := cfg.locate pos
      let (l, c) := Tok.location src { str := [], pos := p }
      { text := (src.drop p).take len, line := l, col := c })

/-- the compiler's pass over the program: macros in definition order, then the template body -/
def compileCheck (tc : TCfg) (strict : Bool) (fuel : Nat) (macros : List (Str × Node)) (node : Node) : CRes Unit := do
  let tr ← macros.foldlM (fun tr (_, m) => checkNode tc strict fuel tr m) []
  let _ ← checkNode tc strict fuel tr node
  pure ()

/-- `PageTemplate(src, …)(**vars)` -/
def render (r : RenderReq) : Outcome :=
  -- the content type is sniffed from the source whatever the template class: a text that begins with an XML declaration is
  -- text/xml too and keeps its line ends; the HTML defaults (boolean attributes) concern markup templates only
  let keep := r.xmlMode.getD (isXmlDoc r.src)
  let xml := keep && !r.textMode
  let body := if keep then r.src else normalizeNewlines r.src
  let booleans : List Str := match r.booleanAttrs with
    | some b => b
    | none => if xml then [] else r.htmlBooleans
  let bcfg : BCfg := { r.bcfg with booleanAttrs := booleans, escape := !r.textMode }
  let tc : TCfg := { rx := bcfg.rx, q := bcfg.q, oracle := r.oracle, decodeInterp := !r.textMode }
  match buildProgram bcfg r.textMode body with
  | .error (.template cls msg tok) =>
    let (l, c) := Tok.location body tok
    .templateError cls msg tok l c
  | .error (.templateNoSrc cls msg tok) => .templateError cls msg { str := tok, pos := 0 } 0 0
  | .error (.crash cls) => if cls.startsWith "unsupported" then .unsupported cls else .crash cls
  | .ok (node, macros) =>
    let fuel := 8 * body.length + 64
    match compileCheck tc r.strict fuel macros node with
    | .error (.template cls msg tok) =>
      let (l, c) := Tok.location body tok
      .templateError cls msg tok l c
    | .error (.templateNoSrc cls msg tok) => .templateError cls msg { str := tok, pos := 0 } 0 0
    | .error (.crash cls) => if cls.startsWith "unsupported" then .unsupported cls else .crash cls
    | .ok () =>
      -- library templates (default configuration): built and checked like the main one; their positions follow it
      let libsR : Except String (List LibTpl × Nat) := r.libs.foldlM (fun (acc : List LibTpl × Nat) lsrc =>
        let lxml := isXmlDoc lsrc
        let lbody := if lxml then lsrc else normalizeNewlines lsrc
        let lcfg : BCfg := { r.bcfg with booleanAttrs := if lxml then [] else r.htmlBooleans, escape := true }
        match buildProgram lcfg false lbody acc.2 with
        | .error _ => .error "a library template does not compile"
        | .ok (lnode, lmacros) =>
          match compileCheck tc true (8 * lbody.length + 64) lmacros lnode with
          | .error _ => .error "a library template does not compile"
          | .ok () => .ok (acc.1 ++ [{ src := lbody, base := acc.2, macros := lmacros, body := lnode }], acc.2 + lbody.length + 1))
        ([], body.length + 1)
      match libsR with
      | .error w => .unsupported w
      | .ok (libs, _) =>
      let cfg : ECfg := { tc := tc, tab := r.tab, pyBuiltins := r.pyBuiltins, talesExc := r.talesExc,
                          existsExc := r.existsExc, excParents := r.excParents, booleanAttrs := booleans,
                          src := body, macros := macros, body := node, libs := libs }
      let env0 : Env := { own := r.vars ++ [(lit "repeat", .repeatDict), (lit "target_language", .none)],
                          root := [], rcontext := [], repeats := [], frames := [{}] }
      let init : RState := { streams := [[]], env := env0, x := {}, handled := 0 }
      match eval cfg [] fuel node init with
      | .ok () s => .out (s.streams.getLast?.getD []) s.x.log s.x.tlog s.handled
      | .unsupported w => .unsupported w
      | .raised ex s =>
        -- the render function's handler records tokens[__token]
        let errs := errorRecords cfg body ex s.x.token s.errs.toList
        .raised ex errs s.x.log s.x.tlog

end ChamVerif

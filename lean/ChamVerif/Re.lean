/-! Python-`re` subset used by chameleon: syntax and backtracking (CPS) semantics. Total, executable, core Lean only. -/
namespace ChamVerif

inductive Cat | space | digit | word deriving Repr, DecidableEq
inductive ClsItem
  | ch (c : Nat) | range (lo hi : Nat) | cat (neg : Bool) (k : Cat) (asciiOnly : Bool)
  deriving Repr
inductive AtKind | bos | eos | eol | bol | eolm deriving Repr, DecidableEq

inductive Re
  | eps
  | chr (c : Nat)
  | cls (neg : Bool) (items : List ClsItem)
  | any (dotall : Bool)
  | seq (a b : Re) | alt (a b : Re)
  | rep (greedy : Bool) (min : Nat) (max : Option Nat) (r : Re)
  | grp (i : Nat) (r : Re) | bref (i : Nat)
  | look (behind neg : Bool) (r : Re)
  | at (k : AtKind)
  deriving Repr

structure Uni where
  space : Array (Nat × Nat)
  digit : Array (Nat × Nat)
  word  : Array (Nat × Nat)

def inRanges (t : Array (Nat × Nat)) (c : Nat) : Bool := t.any (fun (lo, hi) => lo ≤ c && c ≤ hi)

def catMem (u : Uni) (k : Cat) (asciiOnly : Bool) (c : Nat) : Bool :=
  if asciiOnly then
    match k with
    | .space => c == 32 || (9 ≤ c && c ≤ 13)
    | .digit => 48 ≤ c && c ≤ 57
    | .word => (48 ≤ c && c ≤ 57) || (65 ≤ c && c ≤ 90) || (97 ≤ c && c ≤ 122) || c == 95
  else
    match k with
    | .space => inRanges u.space c
    | .digit => inRanges u.digit c
    | .word => inRanges u.word c

def itemMem (u : Uni) (c : Nat) : ClsItem → Bool
  | .ch d => c == d
  | .range lo hi => lo ≤ c && c ≤ hi
  | .cat neg k a => (catMem u k a c) != neg

abbrev Caps := List (Nat × Nat × Nat)
structure St where
  pos : Nat
  caps : Caps
  deriving Repr

abbrev K (α : Type) := St → Option α
abbrev M (α : Type) := St → K α → Option α

def canMore (mx : Option Nat) (cnt : Nat) : Bool :=
  match mx with | none => true | some m => cnt < m

/-- one more iteration of a repeat body, then `next`; an iteration that consumes nothing
(beyond the mandatory minimum) ends the loop (sre's empty-iteration rule) -/
def repMore {α} (body : M α) (mn : Nat) (mx : Option Nat) (cnt : Nat) (st : St) (next : K α) : Option α :=
  if canMore mx cnt then
    body st (fun st' => if st'.pos > st.pos || cnt < mn then next st' else none)
  else none

def repM {α} (greedy : Bool) (body : M α) (min : Nat) (max : Option Nat) : Nat → Nat → M α
  | 0, _, st, k => k st
  | fuel+1, cnt, st, k =>
    let more : Option α := repMore body min max cnt st (fun st' => repM greedy body min max fuel (cnt+1) st' k)
    if cnt < min then more
    else if greedy then more <|> k st else k st <|> more

def sub (s : Array Nat) (a b : Nat) : List Nat := (s.toList.drop a).take (b - a)

def atOk (s : Array Nat) (kind : AtKind) (pos : Nat) : Bool :=
  let n := s.size
  match kind with
  | .bos => pos == 0
  | .eos => pos == n
  | .eol => pos == n || (pos + 1 == n && s[pos]! == 10)
  | .bol => pos == 0 || s[pos - 1]! == 10
  | .eolm => pos == n || s[pos]! == 10

def den {α} (u : Uni) (s : Array Nat) : Re → M α
  | .eps, st, k => k st
  | .chr c, st, k => if h : st.pos < s.size then (if s[st.pos] == c then k { st with pos := st.pos + 1 } else none) else none
  | .cls neg items, st, k =>
      if h : st.pos < s.size then
        (if (items.any (itemMem u s[st.pos])) != neg then k { st with pos := st.pos + 1 } else none) else none
  | .any dotall, st, k =>
      if h : st.pos < s.size then (if dotall || s[st.pos] != 10 then k { st with pos := st.pos + 1 } else none) else none
  | .seq a b, st, k => den u s a st (fun st' => den u s b st' k)
  | .alt a b, st, k => den u s a st k <|> den u s b st k
  | .rep g mn mx r, st, k => repM g (den u s r) mn mx (s.size - st.pos + mn + 1) 0 st k
  | .look behind neg r, st, k =>
      -- look-behind: only width-1 bodies occur; try from pos-1 and require it to end at pos
      let res : Option Unit :=
        if behind then
          if st.pos = 0 then none
          else den (α := Unit) u s r { st with pos := st.pos - 1 } (fun st' => if st'.pos = st.pos then some () else none)
        else den (α := Unit) u s r st (fun _ => some ())
      match res with
      | some _ => if neg then none else k st
      | none => if neg then k st else none
  | .grp i r, st, k => den u s r st (fun st' => k { st' with caps := (i, st.pos, st'.pos) :: st'.caps })
  | .bref i, st, k =>
      match st.caps.find? (·.1 == i) with
      | none => none
      | some (_, a, b) =>
        let w := sub s a b
        if st.pos + w.length ≤ s.size && sub s st.pos (st.pos + w.length) == w then k { st with pos := st.pos + w.length } else none
  | .at kind, st, k => if atOk s kind st.pos then k st else none

def matchAt (u : Uni) (s : Array Nat) (r : Re) (i : Nat) : Option St :=
  den u s r { pos := i, caps := [] } some

def searchFrom (u : Uni) (s : Array Nat) (r : Re) : Nat → Nat → Option (Nat × St)
  | 0, _ => none
  | fuel+1, i =>
    if i > s.size then none else
    match matchAt u s r i with
    | some st => some (i, st)
    | none => searchFrom u s r fuel (i+1)

def search (u : Uni) (s : Array Nat) (r : Re) (start : Nat := 0) : Option (Nat × St) :=
  searchFrom u s r (s.size + 2 - start) start

/-- finditer for patterns that never match empty. -/
def finditerAux (u : Uni) (s : Array Nat) (r : Re) : Nat → Nat → List (Nat × St)
  | 0, _ => []
  | fuel+1, i =>
    match search u s r i with
    | none => []
    | some (a, st) => (a, st) :: finditerAux u s r fuel (if st.pos > a then st.pos else a + 1)

def finditer (u : Uni) (s : Array Nat) (r : Re) : List (Nat × St) := finditerAux u s r (s.size + 1) 0

def nGroups : Re → Nat
  | .seq a b | .alt a b => max (nGroups a) (nGroups b)
  | .rep _ _ _ r | .look _ _ r => nGroups r
  | .grp i r => max i (nGroups r)
  | _ => 0

def showMatch (r : Re) (a : Nat) (st : St) : String :=
  let gs := (List.range (nGroups r)).map (fun j =>
    match st.caps.find? (·.1 == j+1) with
    | some (_, x, y) => s!"{x},{y}"
    | none => "-")
  s!"{a},{st.pos}" ++ String.join (gs.map (fun g => ";" ++ g))

end ChamVerif

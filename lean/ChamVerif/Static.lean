import ChamVerif.Parse
import ChamVerif.Quirks
/-! The statement-free path of the pipeline: source → tokens → element tree → emitted text,
for documents that carry no template statement, no `${…}` and no code block.  Anything else is
`unsupported` here (it belongs to the full node interpreter). -/
namespace ChamVerif

inductive SErr
  | unsupported (why : String)
  | cerr (e : CErr)
  deriving Repr, DecidableEq, Inhabited

abbrev SRes := Except SErr

def liftC {α} : CRes α → SRes α
  | .ok a => .ok a
  | .error e => .error (.cerr e)

abbrev undouble := undoubleDollar

def TAL : Str := lit "http://xml.zope.org/namespaces/tal"
def METAL : Str := lit "http://xml.zope.org/namespaces/metal"
def I18N : Str := lit "http://xml.zope.org/namespaces/i18n"
def META : Str := lit "http://xml.zope.org/namespaces/meta"
def dropNs : List Str := [TAL, METAL, I18N, META]

def staticText (s : Str) : SRes Str :=
  if hasInterp s then .error (.unsupported "interpolation") else .ok (undouble s)

def staticStart (e : Elem) : SRes Str := do
  if dropNs.contains e.ns then throw (.unsupported "language element")
  if e.nsAttrs.any (fun ((ns, _), v) => dropNs.contains ns || (ns == XMLNS_NS && dropNs.contains v.str)) then
    throw (.unsupported "language attribute")
  if e.tag.attrs.any (fun a => hasInterp a.value.str) then throw (.unsupported "attribute interpolation")
  match e.tag.suffix with
  | none => throw (.cerr (.crash "TypeError"))
  | some _ => pure e.tag.reassemble

/-- end tags are emitted as `prefix + name + suffix` on `Token`s, and `Token + None` is the token -/
def staticEnd (q : Quirks) (e : Elem) : SRes Str :=
  pure (e.tag.reassembleEnd q.endTagSpaceTwice)

mutual
def staticItem (q : Quirks) : Item → SRes Str
  | .text t => staticText t.str
  | .comment t =>
    if startsWith t.str (lit "<!--!") then pure []
    else if startsWith t.str (lit "<!--?") then
      if q.verbatimCommentLstrip then pure (lit "<!--" ++ t.str.dropWhile (fun c => (lit "<!-?").contains c))
      else pure (lit "<!--" ++ t.str.drop 5)
    else if hasInterp t.str then throw (.unsupported "comment interpolation") else pure t.str
  | .cdata t => if hasInterp t.str then throw (.unsupported "cdata interpolation") else pure t.str
  | .dflt t => pure t.str
  | .pi name text =>
    if name.str = lit "python" then throw (.unsupported "code block")
    else staticText (lit "<?" ++ name.str ++ text.str ++ lit "?>")
  | .startTag e => staticStart e
  | .element s e cs => do
    let a ← staticStart s
    let b ← staticItems q cs
    let c ← match e with
      | some e => staticEnd q e
      | none => pure []
    pure (a ++ b ++ c)
def staticItems (q : Quirks) : List Item → SRes Str
  | [] => pure []
  | i :: is => do
    let a ← staticItem q i
    let b ← staticItems q is
    pure (a ++ b)
end

/-- `\r\n` / `\r` → `\n` (done by `PageTemplate.parse` outside XML mode) -/
def normalizeNewlines : Str → Str
  | 13 :: 10 :: r => 10 :: normalizeNewlines r
  | 13 :: r => 10 :: normalizeNewlines r
  | c :: r => c :: normalizeNewlines r
  | [] => []

def isXmlDoc (s : Str) : Bool := startsWith s (lit "<?xml")

/-- `PageTemplate(src)()` for a statement-free `src` (str input) -/
def staticRenderWith (rx : Rx) (q : Quirks) (restricted : Bool) (src : Str) : SRes Str := do
  let body := if isXmlDoc src then src else normalizeNewlines src
  let items ← liftC (parseTokens rx restricted (iterXmlWith rx.xmlSpe body))
  staticItems q items

def staticRender (q : Quirks) (restricted : Bool) (src : Str) : SRes Str := staticRenderWith Rx.live q restricted src

end ChamVerif

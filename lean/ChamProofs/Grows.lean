import ChamVerif.Eval
/-! # Rendering only appends to the output

`Good m`: started with the output stack `top :: rest`, the computation `m` ends — normally or by raising — with
`top` extended at its end and `rest` untouched; when it raises there may be unfinished sub-streams (`extra`) on top.
The interpreter as a whole is `Good` (`good_eval`): nothing that was already emitted is ever changed. -/
namespace ChamVerif.Out
open ChamVerif

/-- the computation never touches the output stack -/
def Keeps {α} (m : RM α) : Prop :=
  ∀ s, (∀ a s', m s = .ok a s' → s'.streams = s.streams) ∧ (∀ e s', m s = .raised e s' → s'.streams = s.streams)

def GoodAt {α} (m : RM α) (s : RState) : Prop :=
  ∀ top rest, s.streams = top :: rest →
    (∀ a s', m s = .ok a s' → ∃ δ, s'.streams = (top ++ δ) :: rest) ∧
    (∀ e s', m s = .raised e s' → ∃ extra δ, s'.streams = extra ++ (top ++ δ) :: rest)

structure Good {α} (m : RM α) : Prop where
  at_ : ∀ s, GoodAt m s

theorem Keeps.good {α} {m : RM α} (h : Keeps m) : Good m := by
  refine ⟨fun s top rest hs => ?_⟩
  obtain ⟨h1, h2⟩ := h s
  constructor
  · intro a s' he; exact ⟨[], by rw [h1 a s' he, hs]; simp⟩
  · intro e s' he; exact ⟨[], [], by rw [h2 e s' he, hs]; simp⟩

theorem keeps_pure {α} (a : α) : Keeps (pure a : RM α) := by
  intro s
  constructor
  · intro a' s' h; cases h; rfl
  · intro e s' h; cases h

theorem keeps_raise {α} (e : Exc) : Keeps (mRaise e : RM α) := by
  intro s
  constructor
  · intro a s' h; cases h
  · intro e' s' h; cases h; rfl

theorem keeps_unsupported {α} (w : String) : Keeps (mUnsupported w : RM α) := by
  intro s
  constructor
  · intro a s' h; cases h
  · intro e' s' h; cases h

theorem keeps_get : Keeps mGet := by
  intro s
  constructor
  · intro a s' h; cases h; rfl
  · intro e s' h; cases h

theorem keeps_liftR {α} (r : R α) : Keeps (mLiftR r) := by
  intro s
  unfold mLiftR
  cases r
  all_goals
    constructor
    · intro a s' h; first | (cases h; rfl) | cases h
    · intro e s' h; first | (cases h; rfl) | cases h

theorem keeps_liftX {α} (m : Env → XM α) : Keeps (liftX m) := by
  intro s
  unfold liftX
  cases m s.env s.x
  all_goals
    constructor
    · intro a s' h; first | (cases h; rfl) | cases h
    · intro e s' h; first | (cases h; rfl) | cases h

theorem keeps_modify (f : RState → RState) (hf : ∀ s, (f s).streams = s.streams) : Keeps (mModify f) := by
  intro s
  constructor
  · intro a s' h; cases h; exact hf s
  · intro e s' h; cases h

theorem keeps_modEnv (f : Env → Env) : Keeps (modEnv f) := keeps_modify _ (fun _ => rfl)
theorem keeps_modFrame (f : Frame → Frame) : Keeps (modFrame f) := keeps_modEnv _
theorem keeps_setVar (k : Str) (v : Val) : Keeps (setVar k v) := keeps_modEnv _
theorem keeps_delVar (k : Str) : Keeps (delVar k) := keeps_modEnv _
theorem keeps_setGlobal (k : Str) (v : Val) : Keeps (setGlobal k v) := keeps_modEnv _
theorem keeps_setTName (n v : Str) : Keeps (setTName n v) :=
  keeps_modify _ (fun s => by cases h : s.tmaps <;> simp [h])
theorem keeps_enVal (cfg : ECfg) (al : List (Str × Val)) (e : EN) : Keeps (enVal cfg al e) := keeps_liftX _
theorem keeps_vTruthy (cfg : ECfg) (v : Val) : Keeps (vTruthy cfg v) := keeps_liftR _

theorem keeps_bind {α β} (m : RM α) (f : α → RM β) (hm : Keeps m) (hf : ∀ a, Keeps (f a)) : Keeps (m >>= f) := by
  intro s
  obtain ⟨h1, h2⟩ := hm s
  constructor
  · intro b s' h
    simp only [bind] at h
    cases hr : m s with
    | ok a s1 =>
      simp only [hr] at h
      rw [((hf a) s1).1 b s' h, h1 a s1 hr]
    | raised e s1 => simp [hr] at h
    | unsupported w => simp [hr] at h
  · intro e s' h
    simp only [bind] at h
    cases hr : m s with
    | ok a s1 =>
      simp only [hr] at h
      rw [((hf a) s1).2 e s' h, h1 a s1 hr]
    | raised e1 s1 =>
      simp only [hr] at h
      cases h
      exact h2 _ _ hr
    | unsupported w => simp [hr] at h

theorem keeps_forM {α} (l : List α) (f : α → RM Unit) (hf : ∀ a, Keeps (f a)) : Keeps (l.forM f) := by
  induction l with
  | nil => exact keeps_pure ()
  | cons a rest ih =>
    show Keeps (f a >>= fun _ => rest.forM f)
    exact keeps_bind _ _ (hf a) (fun _ => ih)

theorem keeps_restore (bk : List (Str × Option Val)) : Keeps (restore bk) := by
  unfold restore
  refine keeps_forM _ _ (fun kv => ?_)
  obtain ⟨k, v⟩ := kv
  cases v
  · exact keeps_delVar k
  · exact keeps_setVar k _

theorem keeps_attrFiltered_go (fr : Frame) (name : Str) : ∀ (l : List Nat), Keeps (attrFiltered.go name fr l) := by
  intro l
  induction l with
  | nil => unfold attrFiltered.go; exact keeps_pure _
  | cons id rest ih =>
    unfold attrFiltered.go
    split
    · split
      · exact keeps_pure _
      · exact ih
    · split
      · exact keeps_pure _
      · exact ih
    · split
      · exact keeps_pure _
      · exact ih
    · exact keeps_raise _
    · exact keeps_raise _
    · exact keeps_raise _
    · exact keeps_unsupported _
    · exact keeps_unsupported _

theorem keeps_attrFiltered (name : Str) (filters : List Nat) : Keeps (attrFiltered name filters) := by
  unfold attrFiltered
  exact keeps_bind _ _ keeps_get (fun s => keeps_attrFiltered_go _ _ _)

/-! ## `Good` combinators -/

theorem good_emit (t : Str) : Good (emit t) := by
  refine ⟨fun s top rest hs => ?_⟩
  constructor
  · intro a s' h
    unfold emit mModify at h
    cases h
    exact ⟨t, by simp [hs]⟩
  · intro e s' h
    cases h

theorem goodAt_bind {α β} (m : RM α) (f : α → RM β) (s : RState) (hm : GoodAt m s)
    (hf : ∀ a s', m s = .ok a s' → GoodAt (f a) s') : GoodAt (m >>= f) s := by
  intro top rest hs
  obtain ⟨h1, h2⟩ := hm top rest hs
  constructor
  · intro b s' h
    simp only [bind] at h
    cases hr : m s with
    | ok a s1 =>
      simp only [hr] at h
      obtain ⟨δ, hδ⟩ := h1 a s1 hr
      obtain ⟨δ', hδ'⟩ := ((hf a s1 hr) (top ++ δ) rest hδ).1 b s' h
      exact ⟨δ ++ δ', by rw [hδ']; simp⟩
    | raised e s1 => simp [hr] at h
    | unsupported w => simp [hr] at h
  · intro e s' h
    simp only [bind] at h
    cases hr : m s with
    | ok a s1 =>
      simp only [hr] at h
      obtain ⟨δ, hδ⟩ := h1 a s1 hr
      obtain ⟨extra, δ', hδ'⟩ := ((hf a s1 hr) (top ++ δ) rest hδ).2 e s' h
      exact ⟨extra, δ ++ δ', by rw [hδ']; simp⟩
    | raised e1 s1 =>
      simp only [hr] at h
      cases h
      exact h2 _ _ hr
    | unsupported w => simp [hr] at h

theorem good_bind {α β} (m : RM α) (f : α → RM β) (hm : Good m) (hf : ∀ a, Good (f a)) : Good (m >>= f) :=
  ⟨fun s => goodAt_bind m f s (hm.at_ s) (fun a s' _ => (hf a).at_ s')⟩

theorem good_get_bind {β} (f : RState → RM β) (hf : ∀ s0, GoodAt (f s0) s0) : Good (mGet >>= f) := by
  refine ⟨fun s => ?_⟩
  exact goodAt_bind mGet f s (keeps_get.good.at_ s) (fun a s' h => by cases h; exact hf s)

theorem good_forM {α} (l : List α) (f : α → RM Unit) (hf : ∀ a, Good (f a)) : Good (l.forM f) := by
  induction l with
  | nil => exact (keeps_pure ()).good
  | cons a rest ih =>
    show Good (f a >>= fun _ => rest.forM f)
    exact good_bind _ _ (hf a) (fun _ => ih)

/-- a sub-stream bracket: `pushStream; body; popStream >>= k` -/
theorem good_bracket {β} (body : RM Unit) (k : Str → RM β) (hb : Good body) (hk : ∀ v, Good (k v)) :
    Good (pushStream >>= fun _ => body >>= fun _ => popStream >>= k) := by
  refine ⟨fun s top rest hs => ?_⟩
  have hpush : pushStream s = .ok () { s with streams := [] :: s.streams } := rfl
  obtain ⟨hb1, hb2⟩ := hb.at_ { s with streams := [] :: s.streams } [] (top :: rest) (by simp [hs])
  constructor
  · intro b s' h
    simp only [bind, hpush] at h
    cases hr : body { s with streams := [] :: s.streams } with
    | ok u s1 =>
      simp only [hr] at h
      obtain ⟨δ, hδ⟩ := hb1 u s1 hr
      have hpop : popStream s1 = .ok ([] ++ δ) { s1 with streams := top :: rest } := by
        unfold popStream; rw [hδ]
      simp only [hpop] at h
      exact ((hk _).at_ { s1 with streams := top :: rest } top rest rfl).1 b s' h
    | raised e s1 => simp [hr] at h
    | unsupported w => simp [hr] at h
  · intro e s' h
    simp only [bind, hpush] at h
    cases hr : body { s with streams := [] :: s.streams } with
    | ok u s1 =>
      simp only [hr] at h
      obtain ⟨δ, hδ⟩ := hb1 u s1 hr
      have hpop : popStream s1 = .ok ([] ++ δ) { s1 with streams := top :: rest } := by
        unfold popStream; rw [hδ]
      simp only [hpop] at h
      exact ((hk _).at_ { s1 with streams := top :: rest } top rest rfl).2 e s' h
    | raised e1 s1 =>
      simp only [hr] at h
      cases h
      obtain ⟨extra, δ, hδ⟩ := hb2 _ _ hr
      exact ⟨extra ++ [[] ++ δ], [], by rw [hδ]; simp⟩
    | unsupported w => simp [hr] at h

end ChamVerif.Out

import ChamVerif.Re
/-! Lemma library for the backtracking regex semantics (`ChamVerif/Re.lean`). -/
namespace ChamVerif

/-- a continuation-passing matcher only moves forward -/
def Mono {α} (m : M α) : Prop :=
  ∀ st k v, m st k = some v → ∃ st', st'.pos ≥ st.pos ∧ k st' = some v

/-- … and never beyond the end of the subject -/
def Bounded {α} (n : Nat) (m : M α) : Prop :=
  ∀ st k v, st.pos ≤ n → m st k = some v → ∃ st', st'.pos ≤ n ∧ k st' = some v

theorem repMore_mono {α} (body : M α) (mn : Nat) (mx : Option Nat) (hb : Mono body)
    (cnt : Nat) (st : St) (next k : K α) (v : α)
    (hn : ∀ st' v, next st' = some v → ∃ st'', st''.pos ≥ st'.pos ∧ k st'' = some v)
    (h : repMore body mn mx cnt st next = some v) : ∃ st', st'.pos ≥ st.pos ∧ k st' = some v := by
  unfold repMore at h
  split at h
  · obtain ⟨st1, h1, h2⟩ := hb _ _ _ h
    split at h2
    · obtain ⟨st2, h3, h4⟩ := hn _ _ h2
      exact ⟨st2, by omega, h4⟩
    · simp at h2
  · simp at h

theorem repM_mono {α} (g : Bool) (body : M α) (mn : Nat) (mx : Option Nat) (hb : Mono body)
    (fuel : Nat) : ∀ (cnt : Nat), Mono (repM g body mn mx fuel cnt) := by
  induction fuel with
  | zero => intro cnt st k v h; exact ⟨st, Nat.le_refl _, by simpa [repM] using h⟩
  | succ n ih =>
    intro cnt st k v h
    simp only [repM] at h
    have hmore : ∀ v, repMore body mn mx cnt st (fun st' => repM g body mn mx n (cnt+1) st' k) = some v →
        ∃ st', st'.pos ≥ st.pos ∧ k st' = some v :=
      fun v hv => repMore_mono body mn mx hb cnt st _ k v (fun st' v hv' => ih _ _ _ _ hv') hv
    generalize repMore body mn mx cnt st (fun st' => repM g body mn mx n (cnt+1) st' k) = more at h hmore
    split at h
    · exact hmore v h
    · cases g
      · simp only [Bool.false_eq_true, if_false] at h
        cases hk : k st with
        | some w => simp [hk] at h; exact ⟨st, Nat.le_refl _, by rw [hk, h]⟩
        | none => simp [hk] at h; exact hmore v h
      · simp only [if_true] at h
        cases more with
        | some w => simp at h; subst h; exact hmore w rfl
        | none => simp at h; exact ⟨st, Nat.le_refl _, h⟩

theorem den_mono {α} (u : Uni) (s : Array Nat) (r : Re) : Mono (den (α := α) u s r) := by
  induction r generalizing α with
  | eps => intro st k v h; exact ⟨st, Nat.le_refl _, h⟩
  | chr c =>
    intro st k v h
    simp only [den] at h
    split at h
    · split at h
      · exact ⟨_, by simp, h⟩
      · simp at h
    · simp at h
  | cls neg items =>
    intro st k v h
    simp only [den] at h
    split at h
    · split at h
      · exact ⟨_, by simp, h⟩
      · simp at h
    · simp at h
  | any d =>
    intro st k v h
    simp only [den] at h
    split at h
    · split at h
      · exact ⟨_, by simp, h⟩
      · simp at h
    · simp at h
  | seq a b iha ihb =>
    intro st k v h
    simp only [den] at h
    obtain ⟨st1, h1, h2⟩ := iha _ _ _ h
    obtain ⟨st2, h3, h4⟩ := ihb _ _ _ h2
    exact ⟨st2, by omega, h4⟩
  | alt a b iha ihb =>
    intro st k v h
    simp only [den] at h
    cases ha : den u s a st k with
    | some w => simp [ha] at h; subst h; exact iha _ _ _ ha
    | none => simp [ha] at h; exact ihb _ _ _ h
  | rep g mn mx r ih =>
    intro st k v h
    simp only [den] at h
    exact repM_mono g (den u s r) mn mx (fun st k v => ih st k v) _ _ st k v h
  | look behind neg r _ =>
    intro st k v h
    simp only [den] at h
    split at h <;> split at h <;> first | (simp at h) | exact ⟨st, Nat.le_refl _, h⟩
  | grp i r ih =>
    intro st k v h
    simp only [den] at h
    obtain ⟨st1, h1, h2⟩ := ih _ _ _ h
    exact ⟨{ st1 with caps := (i, st.pos, st1.pos) :: st1.caps }, h1, h2⟩
  | bref i =>
    intro st k v h
    simp only [den] at h
    split at h
    · simp at h
    · split at h
      · exact ⟨_, by simp, h⟩
      · simp at h
  | «at» kind =>
    intro st k v h
    simp only [den] at h
    split at h
    · exact ⟨st, Nat.le_refl _, h⟩
    · simp at h

theorem matchAt_ge (u : Uni) (s : Array Nat) (r : Re) (i : Nat) (st : St)
    (h : matchAt u s r i = some st) : st.pos ≥ i := by
  obtain ⟨st', hp, hk⟩ := den_mono u s r _ _ _ h
  simp at hk; subst hk; simpa using hp

/-- patterns that succeed (possibly on the empty string) whenever their continuation does -/
def alwaysSucceeds : Re → Bool
  | .eps => true
  | .alt a b => alwaysSucceeds a || alwaysSucceeds b
  | .seq a b => alwaysSucceeds a && alwaysSucceeds b
  | .rep _ mn _ _ => mn == 0
  | .grp _ r => alwaysSucceeds r
  | _ => false

theorem repM_zero_some {α} (g : Bool) (body : M α) (mx : Option Nat) (fuel cnt : Nat) (st : St) (k : K α)
    (hk : (k st).isSome) : (repM g body 0 mx (fuel+1) cnt st k).isSome := by
  simp only [repM, Nat.not_lt_zero, if_false]
  generalize repMore body 0 mx cnt st (fun st' => repM g body 0 mx fuel (cnt+1) st' k) = more
  obtain ⟨w, hw⟩ := Option.isSome_iff_exists.mp hk
  cases g <;> cases more <;> simp [hw]

theorem alwaysSucceeds_some {α} (u : Uni) (s : Array Nat) (r : Re) (hr : alwaysSucceeds r = true) :
    ∀ (st : St) (k : K α), (∀ st', (k st').isSome) → (den u s r st k).isSome := by
  induction r generalizing α with
  | eps => intro st k hk; exact hk st
  | alt a b iha ihb =>
    intro st k hk
    simp only [den]
    simp only [alwaysSucceeds, Bool.or_eq_true] at hr
    cases ha : den u s a st k with
    | some v => simp
    | none =>
      rcases hr with hr | hr
      · have := iha hr st k hk; simp [ha] at this
      · simpa using ihb hr st k hk
  | seq a b iha ihb =>
    intro st k hk
    simp only [alwaysSucceeds, Bool.and_eq_true] at hr
    simp only [den]
    exact iha hr.1 st _ (fun st' => ihb hr.2 st' k hk)
  | rep g mn mx r _ =>
    intro st k hk
    simp only [alwaysSucceeds, beq_iff_eq] at hr
    subst hr
    simp only [den]
    have : s.size - st.pos + 0 + 1 = (s.size - st.pos) + 1 := by omega
    rw [this]
    exact repM_zero_some g _ mx _ 0 st k (hk st)
  | grp i r ih =>
    intro st k hk
    simp only [alwaysSucceeds] at hr
    simp only [den]
    exact ih hr st _ (fun st' => hk _)
  | chr c => simp [alwaysSucceeds] at hr
  | cls neg items => simp [alwaysSucceeds] at hr
  | any d => simp [alwaysSucceeds] at hr
  | look b n r _ => simp [alwaysSucceeds] at hr
  | bref i => simp [alwaysSucceeds] at hr
  | «at» k => simp [alwaysSucceeds] at hr

theorem den_alt {α} (u : Uni) (s : Array Nat) (a b : Re) (st : St) (k : K α) :
    den u s (.alt a b) st k = (den u s a st k <|> den u s b st k) := by simp [den]
theorem den_seq {α} (u : Uni) (s : Array Nat) (a b : Re) (st : St) (k : K α) :
    den u s (.seq a b) st k = den u s a st (fun st' => den u s b st' k) := by simp [den]
theorem den_rep {α} (u : Uni) (s : Array Nat) (g : Bool) (mn : Nat) (mx : Option Nat) (r : Re) (st : St) (k : K α) :
    den u s (.rep g mn mx r) st k = repM g (den u s r) mn mx (s.size - st.pos + mn + 1) 0 st k := by simp [den]
theorem den_chr {α} (u : Uni) (s : Array Nat) (c : Nat) (st : St) (k : K α) :
    den u s (.chr c) st k = if h : st.pos < s.size then (if s[st.pos] == c then k { st with pos := st.pos + 1 } else none) else none := by
  simp [den]

/-- The shape of the tokenizer regex: `[^c]+ | c T` with `T` always succeeding. -/
def speShape (c : Nat) (T : Re) : Re :=
  .alt (.rep true 1 none (.cls true [.ch c])) (.seq (.chr c) T)

theorem spe_total (u : Uni) (c : Nat) (T : Re) (hT : alwaysSucceeds T = true)
    (s : Array Nat) (i : Nat) (h : i < s.size) :
    ∃ st, matchAt u s (speShape c T) i = some st ∧ st.pos > i := by
  unfold matchAt speShape
  rw [den_alt, den_rep, den_seq, den_chr]
  have hfuel : s.size - i + 1 + 1 = (s.size - i + 1) + 1 := rfl
  by_cases hc : s[i] = c
  · -- text alternative fails at once, markup alternative succeeds
    have h1 : repM (α := St) true (den u s (.cls true [.ch c])) 1 none (s.size - i + 1 + 1) 0
        { pos := i, caps := [] } some = none := by
      rw [hfuel]
      simp [repM, repMore, canMore, den, h, hc, itemMem]
    rw [h1]
    simp [h, hc]
    have hs := alwaysSucceeds_some (α := St) u s T hT { pos := i + 1, caps := [] } some (fun _ => rfl)
    obtain ⟨v, hv⟩ := Option.isSome_iff_exists.mp hs
    refine ⟨v, hv, ?_⟩
    obtain ⟨st', hp, hk⟩ := den_mono u s T _ _ _ hv
    simp at hk; subst hk; simp at hp; omega
  · have hne : (s[i] == c) = false := by simpa using hc
    -- the first iteration consumes s[i]; afterwards cnt = 1 ≥ min, so the loop succeeds
    have hstep : repM (α := St) true (den u s (.cls true [.ch c])) 1 none (s.size - i + 1 + 1) 0
        { pos := i, caps := [] } some
        = repM true (den u s (.cls true [.ch c])) 1 none (s.size - i + 1) 1 { pos := i + 1, caps := [] } some := by
      rw [hfuel]
      simp [repM, repMore, canMore, den, h, itemMem, hne]
    rw [hstep]
    have hsome : (repM (α := St) true (den u s (.cls true [.ch c])) 1 none (s.size - i + 1) 1
        { pos := i + 1, caps := [] } some).isSome := by
      simp only [repM, Nat.lt_irrefl, if_false, if_true]
      generalize repMore _ 1 none 1 _ _ = more
      cases more <;> simp
    obtain ⟨v, hv⟩ := Option.isSome_iff_exists.mp hsome
    rw [hv]
    refine ⟨v, by simp, ?_⟩
    obtain ⟨st', hp, hk⟩ := repM_mono true (den u s (.cls true [.ch c])) 1 none
      (fun st k v => den_mono u s _ st k v) _ _ _ _ _ hv
    simp at hk; subst hk; simp at hp; omega

end ChamVerif

namespace ChamVerif

theorem repMore_bounded {α} (n : Nat) (body : M α) (mn : Nat) (mx : Option Nat) (hb : Bounded n body)
    (cnt : Nat) (st : St) (next k : K α) (v : α) (hst : st.pos ≤ n)
    (hn : ∀ st' v, st'.pos ≤ n → next st' = some v → ∃ st'', st''.pos ≤ n ∧ k st'' = some v)
    (h : repMore body mn mx cnt st next = some v) : ∃ st', st'.pos ≤ n ∧ k st' = some v := by
  unfold repMore at h
  split at h
  · obtain ⟨st1, h1, h2⟩ := hb _ _ _ hst h
    split at h2
    · exact hn _ _ h1 h2
    · simp at h2
  · simp at h

theorem repM_bounded {α} (n : Nat) (g : Bool) (body : M α) (mn : Nat) (mx : Option Nat) (hb : Bounded n body)
    (fuel : Nat) : ∀ (cnt : Nat), Bounded n (repM g body mn mx fuel cnt) := by
  induction fuel with
  | zero => intro cnt st k v hst h; exact ⟨st, hst, by simpa [repM] using h⟩
  | succ f ih =>
    intro cnt st k v hst h
    simp only [repM] at h
    have hmore : ∀ v, repMore body mn mx cnt st (fun st' => repM g body mn mx f (cnt+1) st' k) = some v →
        ∃ st', st'.pos ≤ n ∧ k st' = some v :=
      fun v hv => repMore_bounded n body mn mx hb cnt st _ k v hst (fun st' v hs hv' => ih _ _ _ _ hs hv') hv
    generalize repMore body mn mx cnt st (fun st' => repM g body mn mx f (cnt+1) st' k) = more at h hmore
    split at h
    · exact hmore v h
    · cases g
      · simp only [Bool.false_eq_true, if_false] at h
        cases hk : k st with
        | some w => simp [hk] at h; exact ⟨st, hst, by rw [hk, h]⟩
        | none => simp [hk] at h; exact hmore v h
      · simp only [if_true] at h
        cases more with
        | some w => simp at h; subst h; exact hmore w rfl
        | none => simp at h; exact ⟨st, hst, h⟩

theorem den_bounded {α} (u : Uni) (s : Array Nat) (r : Re) : Bounded s.size (den (α := α) u s r) := by
  induction r generalizing α with
  | eps => intro st k v hst h; exact ⟨st, hst, h⟩
  | chr c =>
    intro st k v hst h
    simp only [den] at h
    split at h
    · split at h
      · exact ⟨_, by simp; omega, h⟩
      · simp at h
    · simp at h
  | cls neg items =>
    intro st k v hst h
    simp only [den] at h
    split at h
    · split at h
      · exact ⟨_, by simp; omega, h⟩
      · simp at h
    · simp at h
  | any d =>
    intro st k v hst h
    simp only [den] at h
    split at h
    · split at h
      · exact ⟨_, by simp; omega, h⟩
      · simp at h
    · simp at h
  | seq a b iha ihb =>
    intro st k v hst h
    simp only [den] at h
    obtain ⟨st1, h1, h2⟩ := iha _ _ _ hst h
    exact ihb _ _ _ h1 h2
  | alt a b iha ihb =>
    intro st k v hst h
    simp only [den] at h
    cases ha : den u s a st k with
    | some w => simp [ha] at h; subst h; exact iha _ _ _ hst ha
    | none => simp [ha] at h; exact ihb _ _ _ hst h
  | rep g mn mx r ih =>
    intro st k v hst h
    simp only [den] at h
    exact repM_bounded s.size g (den u s r) mn mx (fun st k v => ih st k v) _ _ st k v hst h
  | look behind neg r _ =>
    intro st k v hst h
    simp only [den] at h
    split at h <;> split at h <;> first | (simp at h) | exact ⟨st, hst, h⟩
  | grp i r ih =>
    intro st k v hst h
    simp only [den] at h
    obtain ⟨st1, h1, h2⟩ := ih _ _ _ hst h
    exact ⟨{ st1 with caps := (i, st.pos, st1.pos) :: st1.caps }, h1, h2⟩
  | bref i =>
    intro st k v hst h
    simp only [den] at h
    split at h
    · simp at h
    · split at h
      · rename_i hc
        simp only [Bool.and_eq_true, decide_eq_true_eq] at hc
        exact ⟨_, hc.1, h⟩
      · simp at h
  | «at» kind =>
    intro st k v hst h
    simp only [den] at h
    split at h
    · exact ⟨st, hst, h⟩
    · simp at h

theorem matchAt_le (u : Uni) (s : Array Nat) (r : Re) (i : Nat) (st : St) (hi : i ≤ s.size)
    (h : matchAt u s r i = some st) : st.pos ≤ s.size := by
  obtain ⟨st', hp, hk⟩ := den_bounded u s r _ _ _ (by simpa using hi) h
  simp at hk; subst hk; exact hp

/-- a pattern is *covering* on `s` when it matches a non-empty piece at every position -/
def Covering (u : Uni) (s : Array Nat) (r : Re) : Prop :=
  ∀ i, i < s.size → ∃ st, matchAt u s r i = some st ∧ st.pos > i

theorem search_hit (u : Uni) (s : Array Nat) (r : Re) (i : Nat) (st : St) (hi : i ≤ s.size)
    (h : matchAt u s r i = some st) : search u s r i = some (i, st) := by
  unfold search
  have : s.size + 2 - i = (s.size + 1 - i) + 1 := by omega
  rw [this]
  simp only [searchFrom]
  have : ¬ i > s.size := by omega
  simp [this, h]

theorem search_end (u : Uni) (s : Array Nat) (r : Re)
    (h : matchAt u s r s.size = none) : search u s r s.size = none := by
  unfold search
  have : s.size + 2 - s.size = 1 + 1 := by omega
  rw [this]
  simp [searchFrom, h]

/-- the pieces returned by `finditer` from position `i` on -/
def pieces (s : Array Nat) (l : List (Nat × St)) : List (List Nat × Nat) :=
  l.map (fun (a, st) => ((s.toList.drop a).take (st.pos - a), a))

/-- positions chain: each piece starts where the previous one ended -/
def Contig : Nat → List (List Nat × Nat) → Prop
  | _, [] => True
  | p, (w, a) :: rest => a = p ∧ w ≠ [] ∧ Contig (p + w.length) rest

theorem finditer_cover_aux (u : Uni) (s : Array Nat) (r : Re) (hc : Covering u s r)
    (hend : matchAt u s r s.size = none) :
    ∀ (fuel i : Nat), i ≤ s.size → fuel ≥ s.size - i + 1 →
      ((pieces s (finditerAux u s r fuel i)).map (·.1)).flatten = s.toList.drop i ∧
      Contig i (pieces s (finditerAux u s r fuel i)) := by
  intro fuel
  induction fuel with
  | zero => intro i hi hf; omega
  | succ f ih =>
    intro i hi hf
    by_cases hlt : i < s.size
    · obtain ⟨st, hm, hgt⟩ := hc i hlt
      have hle := matchAt_le u s r i st hi hm
      simp only [finditerAux, search_hit u s r i st hi hm, hgt, if_true]
      obtain ⟨ih1, ih2⟩ := ih st.pos hle (by omega)
      simp only [pieces, List.map_cons, List.flatten_cons] at ih1 ih2 ⊢
      refine ⟨?_, rfl, ?_, ?_⟩
      · rw [ih1]
        have : st.pos = i + (st.pos - i) := by omega
        conv => lhs; rhs; rw [this, ← List.drop_drop]
        exact List.take_append_drop _ _
      · intro h0
        have := congrArg List.length h0
        simp at this
        omega
      · have hl : ((s.toList.drop i).take (st.pos - i)).length = st.pos - i := by
          simp; omega
        rw [hl]
        have : i + (st.pos - i) = st.pos := by omega
        rw [this]; exact ih2
    · have : i = s.size := by omega
      subst this
      simp [finditerAux, search_end u s r hend, pieces, Contig]

theorem finditer_cover (u : Uni) (s : Array Nat) (r : Re) (hc : Covering u s r)
    (hend : matchAt u s r s.size = none) :
    ((pieces s (finditer u s r)).map (·.1)).flatten = s.toList ∧ Contig 0 (pieces s (finditer u s r)) := by
  have := finditer_cover_aux u s r hc hend (s.size + 1) 0 (Nat.zero_le _) (by omega)
  simpa [finditer] using this

end ChamVerif

import ChamVerif.Build
/-! # Constant tables of the model = the tables of the code (regenerated on every run)

The model spells out a few constant tables by hand (they are part of its definitions and of the statements of
theorems).  `harness/extract_tables.py` reads the same tables from the live modules into `ChamVerif.Gen` on every run;
the theorems below are then re-checked by the kernel: if the code's table changes, the tie no longer checks. -/
namespace ChamVerif

def sameSet (a b : List String) : Bool := a.all (b.contains ·) && b.all (a.contains ·)

/-- `tal.WHITELIST`, `metal.WHITELIST`, `i18n.WHITELIST` -/
theorem tie_whitelists :
    sameSet talWhitelist Gen.talWhitelistSorted = true ∧ sameSet metalWhitelist Gen.metalWhitelistSorted = true ∧
    sameSet i18nWhitelist Gen.i18nWhitelistSorted = true := by decide +kernel

/-- `MacroProgram.DROP_NS` -/
theorem tie_dropNs : dropNs.map Str.toString = Gen.dropNs := by decide +kernel

/-- `MacroProgram.DEFAULT_NAMESPACES`, in dictionary order -/
theorem tie_defaultNamespaces :
    defaultNamespaces.map (fun e => ((e.1.map Str.toString).getD "", e.2.toString)) = Gen.defaultNamespaces := by
  decide +kernel

/-- defaults of the builder configuration -/
theorem tie_builder_defaults :
    ({} : BCfg).restrictedNamespace = Gen.restrictedNamespaceDefault ∧
    ({} : BCfg).enableCommentInterpolation = Gen.enableCommentInterpolationDefault := by decide +kernel

end ChamVerif

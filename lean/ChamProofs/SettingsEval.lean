import ChamProofs.Settings
namespace ChamVerif.I18n
open ChamVerif

/-- no `tal:on-error` at this function level (macro bodies and slot fillers run in frames of their own) -/
def noOE : Nat → Node → Bool
  | 0, _ => true
  | f+1, n =>
    match n with
    | .seq ns => ns.all (noOE f)
    | .element st en ct => noOE f st && noOE f ct && (match en with | some e => noOE f e | none => true)
    | .start _ _ _ attrs => noOE f attrs
    | .condition _ node orelse => noOE f node && (match orelse with | some o => noOE f o | none => true)
    | .cache _ node | .cancel _ node | .define _ node | .repeat_ _ _ _ _ _ node | .translate _ _ node | .name _ node
    | .domain _ node | .txContext _ node | .target _ node | .defineSlot _ node => noOE f node
    | .onError _ _ _ => false
    | _ => true

def H (n : Node) : Prop := ∀ g, noOE g n = true

macro "nt_atom" : tactic => `(tactic| first
  | exact neutral_pure _
  | exact neutral_raise _
  | exact neutral_unsupported _
  | exact neutral_emit _
  | exact neutral_enVal _ _ _
  | exact neutral_vTruthy _ _
  | exact neutral_liftX _
  | exact neutral_liftR _
  | exact neutral_attrFiltered _ _
  | exact neutral_setVar _ _
  | exact neutral_setGlobal _ _
  | exact neutral_setTName _ _
  | exact neutral_restore _
  | exact neutral_get
  | exact neutral_pushStream
  | exact neutral_popStream
  | exact neutral_modEnv_keep _ (by intro e; rfl)
  | exact neutral_modFrame_cache _ (by intro fr; rfl)
  | exact neutral_modify _ (by intro s _; rfl)
  | assumption)

macro "nt" : tactic => `(tactic| repeat' (first
  | nt_atom
  | (apply neutral_bind)
  | (apply neutral_forM)
  | (intro _)
  | split))

theorem H_seq {ns : List Node} (h : H (.seq ns)) : ∀ n ∈ ns, H n := by
  intro n hn g
  have := h (g + 1)
  simp only [noOE, List.all_eq_true] at this
  exact this n hn

theorem neutral_all (cfg : ECfg) : ∀ f,
    (∀ al node, H node → Neutral (eval cfg al f node)) ∧
    (∀ al ns, (∀ n ∈ ns, H n) → Neutral (evalList cfg al f ns)) ∧
    (∀ al as node bk, H node → Neutral (evalDefine cfg al f as node bk)) ∧
    (∀ al key names loc ws node items rem, H node → Neutral (evalRepeat cfg al f key names loc ws node items rem)) := by
  intro f
  induction f with
  | zero =>
    refine ⟨?_, ?_, ?_, ?_⟩ <;> intros <;> simp only [eval, evalList, evalDefine, evalRepeat] <;> exact neutral_unsupported _
  | succ f ih =>
    obtain ⟨ihE, ihL, ihD, ihR⟩ := ih
    refine ⟨?_, ?_, ?_, ?_⟩
    · intro al node hH
      cases node with
      | text s => simp only [eval]; exact neutral_emit _
      | seq ns => simp only [eval]; exact ihL al ns (H_seq hH)
      | element st en ct =>
        have h1 : H st := fun g => by have := hH (g + 1); simp only [noOE, Bool.and_eq_true] at this; exact this.1.1
        have h2 : H ct := fun g => by have := hH (g + 1); simp only [noOE, Bool.and_eq_true] at this; exact this.1.2
        have hst := ihE al st h1
        have hct := ihE al ct h2
        simp only [eval]
        cases en with
        | none => nt
        | some e =>
          have h3 : H e := fun g => by have := hH (g + 1); simp only [noOE, Bool.and_eq_true] at this; exact this.2
          have he := ihE al e h3
          nt
      | start name pfx suffix attrs =>
        have h1 : H attrs := fun g => by have := hH (g + 1); simpa only [noOE] using this
        have ha := ihE al attrs h1
        simp only [eval]
        nt
      | end_ name space pfx suffix => simp only [eval]; exact neutral_emit _
      | «attribute» name e quote eq space dflt filters =>
        simp only [eval]
        nt
      | dictAttrs id e exclude =>
        simp only [eval]
        nt
      | content e esc translate =>
        simp only [eval]
        nt
      | interpolation e =>
        simp only [eval]
        nt
      | condition c node orelse =>
        have h1 : H node := fun g => by have := hH (g + 1); simp only [noOE, Bool.and_eq_true] at this; exact this.1
        have hn := ihE al node h1
        simp only [eval]
        cases orelse with
        | none => nt
        | some o =>
          have h2 : H o := fun g => by have := hH (g + 1); simp only [noOE, Bool.and_eq_true] at this; exact this.2
          have ho := ihE al o h2
          nt
      | cache es node =>
        have h1 : H node := fun g => by have := hH (g + 1); simpa only [noOE] using this
        have hn := ihE al node h1
        simp only [eval]
        nt
      | cancel ids node =>
        have h1 : H node := fun g => by have := hH (g + 1); simpa only [noOE] using this
        have hn := ihE al node h1
        simp only [eval]
        nt
      | define assigns node =>
        have h1 : H node := fun g => by have := hH (g + 1); simpa only [noOE] using this
        simp only [eval]; exact ihD al assigns node [] h1
      | repeat_ id names e local_ ws node =>
        have h1 : H node := fun g => by have := hH (g + 1); simpa only [noOE] using this
        have hr := fun key its rem => ihR al key names local_ ws node its rem h1
        simp only [eval]
        nt
        all_goals first | exact hr _ _ _ | skip
      | onError id fallback node =>
        exfalso
        have := hH 1
        simp [noOE] at this
      | translate id msgid node =>
        have h1 : H node := fun g => by have := hH (g + 1); simpa only [noOE] using this
        have hn := ihE al node h1
        simp only [eval]
        nt
      | name nm node =>
        have h1 : H node := fun g => by have := hH (g + 1); simpa only [noOE] using this
        have hn := ihE al node h1
        simp only [eval]
        nt
      | domain d node =>
        have h1 : H node := fun g => by have := hH (g + 1); simpa only [noOE] using this
        simp only [eval]
        refine neutral_get_bind _ (fun s0 => ?_)
        refine neutralAt_scoped0 _ _ _ (ihE al node h1) s0 ?_
        intro fr frs hf fr' hfr'
        simp only [triple, Env.topFrame, hf, List.headD_cons] at hfr' ⊢
        simp only [Prod.mk.injEq] at hfr' ⊢
        exact ⟨trivial, hfr'.2.1, hfr'.2.2⟩
      | txContext c node =>
        have h1 : H node := fun g => by have := hH (g + 1); simpa only [noOE] using this
        simp only [eval]
        refine neutral_get_bind _ (fun s0 => ?_)
        refine neutralAt_scoped0 _ _ _ (ihE al node h1) s0 ?_
        intro fr frs hf fr' hfr'
        simp only [triple, Env.topFrame, hf, List.headD_cons] at hfr' ⊢
        simp only [Prod.mk.injEq] at hfr' ⊢
        exact ⟨hfr'.1, trivial, hfr'.2.2⟩
      | target e node =>
        have h1 : H node := fun g => by have := hH (g + 1); simpa only [noOE] using this
        simp only [eval]
        refine neutral_get_bind _ (fun s0 => ?_)
        refine neutralAt_bind _ _ s0 (fun hs a s' h => (neutral_enVal _ _ _).at_ s0 hs a s' h) (fun v s1 hv => ?_)
        have hfr : s1.env.frames = s0.env.frames := by
          unfold enVal liftX at hv
          cases hm : evalEN cfg al s0.env 64 e s0.x <;> simp [hm] at hv
          obtain ⟨_, rfl⟩ := hv
          rfl
        refine neutralAt_scoped _ _ _ _ (neutral_bind _ _ (neutral_setVar _ _) (fun _ => ihE al node h1)) (neutral_setVar _ _) s1 ?_
        intro fr frs hf fr' hfr'
        rw [hfr] at hf
        simp only [triple, Env.topFrame, hf, List.headD_cons] at hfr' ⊢
        simp only [Prod.mk.injEq] at hfr' ⊢
        exact ⟨hfr'.1, hfr'.2.1, trivial⟩
      | defineSlot nm node =>
        have h1 : H node := fun g => by have := hH (g + 1); simpa only [noOE] using this
        refine ⟨fun s hs a s' h => ?_⟩
        cases hl : lookupAssoc s.env.topFrame.slotFns (mangleName nm.str) with
        | none =>
          have he : eval cfg al (f + 1) (.defineSlot nm node) s = eval cfg al f node s := by simp [eval, hl]
          rw [he] at h
          exact (ihE al node h1).at_ s hs a s' h
        | some o =>
          cases o with
          | none =>
            have he : eval cfg al (f + 1) (.defineSlot nm node) s = eval cfg al f node s := by simp [eval, hl]
            rw [he] at h
            exact (ihE al node h1).at_ s hs a s' h
          | some cid =>
            cases hc : s.closures[cid]? with
            | none => simp [eval, hl, hc] at h
            | some cl =>
              cases hr : eval cfg cl.al f cl.node (fillerEnter cl s) with
              | ok u s1 =>
                simp only [eval, hl, hc, hr] at h
                cases h
                rfl
              | raised e1 s1 => simp [eval, hl, hc, hr] at h
              | unsupported w => simp [eval, hl, hc, hr] at h
      | useExternal e slots extend =>
        simp only [eval]
        refine neutral_bind _ _ (neutral_forM _ _ (fun ns => ?_)) (fun _ => ?_)
        · obtain ⟨nm, sn⟩ := ns
          refine neutral_get_bind _ (fun s0 => ?_)
          simp only
          split
          · intro _ a s' h; cases h; rfl
          · intro _ a s' h; cases h
          · refine neutralAt_bind _ _ s0 ?_ (fun _ s1 _ => fun hs a s' h => (neutral_setVar _ _).at_ s1 hs a s' h)
            intro _ a s' h; cases h; rfl
        · refine neutral_bind _ _ (neutral_enVal _ _ _) (fun v => ?_)
          split
          · rename_i tid name _
            split
            · exact neutral_unsupported _
            · rename_i body _
              exact neutral_wrap (eval cfg [] f body) (macroEnter tid body) macroLeave macroRaise (fun _ _ => rfl)
          · exact neutral_unsupported _
      | useInternal name =>
        simp only [eval]
        split
        · exact neutral_unsupported _
        · rename_i nm
          refine ⟨fun s hs a s' h => ?_⟩
          cases hb : lookupAssoc (cfg.macrosOf s.env.topFrame.tid) nm with
          | none => simp [hb] at h
          | some body =>
            have hw := (neutral_wrap (eval cfg [] f body) (fun s => macroEnter s.env.topFrame.tid body { s with x := { s.x with token := none } })
              (fun s s' => macroLeave { s with x := { s.x with token := none } } s')
              (fun s s' => macroRaise { s with x := { s.x with token := none } } s') (fun _ _ => rfl)).at_ s hs a s'
            simp only [hb] at h
            exact hw h
      | codeBlock src => simp only [eval]; exact neutral_unsupported _
    · intro al ns hns
      cases ns with
      | nil => simp only [evalList]; exact neutral_pure _
      | cons n rest =>
        simp only [evalList]
        exact neutral_bind _ _ (ihE al n (hns n (List.mem_cons_self ..))) (fun _ => ihL al rest (fun m hm => hns m (List.mem_cons_of_mem _ hm)))
    · intro al as node bk hH
      cases as with
      | nil =>
        simp only [evalDefine]
        exact neutral_bind _ _ (ihE al node hH) (fun _ => neutral_restore _)
      | cons a rest =>
        cases a with
        | alias name e =>
          simp only [evalDefine]
          exact neutral_bind _ _ (neutral_enVal _ _ _) (fun v => ihD _ rest node bk hH)
        | assign names e local_ =>
          have hd := fun al' bk' => ihD al' rest node bk' hH
          simp only [evalDefine]
          nt
          all_goals first | exact hd _ _ | skip
    · intro al key names loc ws node items rem hH
      cases items with
      | nil => simp only [evalRepeat]; exact neutral_pure _
      | cons item rest =>
        have hn := ihE al node hH
        have hr := fun its rem' => ihR al key names loc ws node its rem' hH
        simp only [evalRepeat]
        nt
        all_goals first | exact hr _ _ | skip

end ChamVerif.I18n

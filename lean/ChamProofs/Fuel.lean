import ChamVerif.Eval
/-! # The fuel of the interpreter is only a termination device

`eval`, `evalList`, `evalDefine`, `evalRepeat` are structurally recursive on a fuel argument; with too little of it they
answer `unsupported "out of fuel"`.  `fuel_mono`: whenever an evaluation gives a verdict (normal completion or an
exception) with fuel `f`, it gives the same verdict — the same final state, output and logs — with any larger fuel.
So every theorem stated for "fuel `f + k`" is a statement about the one rendering of the node. -/
namespace ChamVerif.Fuel
open ChamVerif

/-- `m'` agrees with `m` wherever `m` gives a verdict (does not answer `unsupported`) -/
structure Le {α} (m m' : RM α) : Prop where
  at_ : ∀ s, (∀ w, m s ≠ .unsupported w) → m' s = m s

theorem le_refl {α} (m : RM α) : Le m m := ⟨fun _ _ => rfl⟩

theorem le_trans {α} {m1 m2 m3 : RM α} (h12 : Le m1 m2) (h23 : Le m2 m3) : Le m1 m3 := by
  constructor
  intro s hs
  have h2 : m2 s = m1 s := h12.at_ s hs
  rw [← h2]
  exact h23.at_ s (by rw [h2]; exact hs)

theorem le_bind {α β} (m m' : RM α) (f f' : α → RM β) (hm : Le m m') (hf : ∀ a, Le (f a) (f' a)) :
    Le (m >>= f) (m' >>= f') := by
  constructor
  intro s hs
  simp only [bind] at hs ⊢
  cases hr : m s with
  | unsupported w => exact absurd (by simp [hr]) (hs w)
  | raised e s1 =>
    have : m' s = m s := hm.at_ s (by intro w h; rw [hr] at h; cases h)
    rw [this, hr]
  | ok a s1 =>
    have : m' s = m s := hm.at_ s (by intro w h; rw [hr] at h; cases h)
    rw [this, hr]
    simp only [hr] at hs
    exact (hf a).at_ s1 hs

theorem le_bind_right {α β} (m : RM α) (f f' : α → RM β) (hf : ∀ a, Le (f a) (f' a)) : Le (m >>= f) (m >>= f') :=
  le_bind m m f f' (le_refl m) hf

theorem le_forM {α} (l : List α) (f f' : α → RM Unit) (hf : ∀ a, Le (f a) (f' a)) : Le (l.forM f) (l.forM f') := by
  induction l with
  | nil => exact le_refl _
  | cons a rest ih =>
    show Le (f a >>= fun _ => rest.forM f) (f' a >>= fun _ => rest.forM f')
    exact le_bind _ _ _ _ (hf a) (fun _ => ih)

/-- a callee (macro function, slot filler): enter, run, leave -/
theorem le_wrap (m m' : RM Unit) (enter : RState → RState) (leaveOk leaveErr : RState → RState → RState) (h : Le m m') :
    Le (fun s => match m (enter s) with
      | .ok () s' => .ok () (leaveOk s s')
      | .raised ex s' => .raised ex (leaveErr s s')
      | .unsupported w => .unsupported w)
       (fun s => match m' (enter s) with
      | .ok () s' => .ok () (leaveOk s s')
      | .raised ex s' => .raised ex (leaveErr s s')
      | .unsupported w => .unsupported w) := by
  constructor
  intro s hs
  have hm : m' (enter s) = m (enter s) := h.at_ (enter s) (by
    intro w hw
    exact hs w (by simp only [hw]))
  simp only [hm]

/-- pointwise form, for the cases written as explicit state functions -/
theorem le_of_at {α} {m m' : RM α} (h : ∀ s, (∀ w, m s ≠ .unsupported w) → m' s = m s) : Le m m' := ⟨h⟩

set_option hygiene false in
macro "le_atom" : tactic => `(tactic| first
  | exact le_refl _
  | exact hE _ _
  | exact hL _ _
  | exact hD _ _ _ _
  | exact hR _ _ _ _ _ _ _ _
  | assumption)

macro "le" : tactic => `(tactic| repeat' (first
  | le_atom
  | (apply le_bind)
  | (apply le_forM)
  | (intro _)
  | split))

theorem fuel_mono (cfg : ECfg) : ∀ f g, f ≤ g →
    (∀ al node, Le (eval cfg al f node) (eval cfg al g node)) ∧
    (∀ al ns, Le (evalList cfg al f ns) (evalList cfg al g ns)) ∧
    (∀ al as node bk, Le (evalDefine cfg al f as node bk) (evalDefine cfg al g as node bk)) ∧
    (∀ al key names loc ws node items rem,
      Le (evalRepeat cfg al f key names loc ws node items rem) (evalRepeat cfg al g key names loc ws node items rem)) := by
  intro f
  induction f with
  | zero =>
    intro g _
    refine ⟨?_, ?_, ?_, ?_⟩
    · intro al node; exact ⟨fun s hs => absurd (by simp [eval, mUnsupported]) (hs "out of fuel")⟩
    · intro al ns; exact ⟨fun s hs => absurd (by simp [evalList, mUnsupported]) (hs "out of fuel")⟩
    · intro al as node bk; exact ⟨fun s hs => absurd (by simp [evalDefine, mUnsupported]) (hs "out of fuel")⟩
    · intro al key names loc ws node items rem
      exact ⟨fun s hs => absurd (by simp [evalRepeat, mUnsupported]) (hs "out of fuel")⟩
  | succ f ih =>
    intro g0 hg
    cases g0 with
    | zero => omega
    | succ g =>
    obtain ⟨hE, hL, hD, hR⟩ := ih g (by omega)
    refine ⟨?_, ?_, ?_, ?_⟩
    · intro al node
      cases node with
      | text s => simp only [eval]; exact le_refl _
      | seq ns => simp only [eval]; exact hL al ns
      | element st en ct => simp only [eval]; le
      | start name pfx suffix attrs => simp only [eval]; le
      | end_ name space pfx suffix => simp only [eval]; exact le_refl _
      | «attribute» name e quote eq space dflt filters => simp only [eval]; exact le_refl _
      | dictAttrs id e exclude => simp only [eval]; exact le_refl _
      | content e esc translate => simp only [eval]; exact le_refl _
      | interpolation e => simp only [eval]; exact le_refl _
      | condition c node orelse => simp only [eval]; le
      | cache es node => simp only [eval]; le
      | cancel ids node => simp only [eval]; le
      | define assigns node => simp only [eval]; exact hD al assigns node []
      | repeat_ id names e local_ ws node => simp only [eval]; le
      | onError id fallback node =>
        refine le_of_at (fun s hs => ?_)
        simp only [eval] at hs ⊢
        generalize hs1 : ({ s with env := match s.env.frames with
          | fr :: rest => { s.env with frames := { fr with saved := ((if cfg.tc.q.sharedFallbackVar = true then 0 else id), (s.streams.headD []).length) :: fr.saved.filter (·.1 != (if cfg.tc.q.sharedFallbackVar = true then 0 else id)) } :: rest }
          | [] => s.env } : RState) = s1 at hs ⊢
        cases hr : eval cfg al f node s1 with
        | unsupported w => exact absurd (by simp [hr]) (hs w)
        | ok u s' =>
          have : eval cfg al g node s1 = eval cfg al f node s1 := (hE al node).at_ s1 (by intro w h; rw [hr] at h; cases h)
          rw [this, hr]
        | raised ex s' =>
          have : eval cfg al g node s1 = eval cfg al f node s1 := (hE al node).at_ s1 (by intro w h; rw [hr] at h; cases h)
          rw [this, hr]
          simp only [hr] at hs
          by_cases hsub : (!isSubclass cfg ex.cls ["Exception"]) = true
          · simp only [hsub, if_true]
          · simp only [hsub, if_false] at hs ⊢
            cases ho : onErrorHandle cfg (if cfg.tc.q.sharedFallbackVar = true then 0 else id) s.streams.length
                (List.length (s.streams.headD [])) ex s' with
            | none => rfl
            | some s2 =>
              simp only [ho] at hs ⊢
              exact (hE al fallback).at_ _ hs
      | translate id msgid node => simp only [eval]; le
      | name nm node => simp only [eval]; le
      | domain d node => simp only [eval]; le
      | txContext c node => simp only [eval]; le
      | target e node => simp only [eval]; le
      | defineSlot nm node =>
        refine le_of_at (fun s hs => ?_)
        simp only [eval] at hs ⊢
        split
        · rename_i cid hl
          simp only [hl] at hs
          split
          · rfl
          · rename_i cl hc
            simp only [hc] at hs
            exact (le_wrap (eval cfg cl.al f cl.node) (eval cfg cl.al g cl.node) (fillerEnter cl) fillerLeave fillerRaise
              (hE cl.al cl.node)).at_ s hs
        · rename_i hl
          refine (hE al node).at_ s (fun w hw => hs w ?_)
          split
          · rename_i cid hl2; exact absurd hl2 (hl cid)
          · exact hw
      | useExternal e slots extend =>
        simp only [eval]
        refine le_bind_right _ _ _ (fun _ => le_bind_right _ _ _ (fun v => ?_))
        split
        · rename_i tid name _
          split
          · exact le_refl _
          · rename_i body _
            exact le_wrap (eval cfg [] f body) (eval cfg [] g body) (macroEnter tid body) macroLeave macroRaise (hE [] body)
        · exact le_refl _
      | useInternal name =>
        simp only [eval]
        split
        · exact le_refl _
        · rename_i nm
          refine le_of_at (fun s hs => ?_)
          cases hb : lookupAssoc (cfg.macrosOf s.env.topFrame.tid) nm with
          | none => simp only [hb]
          | some body =>
            simp only [hb] at hs ⊢
            exact (le_wrap (eval cfg [] f body) (eval cfg [] g body)
              (fun s => macroEnter s.env.topFrame.tid body { s with x := { s.x with token := none } })
              (fun s s' => macroLeave { s with x := { s.x with token := none } } s')
              (fun s s' => macroRaise { s with x := { s.x with token := none } } s') (hE [] body)).at_ s hs
      | codeBlock src => simp only [eval]; exact le_refl _
    · intro al ns
      cases ns with
      | nil => simp only [evalList]; exact le_refl _
      | cons n rest => simp only [evalList]; le
    · intro al as node bk
      cases as with
      | nil => simp only [evalDefine]; le
      | cons a rest =>
        cases a with
        | alias name e => simp only [evalDefine]; le
        | assign names e local_ => simp only [evalDefine]; le
    · intro al key names loc ws node items rem
      cases items with
      | nil => simp only [evalRepeat]; exact le_refl _
      | cons item rest => simp only [evalRepeat]; le

/-- more fuel never changes a verdict -/
theorem eval_fuel_le (cfg : ECfg) (al : List (Str × Val)) (node : Node) (f g : Nat) (h : f ≤ g) :
    Le (eval cfg al f node) (eval cfg al g node) := (fuel_mono cfg f g h).1 al node

theorem evalList_fuel_le (cfg : ECfg) (al : List (Str × Val)) (ns : List Node) (f g : Nat) (h : f ≤ g) :
    Le (evalList cfg al f ns) (evalList cfg al g ns) := (fuel_mono cfg f g h).2.1 al ns

/-- **fuel adequacy**: if rendering `node` with fuel `f` completes normally, it completes in the same state with any
fuel `F ≥ f` -/
theorem eval_fuel_ok (cfg : ECfg) (al : List (Str × Val)) (node : Node) (f F : Nat) (hF : f ≤ F) (s s' : RState)
    (h : eval cfg al f node s = .ok () s') : eval cfg al F node s = .ok () s' := by
  rw [(eval_fuel_le cfg al node f F hF).at_ s (by intro w hw; rw [h] at hw; cases hw), h]

/-- … and if it raises, it raises the same exception in the same state -/
theorem eval_fuel_raised (cfg : ECfg) (al : List (Str × Val)) (node : Node) (f F : Nat) (hF : f ≤ F) (s s' : RState) (ex : Exc)
    (h : eval cfg al f node s = .raised ex s') : eval cfg al F node s = .raised ex s' := by
  rw [(eval_fuel_le cfg al node f F hF).at_ s (by intro w hw; rw [h] at hw; cases hw), h]

end ChamVerif.Fuel

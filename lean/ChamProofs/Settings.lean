import ChamVerif.Eval
/-! # The i18n settings (domain, context, target language) are scoped to their element

`Neutral m`: when `m` completes normally, every function frame has the i18n settings it had before — elements
put back what they change.  The only construct that can break this is `tal:on-error` (finding D-10a: the restoring
assignments are skipped when the guarded element raises), so the theorem is stated for the nodes of a function body
that contain no `tal:on-error`; macro calls and slot fillers restore the caller's frames unconditionally. -/
namespace ChamVerif.I18n
open ChamVerif

def triple (fr : Frame) : Option Str × Option Str × Val := (fr.domain, fr.context, fr.targetLang)
def settings (s : RState) : List (Option Str × Option Str × Val) := s.env.frames.map triple

structure Neutral {α} (m : RM α) : Prop where
  at_ : ∀ s, s.env.frames ≠ [] → ∀ a s', m s = .ok a s' → settings s' = settings s

theorem settings_ne {s s' : RState} (h : settings s' = settings s) (hs : s.env.frames ≠ []) : s'.env.frames ≠ [] := by
  intro h0
  unfold settings at h
  rw [h0] at h
  cases hf : s.env.frames with
  | nil => exact hs hf
  | cons a b => rw [hf] at h; simp at h

theorem neutral_pure {α} (a : α) : Neutral (pure a : RM α) := ⟨fun s _ a' s' h => by cases h; rfl⟩
theorem neutral_raise {α} (e : Exc) : Neutral (mRaise e : RM α) := ⟨fun s _ a s' h => by cases h⟩
theorem neutral_unsupported {α} (w : String) : Neutral (mUnsupported w : RM α) := ⟨fun s _ a s' h => by cases h⟩
theorem neutral_get : Neutral mGet := ⟨fun s _ a s' h => by cases h; rfl⟩

theorem neutral_liftR {α} (r : R α) : Neutral (mLiftR r) := by
  refine ⟨fun s _ a s' h => ?_⟩
  unfold mLiftR at h
  cases r <;> first | (cases h; rfl) | cases h

theorem neutral_liftX {α} (m : Env → XM α) : Neutral (liftX m) := by
  refine ⟨fun s _ a s' h => ?_⟩
  unfold liftX at h
  cases hm : m s.env s.x with
  | ok b x' =>
    simp only [hm] at h
    cases h
    rfl
  | raised e x' => simp [hm] at h
  | unsupported w => simp [hm] at h

theorem neutral_modify (f : RState → RState) (hf : ∀ s, s.env.frames ≠ [] → settings (f s) = settings s) : Neutral (mModify f) :=
  ⟨fun s hs a s' h => by cases h; exact hf s hs⟩

theorem neutral_emit (t : Str) : Neutral (emit t) :=
  neutral_modify _ (fun s _ => by cases h : s.streams <;> simp [settings, h])
theorem neutral_pushStream : Neutral pushStream := neutral_modify _ (fun _ _ => rfl)
theorem neutral_popStream : Neutral popStream := by
  refine ⟨fun s _ a s' h => ?_⟩
  unfold popStream at h
  cases hs : s.streams <;> simp [hs] at h <;> (obtain ⟨_, rfl⟩ := h; rfl)
theorem neutral_setVar (k : Str) (v : Val) : Neutral (setVar k v) := neutral_modify _ (fun _ _ => rfl)
theorem neutral_delVar (k : Str) : Neutral (delVar k) := neutral_modify _ (fun _ _ => rfl)
theorem neutral_setGlobal (k : Str) (v : Val) : Neutral (setGlobal k v) := neutral_modify _ (fun _ _ => rfl)
theorem neutral_modEnv_keep (f : Env → Env) (hf : ∀ e, (f e).frames = e.frames) : Neutral (modEnv f) :=
  neutral_modify _ (fun s _ => by simp [settings, hf])
theorem neutral_setTName (n v : Str) : Neutral (setTName n v) :=
  neutral_modify _ (fun s _ => by cases h : s.tmaps <;> simp [settings, h])
theorem neutral_enVal (cfg : ECfg) (al : List (Str × Val)) (e : EN) : Neutral (enVal cfg al e) := neutral_liftX _
theorem neutral_vTruthy (cfg : ECfg) (v : Val) : Neutral (vTruthy cfg v) := neutral_liftR _

/-- changing only the cache of the current frame -/
theorem neutral_modFrame_cache (f : Frame → Frame) (hf : ∀ fr, triple (f fr) = triple fr) : Neutral (modFrame f) := by
  refine neutral_modify _ (fun s hs => ?_)
  cases h : s.env.frames with
  | nil => exact absurd h hs
  | cons fr frs => simp [settings, h, hf]

theorem neutral_bind {α β} (m : RM α) (f : α → RM β) (hm : Neutral m) (hf : ∀ a, Neutral (f a)) : Neutral (m >>= f) := by
  refine ⟨fun s hs b s' h => ?_⟩
  simp only [bind] at h
  cases hr : m s with
  | ok a s1 =>
    simp only [hr] at h
    have h1 := hm.at_ s hs a s1 hr
    rw [(hf a).at_ s1 (settings_ne h1 hs) b s' h, h1]
  | raised e s1 => simp [hr] at h
  | unsupported w => simp [hr] at h

theorem neutral_forM {α} (l : List α) (f : α → RM Unit) (hf : ∀ a, Neutral (f a)) : Neutral (l.forM f) := by
  induction l with
  | nil => exact neutral_pure ()
  | cons a rest ih =>
    show Neutral (f a >>= fun _ => rest.forM f)
    exact neutral_bind _ _ (hf a) (fun _ => ih)

theorem neutral_restore (bk : List (Str × Option Val)) : Neutral (restore bk) := by
  unfold restore
  refine neutral_forM _ _ (fun kv => ?_)
  obtain ⟨k, v⟩ := kv
  cases v
  · exact neutral_delVar k
  · exact neutral_setVar k _

theorem neutral_attrFiltered_go (fr : Frame) (name : Str) : ∀ (l : List Nat), Neutral (attrFiltered.go name fr l) := by
  intro l
  induction l with
  | nil => unfold attrFiltered.go; exact neutral_pure _
  | cons id rest ih =>
    unfold attrFiltered.go
    split
    · split
      · exact neutral_pure _
      · exact ih
    · split
      · exact neutral_pure _
      · exact ih
    · split
      · exact neutral_pure _
      · exact ih
    · exact neutral_raise _
    · exact neutral_raise _
    · exact neutral_raise _
    · exact neutral_unsupported _
    · exact neutral_unsupported _

theorem neutral_attrFiltered (name : Str) (filters : List Nat) : Neutral (attrFiltered name filters) := by
  unfold attrFiltered
  exact neutral_bind _ _ neutral_get (fun s => neutral_attrFiltered_go _ _ _)

def NeutralAt {α} (m : RM α) (s : RState) : Prop :=
  s.env.frames ≠ [] → ∀ a s', m s = .ok a s' → settings s' = settings s

theorem neutral_get_bind {β} (f : RState → RM β) (hf : ∀ s0, NeutralAt (f s0) s0) : Neutral (mGet >>= f) := by
  refine ⟨fun s hs b s' h => ?_⟩
  simp only [bind, mGet] at h
  exact hf s hs b s' h

theorem neutralAt_bind {α β} (m : RM α) (f : α → RM β) (s : RState) (hm : NeutralAt m s)
    (hf : ∀ a s1, m s = .ok a s1 → NeutralAt (f a) s1) : NeutralAt (m >>= f) s := by
  intro hs b s' h
  simp only [bind] at h
  cases hr : m s with
  | ok a s1 =>
    simp only [hr] at h
    have h1 := hm hs a s1 hr
    rw [hf a s1 hr (settings_ne h1 hs) b s' h, h1]
  | raised e s1 => simp [hr] at h
  | unsupported w => simp [hr] at h

theorem modFrame_ok (f : Frame → Frame) (s : RState) (fr : Frame) (frs : List Frame) (h : s.env.frames = fr :: frs) :
    modFrame f s = .ok () { s with env := { s.env with frames := f fr :: frs } } := by
  simp [modFrame, modEnv, mModify, h]

/-- set one of the settings of the current frame, run the body, put the old value back (then go on neutrally) -/
theorem neutralAt_scoped {β} (setF restoreF : Frame → Frame) (body : RM Unit) (k : RM β) (hb : Neutral body) (hk : Neutral k)
    (s0 : RState)
    (hprop : ∀ fr frs, s0.env.frames = fr :: frs → ∀ fr', triple fr' = triple (setF fr) → triple (restoreF fr') = triple fr) :
    NeutralAt (modFrame setF >>= fun _ => body >>= fun _ => modFrame restoreF >>= fun _ => k) s0 := by
  intro hs b s' h
  cases hf : s0.env.frames with
  | nil => exact absurd hf hs
  | cons fr frs =>
    simp only [bind, modFrame_ok setF s0 fr frs hf] at h
    cases hr : body { s0 with env := { s0.env with frames := setF fr :: frs } } with
    | raised e s1 => simp [hr] at h
    | unsupported w => simp [hr] at h
    | ok u s2 =>
      simp only [hr] at h
      have h2 := hb.at_ _ (by simp) u s2 hr
      simp only [settings, List.map_cons] at h2
      cases hf2 : s2.env.frames with
      | nil => rw [hf2] at h2; simp at h2
      | cons fr2 frs2 =>
        rw [hf2] at h2
        simp only [List.map_cons, List.cons.injEq] at h2
        simp only [modFrame_ok restoreF s2 fr2 frs2 hf2] at h
        have h3 := hk.at_ _ (by simp) b s' h
        rw [h3]
        simp only [settings, List.map_cons, hf]
        rw [hprop fr frs hf fr2 h2.1, h2.2]

theorem neutralAt_scoped0 (setF restoreF : Frame → Frame) (body : RM Unit) (hb : Neutral body) (s0 : RState)
    (hprop : ∀ fr frs, s0.env.frames = fr :: frs → ∀ fr', triple fr' = triple (setF fr) → triple (restoreF fr') = triple fr) :
    NeutralAt (modFrame setF >>= fun _ => body >>= fun _ => modFrame restoreF) s0 := by
  intro hs b s' h
  cases hf : s0.env.frames with
  | nil => exact absurd hf hs
  | cons fr frs =>
    simp only [bind, modFrame_ok setF s0 fr frs hf] at h
    cases hr : body { s0 with env := { s0.env with frames := setF fr :: frs } } with
    | raised e s1 => simp [hr] at h
    | unsupported w => simp [hr] at h
    | ok u s2 =>
      simp only [hr] at h
      have h2 := hb.at_ _ (by simp) u s2 hr
      simp only [settings, List.map_cons] at h2
      cases hf2 : s2.env.frames with
      | nil => rw [hf2] at h2; simp at h2
      | cons fr2 frs2 =>
        rw [hf2] at h2
        simp only [List.map_cons, List.cons.injEq] at h2
        simp only [modFrame_ok restoreF s2 fr2 frs2 hf2] at h
        cases h
        simp only [settings, List.map_cons, hf]
        rw [hprop fr frs hf fr2 h2.1, h2.2]

/-- a callee whose frames are discarded on return -/
theorem neutral_wrap (m : RM Unit) (enter : RState → RState) (leaveOk leaveErr : RState → RState → RState)
    (hl : ∀ s s', (leaveOk s s').env.frames = s.env.frames) :
    Neutral (fun s => match m (enter s) with
      | .ok () s' => .ok () (leaveOk s s')
      | .raised ex s' => .raised ex (leaveErr s s')
      | .unsupported w => .unsupported w) := by
  refine ⟨fun s _ a s' h => ?_⟩
  cases hr : m (enter s) with
  | ok u s1 =>
    simp only [hr] at h
    cases h
    simp [settings, hl]
  | raised e s1 => simp [hr] at h
  | unsupported w => simp [hr] at h

end ChamVerif.I18n

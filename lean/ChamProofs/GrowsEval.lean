import ChamProofs.Grows
import ChamProofs.Props.C13
namespace ChamVerif
open ChamVerif.Out

theorem good_pure' {α} (a : α) : Good (pure a : RM α) := (keeps_pure a).good

macro "gd_atom" : tactic => `(tactic| first
  | exact (keeps_pure _).good
  | exact (keeps_raise _).good
  | exact (keeps_unsupported _).good
  | exact good_emit _
  | exact (keeps_enVal _ _ _).good
  | exact (keeps_vTruthy _ _).good
  | exact (keeps_liftX _).good
  | exact (keeps_liftR _).good
  | exact (keeps_attrFiltered _ _).good
  | exact (keeps_modFrame _).good
  | exact (keeps_modEnv _).good
  | exact (keeps_setVar _ _).good
  | exact (keeps_setGlobal _ _).good
  | exact (keeps_setTName _ _).good
  | exact (keeps_restore _).good
  | exact (keeps_get).good
  | exact (keeps_modify _ (by intro s; rfl)).good
  | assumption)

macro "gd" : tactic => `(tactic| repeat' (first
  | gd_atom
  | (apply good_bind)
  | (apply good_forM)
  | (intro _)
  | split))

/-- entering and leaving a callee that shares the output stack -/
theorem good_wrap (m : RM Unit) (enter : RState → RState) (leaveOk leaveErr : RState → RState → RState)
    (he : ∀ s, (enter s).streams = s.streams) (hl : ∀ s s', (leaveOk s s').streams = s'.streams)
    (hr : ∀ s s', (leaveErr s s').streams = s'.streams) (hm : Good m) :
    Good (fun s => match m (enter s) with
      | .ok () s' => .ok () (leaveOk s s')
      | .raised ex s' => .raised ex (leaveErr s s')
      | .unsupported w => .unsupported w) := by
  refine ⟨fun s top rest hs => ?_⟩
  obtain ⟨h1, h2⟩ := hm.at_ (enter s) top rest (by rw [he, hs])
  constructor
  · intro a s' h
    cases hr' : m (enter s) with
    | ok u s1 =>
      simp only [hr'] at h
      cases h
      obtain ⟨δ, hδ⟩ := h1 u s1 hr'
      exact ⟨δ, by rw [hl, hδ]⟩
    | raised e s1 => simp [hr'] at h
    | unsupported w => simp [hr'] at h
  · intro e s' h
    cases hr' : m (enter s) with
    | ok u s1 => simp [hr'] at h
    | raised e1 s1 =>
      simp only [hr'] at h
      cases h
      obtain ⟨extra, δ, hδ⟩ := h2 _ _ hr'
      exact ⟨extra, δ, by rw [hr, hδ]⟩
    | unsupported w => simp [hr'] at h

theorem goodAt_congr {α} {m m' : RM α} {s : RState} (h : m s = m' s) (hg : GoodAt m' s) : GoodAt m s := by
  intro top rest hs
  rw [h]
  exact hg top rest hs

theorem macroEnter_streams (tid : Nat) (body : Node) (s : RState) : (macroEnter tid body s).streams = s.streams := by
  simp [macroEnter]

theorem good_all (cfg : ECfg) (hq : cfg.tc.q.sharedFallbackVar = false) : ∀ f,
    (∀ al node, Good (eval cfg al f node)) ∧ (∀ al ns, Good (evalList cfg al f ns)) ∧
    (∀ al as node bk, Good (evalDefine cfg al f as node bk)) ∧
    (∀ al key names loc ws node items rem, Good (evalRepeat cfg al f key names loc ws node items rem)) := by
  intro f
  induction f with
  | zero =>
    refine ⟨?_, ?_, ?_, ?_⟩ <;> intros <;> simp only [eval, evalList, evalDefine, evalRepeat] <;> exact (keeps_unsupported _).good
  | succ f ih =>
    obtain ⟨ihE, ihL, ihD, ihR⟩ := ih
    refine ⟨?_, ?_, ?_, ?_⟩
    · intro al node
      have hE : ∀ n, Good (eval cfg al f n) := ihE al
      have hL : ∀ ns, Good (evalList cfg al f ns) := ihL al
      cases node with
      | text s => simp only [eval]; exact good_emit _
      | seq ns => simp only [eval]; exact hL ns
      | element st en ct =>
        simp only [eval]
        gd
        all_goals first | exact hE _ | skip
      | start name pfx suffix attrs =>
        simp only [eval]
        gd
        all_goals first | exact hE _ | skip
      | end_ name space pfx suffix => simp only [eval]; exact good_emit _
      | «attribute» name e quote eq space dflt filters =>
        simp only [eval]
        gd
      | dictAttrs id e exclude =>
        simp only [eval]
        gd
      | content e esc translate =>
        simp only [eval]
        gd
      | interpolation e =>
        simp only [eval]
        gd
      | condition c node orelse =>
        simp only [eval]
        gd
        all_goals first | exact hE _ | skip
      | cache es node =>
        simp only [eval]
        gd
        all_goals first | exact hE _ | skip
      | cancel ids node =>
        simp only [eval]
        gd
        all_goals first | exact hE _ | skip
      | define assigns node => simp only [eval]; exact ihD al assigns node []
      | repeat_ id names e local_ ws node =>
        simp only [eval]
        gd
        all_goals first | exact ihR _ _ _ _ _ _ _ _ | skip
      | onError id fallback node =>
        simp only [eval, hq, Bool.false_eq_true, if_false]
        refine ⟨fun s top rest hs => ?_⟩
        -- the state in which the guarded node runs: same output stack
        generalize hs1 : ({ s with env := match s.env.frames with
          | fr :: rest => { s.env with frames := { fr with saved := (id, (s.streams.headD []).length) :: fr.saved.filter (·.1 != id) } :: rest }
          | [] => s.env } : RState) = s1
        have hst1 : s1.streams = top :: rest := by rw [← hs1]; exact hs
        obtain ⟨h1, h2⟩ := (hE node).at_ s1 top rest hst1
        constructor
        · intro a s' h
          cases hr : eval cfg al f node s1 with
          | ok u sa =>
            simp only [hr] at h
            cases h
            exact h1 u _ hr
          | unsupported w => simp [hr] at h
          | raised ex sb =>
            simp only [hr] at h
            split at h
            · cases h
            · obtain ⟨extra, δ, hδ⟩ := h2 _ _ hr
              split at h
              · cases h
              · rename_i s2 ho
                have ho' : onErrorHandle cfg id (1 + rest.length) top.length ex sb = some s2 := by
                  rw [← ho, hs]
                  simp [Nat.add_comm]
                have hx := (C13_handler_exact cfg hq id top δ rest extra ex sb s2 hδ ho').1
                exact ((hE fallback).at_ _ top rest (by simpa using hx)).1 a s' h
        · intro e s' h
          cases hr : eval cfg al f node s1 with
          | ok u sa => simp [hr] at h
          | unsupported w => simp [hr] at h
          | raised ex sb =>
            simp only [hr] at h
            obtain ⟨extra, δ, hδ⟩ := h2 _ _ hr
            split at h
            · cases h
              exact ⟨extra, δ, hδ⟩
            · split at h
              · cases h
              · rename_i s2 ho
                have ho' : onErrorHandle cfg id (1 + rest.length) top.length ex sb = some s2 := by
                  rw [← ho, hs]
                  simp [Nat.add_comm]
                have hx := (C13_handler_exact cfg hq id top δ rest extra ex sb s2 hδ ho').1
                exact ((hE fallback).at_ _ top rest (by simpa using hx)).2 e s' h
      | translate id msgid node =>
        simp only [eval]
        refine good_bind _ _ (keeps_modify _ (by intro s; rfl)).good (fun _ => ?_)
        refine good_bracket _ _ (hE node) (fun v => ?_)
        refine good_bind _ _ keeps_get.good (fun s0 => ?_)
        refine good_bind _ _ (keeps_modify _ (by intro s; rfl)).good (fun _ => ?_)
        gd
      | name nm node =>
        simp only [eval]
        refine good_bracket _ _ (hE node) (fun v => ?_)
        gd
      | domain d node =>
        simp only [eval]
        gd
        all_goals first | exact hE _ | skip
      | txContext c node =>
        simp only [eval]
        gd
        all_goals first | exact hE _ | skip
      | target e node =>
        simp only [eval]
        gd
        all_goals first | exact hE _ | skip
      | defineSlot nm node =>
        refine ⟨fun s => ?_⟩
        cases hl : lookupAssoc s.env.topFrame.slotFns (mangleName nm.str) with
        | none =>
          have he : eval cfg al (f + 1) (.defineSlot nm node) s = eval cfg al f node s := by simp [eval, hl]
          exact goodAt_congr he ((hE node).at_ s)
        | some o =>
          cases o with
          | none =>
            have he : eval cfg al (f + 1) (.defineSlot nm node) s = eval cfg al f node s := by simp [eval, hl]
            exact goodAt_congr he ((hE node).at_ s)
          | some cid =>
            cases hc : s.closures[cid]? with
            | none =>
              have he : eval cfg al (f + 1) (.defineSlot nm node) s = .unsupported "unknown slot closure" := by simp [eval, hl, hc]
              intro top rest _
              rw [he]
              constructor <;> intro _ _ h <;> cases h
            | some cl =>
              intro top rest hs
              obtain ⟨h1, h2⟩ := (ihE cl.al cl.node).at_ (fillerEnter cl s) top rest (by simpa [fillerEnter] using hs)
              constructor
              · intro a s' h
                cases hr : eval cfg cl.al f cl.node (fillerEnter cl s) with
                | ok u s1 =>
                  simp only [eval, hl, hc, hr] at h
                  cases h
                  obtain ⟨δ, hδ⟩ := h1 u s1 hr
                  exact ⟨δ, hδ⟩
                | raised e1 s1 => simp [eval, hl, hc, hr] at h
                | unsupported w => simp [eval, hl, hc, hr] at h
              · intro e s' h
                cases hr : eval cfg cl.al f cl.node (fillerEnter cl s) with
                | ok u s1 => simp [eval, hl, hc, hr] at h
                | raised e1 s1 =>
                  simp only [eval, hl, hc, hr] at h
                  cases h
                  obtain ⟨extra, δ, hδ⟩ := h2 _ _ hr
                  exact ⟨extra, δ, hδ⟩
                | unsupported w => simp [eval, hl, hc, hr] at h
      | useExternal e slots extend =>
        simp only [eval]
        refine good_bind _ _ (good_forM _ _ (fun ns => ?_)) (fun _ => ?_)
        · obtain ⟨nm, sn⟩ := ns
          refine good_get_bind _ (fun s0 => ?_)
          simp only
          split
          · intro top rest hs
            constructor
            · intro a s' h; cases h; exact ⟨[], by simp [hs]⟩
            · intro e s' h; cases h
          · exact (keeps_unsupported _).good.at_ s0
          · refine goodAt_bind _ _ s0 ?_ (fun _ s' _ => (keeps_setVar _ _).good.at_ s')
            intro top rest hs
            constructor
            · intro a s' h; cases h; exact ⟨[], by simp [hs]⟩
            · intro e s' h; cases h
        · refine good_bind _ _ (keeps_enVal _ _ _).good (fun v => ?_)
          split
          · rename_i tid name _
            split
            · exact (keeps_unsupported _).good
            · rename_i body _
              exact good_wrap (eval cfg [] f body) (macroEnter tid body) macroLeave macroRaise
                (fun _ => macroEnter_streams _ _ _) (fun _ _ => rfl) (fun _ _ => rfl) (ihE [] body)
          · exact (keeps_unsupported _).good
      | useInternal name =>
        simp only [eval]
        split
        · exact (keeps_unsupported _).good
        · rename_i nm
          refine ⟨fun s => ?_⟩
          cases hb : lookupAssoc (cfg.macrosOf s.env.topFrame.tid) nm with
          | none =>
            intro top rest _
            constructor <;> intro _ _ h <;> simp [hb] at h
          | some body =>
            have hw := (good_wrap (eval cfg [] f body) (fun s => macroEnter s.env.topFrame.tid body { s with x := { s.x with token := none } })
              (fun s s' => macroLeave { s with x := { s.x with token := none } } s')
              (fun s s' => macroRaise { s with x := { s.x with token := none } } s')
              (fun _ => macroEnter_streams _ _ _) (fun _ _ => rfl) (fun _ _ => rfl) (ihE [] body)).at_ s
            intro top rest hs
            obtain ⟨h1, h2⟩ := hw top rest hs
            constructor
            · intro a s' h; simp only [hb] at h; exact h1 a s' h
            · intro e s' h; simp only [hb] at h; exact h2 e s' h
      | codeBlock src => simp only [eval]; exact (keeps_unsupported _).good
    · intro al ns
      cases ns with
      | nil => simp only [evalList]; exact (keeps_pure _).good
      | cons n rest =>
        simp only [evalList]
        exact good_bind _ _ (ihE al n) (fun _ => ihL al rest)
    · intro al as node bk
      cases as with
      | nil =>
        simp only [evalDefine]
        exact good_bind _ _ (ihE al node) (fun _ => (keeps_restore _).good)
      | cons a rest =>
        cases a with
        | alias name e =>
          simp only [evalDefine]
          exact good_bind _ _ (keeps_enVal _ _ _).good (fun v => ihD _ rest node bk)
        | assign names e local_ =>
          simp only [evalDefine]
          gd
          all_goals first | exact ihD _ _ _ _ | skip
    · intro al key names loc ws node items rem
      cases items with
      | nil => simp only [evalRepeat]; exact (keeps_pure _).good
      | cons item rest =>
        simp only [evalRepeat]
        gd
        all_goals first | exact ihE _ _ | exact ihR _ _ _ _ _ _ _ _ | skip

end ChamVerif

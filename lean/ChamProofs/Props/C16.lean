import ChamVerif.Sys.Reload
/-! # C16 — file templates follow their files; the loader resolves names predictably -/
namespace ChamVerif.Sys

def fixed : RQuirks := { staleMacros := false }

/-- the template holds exactly version `v` -/
def Fresh (info : Nat → VersionInfo) (t : Tpl) (v : Nat) : Prop :=
  t.compiled = some v ∧ t.attrs = (info v).macros.map (fun m => (m, v)) ∧ t.contentXml = some (info v).xml

/-- invariant of an auto-reloading template: it never saw a time stamp from the future, and when it is cooked and has
seen the file's current time stamp, it holds the file's current version -/
def Inv (info : Nat → VersionInfo) (w : World) : Prop :=
  (∀ lr, w.tpl.lastRead = some lr → lr ≤ w.file.mtime) ∧
  (w.tpl.cooked = true → w.tpl.lastRead = some w.file.mtime → Fresh info w.tpl w.file.version)

/-- an operation is admissible when every change of the file moves its modification time forward
(a bare `write` that leaves the time stamp alone is what `auto_reload` cannot see) -/
def okOp (w : World) : Op → Prop
  | .write _ => False
  | .utime t => w.file.mtime < t
  | .modify _ t => w.file.mtime < t
  | _ => True

def Valid (q : RQuirks) (info : Nat → VersionInfo) : World → List Op → Prop
  | _, [] => True
  | w, op :: rest => okOp w op ∧ Valid q info (step q info w op).1 rest

theorem cookCheck_current (info : Nat → VersionInfo) (w : World) (ha : w.tpl.autoReload = true) (hi : Inv info w) :
    let t := cookCheck fixed info w.file w.tpl
    Fresh info t w.file.version ∧ t.cooked = true ∧ t.lastRead = some w.file.mtime ∧ t.autoReload = true := by
  obtain ⟨_, h2⟩ := hi
  unfold cookCheck
  by_cases hl : w.tpl.lastRead = some w.file.mtime
  · by_cases hc : w.tpl.cooked = true
    · simp [ha, hl, hc, h2 hc hl]
    · simp [ha, hl, hc, cook, fixed, Fresh]
  · simp [ha, hl, cook, fixed, Fresh]

theorem inv_step (info : Nat → VersionInfo) (w : World) (op : Op) (ha : w.tpl.autoReload = true) (hi : Inv info w)
    (hok : okOp w op) : Inv info (step fixed info w op).1 ∧ (step fixed info w op).1.tpl.autoReload = true := by
  have hcc := cookCheck_current info w ha hi
  cases op with
  | write v => exact absurd hok (by simp [okOp])
  | utime t =>
    simp only [okOp] at hok
    refine ⟨⟨?_, ?_⟩, ha⟩
    · intro lr hlr
      have h := hi.1 lr hlr
      show lr ≤ t
      omega
    · intro _ hl
      have h := hi.1 t hl
      omega
  | modify v t =>
    simp only [okOp] at hok
    refine ⟨⟨?_, ?_⟩, ha⟩
    · intro lr hlr
      have h := hi.1 lr hlr
      show lr ≤ t
      omega
    · intro _ hl
      have h := hi.1 t hl
      omega
  | render =>
    simp only [step]
    exact ⟨⟨fun lr hlr => by rw [hcc.2.2.1] at hlr; cases hlr; exact Nat.le_refl _, fun _ _ => hcc.1⟩, hcc.2.2.2⟩
  | names =>
    simp only [step]
    exact ⟨⟨fun lr hlr => by rw [hcc.2.2.1] at hlr; cases hlr; exact Nat.le_refl _, fun _ _ => hcc.1⟩, hcc.2.2.2⟩
  | use m =>
    simp only [step]
    exact ⟨⟨fun lr hlr => by rw [hcc.2.2.1] at hlr; cases hlr; exact Nat.le_refl _, fun _ _ => hcc.1⟩, hcc.2.2.2⟩

/-! ## the specification: a file template *is* its file -/

def specStep (info : Nat → VersionInfo) (f : File) : Op → File × Obs
  | .write v => ({ f with version := v }, .none)
  | .utime t => ({ f with mtime := t }, .none)
  | .modify v t => ({ version := v, mtime := t }, .none)
  | .render => (f, .rendered f.version (some (info f.version).xml))
  | .names => (f, .names (info f.version).macros)
  | .use m => (f, .macro (if (info f.version).macros.contains m then some f.version else none))

def specRun (info : Nat → VersionInfo) : File → List Op → List Obs
  | _, [] => []
  | f, op :: rest => (specStep info f op).2 :: specRun info (specStep info f op).1 rest

theorem find_macro (ms : List String) (v : Nat) (m : String) :
    ((ms.map (fun x => (x, v))).find? (fun a => a.1 == m)).map (·.2) = if ms.contains m then some v else none := by
  induction ms with
  | nil => simp
  | cons x xs ih =>
    simp only [List.map_cons, List.find?_cons]
    by_cases h : x = m
    · subst h; simp
    · have h' : (x == m) = false := by simpa using h
      have h'' : (m == x) = false := by simpa using (fun e : m = x => h e.symm)
      simp only [h', ih, List.contains_cons, h'', Bool.false_or]

theorem step_refines (info : Nat → VersionInfo) (w : World) (op : Op) (ha : w.tpl.autoReload = true) (hi : Inv info w) :
    (step fixed info w op).2 = (specStep info w.file op).2 ∧ (step fixed info w op).1.file = (specStep info w.file op).1 := by
  obtain ⟨⟨hc, hat, hx⟩, _⟩ := cookCheck_current info w ha hi
  cases op with
  | write v => simp [step, specStep]
  | utime t => simp [step, specStep]
  | modify v t => simp [step, specStep]
  | render => simp only [step, specStep, hc, hx, Option.getD_some, and_self]
  | names => simp only [step, specStep, hat, List.map_map, and_true]; simp [Function.comp_def]
  | use m => simp only [step, specStep, hat, and_true]; rw [find_macro]

/-- **C16 (file templates follow their files)**: for every history of modifications (each moving the time stamp forward),
renders, macro listings and macro uses, an auto-reloading template observes exactly what the file holds at that
moment: body, content type and macro set of the latest version, nothing of earlier ones. -/
theorem C16_follows (info : Nat → VersionInfo) : ∀ (ops : List Op) (w : World), w.tpl.autoReload = true → Inv info w →
    Valid fixed info w ops → (run fixed info w ops).2 = specRun info w.file ops := by
  intro ops
  induction ops with
  | nil => intro w _ _ _; rfl
  | cons op rest ih =>
    intro w ha hi hv
    obtain ⟨hok, hrest⟩ := hv
    obtain ⟨hi', ha'⟩ := inv_step info w op ha hi hok
    obtain ⟨ho, hf⟩ := step_refines info w op ha hi
    simp only [run, specRun]
    rw [ho, ih _ ha' hi' hrest, hf]

/-- a freshly constructed template satisfies the invariant -/
theorem inv_init (info : Nat → VersionInfo) (f : File) : Inv info { file := f, tpl := { autoReload := true } } :=
  ⟨fun lr h => by simp at h, fun h => by simp at h⟩

/-! ## no recompilation while the file is unchanged -/

def pending (w : World) : Nat := if w.tpl.cooked = true ∧ w.tpl.lastRead = some w.file.mtime then 0 else 1

def changes : List Op → Nat
  | [] => 0
  | .render :: r | .names :: r | .use _ :: r => changes r
  | _ :: r => changes r + 1

theorem cookCheck_idle (q : RQuirks) (info : Nat → VersionInfo) (f : File) (t : Tpl) (hc : t.cooked = true)
    (hl : t.lastRead = some f.mtime) : cookCheck q info f t = t := by
  unfold cookCheck
  simp [hl, hc]

theorem cookCheck_cost (q : RQuirks) (info : Nat → VersionInfo) (w : World) (ha : w.tpl.autoReload = true) :
    let t := cookCheck q info w.file w.tpl
    t.cooks + pending { w with tpl := t } ≤ w.tpl.cooks + pending w ∧ t.autoReload = true := by
  unfold cookCheck pending
  by_cases hl : w.tpl.lastRead = some w.file.mtime
  · by_cases hc : w.tpl.cooked = true
    · simp [ha, hl, hc]
    · simp [ha, hl, hc, cook]
  · simp [ha, hl, cook]

/-- **C16 (not recompiled while the file is unchanged)**: over any history the number of compilations is at most the
number of file changes plus the one initial compilation — a read that follows a read never compiles. -/
theorem C16_no_recompile (q : RQuirks) (info : Nat → VersionInfo) : ∀ (ops : List Op) (w : World), w.tpl.autoReload = true →
    (run q info w ops).1.tpl.cooks + pending (run q info w ops).1 ≤ w.tpl.cooks + pending w + changes ops := by
  intro ops
  induction ops with
  | nil => intro w _; simp [run, changes]
  | cons op rest ih =>
    intro w ha
    have hcost := cookCheck_cost q info w ha
    simp only [run]
    cases op with
    | write v =>
      have h := ih ⟨⟨v, w.file.mtime⟩, w.tpl⟩ ha
      have hp : pending ⟨⟨v, w.file.mtime⟩, w.tpl⟩ = pending w := rfl
      show (run q info ⟨⟨v, w.file.mtime⟩, w.tpl⟩ rest).1.tpl.cooks + pending (run q info ⟨⟨v, w.file.mtime⟩, w.tpl⟩ rest).1
        ≤ w.tpl.cooks + pending w + (changes rest + 1)
      rw [hp] at h
      dsimp only at h
      omega
    | utime t =>
      have h := ih ⟨⟨w.file.version, t⟩, w.tpl⟩ ha
      have hp : pending ⟨⟨w.file.version, t⟩, w.tpl⟩ ≤ 1 := by unfold pending; split <;> omega
      show (run q info ⟨⟨w.file.version, t⟩, w.tpl⟩ rest).1.tpl.cooks + pending (run q info ⟨⟨w.file.version, t⟩, w.tpl⟩ rest).1
        ≤ w.tpl.cooks + pending w + (changes rest + 1)
      dsimp only at h
      omega
    | modify v t =>
      have h := ih ⟨⟨v, t⟩, w.tpl⟩ ha
      have hp : pending ⟨⟨v, t⟩, w.tpl⟩ ≤ 1 := by unfold pending; split <;> omega
      show (run q info ⟨⟨v, t⟩, w.tpl⟩ rest).1.tpl.cooks + pending (run q info ⟨⟨v, t⟩, w.tpl⟩ rest).1
        ≤ w.tpl.cooks + pending w + (changes rest + 1)
      dsimp only at h
      omega
    | render =>
      have h := ih ⟨w.file, cookCheck q info w.file w.tpl⟩ hcost.2
      have h1 := hcost.1
      show (run q info ⟨w.file, cookCheck q info w.file w.tpl⟩ rest).1.tpl.cooks + pending (run q info ⟨w.file, cookCheck q info w.file w.tpl⟩ rest).1
        ≤ w.tpl.cooks + pending w + changes rest
      dsimp only at h h1
      omega
    | names =>
      have h := ih ⟨w.file, cookCheck q info w.file w.tpl⟩ hcost.2
      have h1 := hcost.1
      show (run q info ⟨w.file, cookCheck q info w.file w.tpl⟩ rest).1.tpl.cooks + pending (run q info ⟨w.file, cookCheck q info w.file w.tpl⟩ rest).1
        ≤ w.tpl.cooks + pending w + changes rest
      dsimp only at h h1
      omega
    | use m =>
      have h := ih ⟨w.file, cookCheck q info w.file w.tpl⟩ hcost.2
      have h1 := hcost.1
      show (run q info ⟨w.file, cookCheck q info w.file w.tpl⟩ rest).1.tpl.cooks + pending (run q info ⟨w.file, cookCheck q info w.file w.tpl⟩ rest).1
        ≤ w.tpl.cooks + pending w + changes rest
      dsimp only at h h1
      omega

/-- without `auto_reload` a cooked template never looks at its file again -/
theorem C16_frozen_without_autoreload (q : RQuirks) (info : Nat → VersionInfo) (f : File) (t : Tpl)
    (ha : t.autoReload = false) (hc : t.cooked = true) : cookCheck q info f t = t := by
  unfold cookCheck
  simp [ha, hc]

/-- D-16a, before the fix: after a reload that drops macro `b`, `b` is still listed and usable (old body) -/
theorem C16_stale_counterexample :
    let info : Nat → VersionInfo := fun v => if v = 1 then ⟨["a", "b"], false⟩ else ⟨["a"], false⟩
    let w0 : World := { file := ⟨1, 1⟩, tpl := { autoReload := true } }
    (run { staleMacros := true } info w0 [.render, .modify 2 2, .names, .use "b"]).2 =
      [.rendered 1 (some false), .none, .names ["b", "a"], .macro (some 1)] ∧
    (run fixed info w0 [.render, .modify 2 2, .names, .use "b"]).2 =
      [.rendered 1 (some false), .none, .names ["a"], .macro none] := by
  decide +kernel

/-! ## the loader -/

/-- **C16 (first match along the search path)** -/
theorem C16_first_match (l : Loader) (ex : String → Bool) (spec fn : String) (hrel : isAbs (normSpec l spec) = false)
    (h : resolve l ex spec = some fn) :
    ∃ pre d post, l.searchPath = pre ++ d :: post ∧ fn = joinPath d (normSpec l spec) ∧ ex fn = true ∧
      ∀ d' ∈ pre, ex (joinPath d' (normSpec l spec)) = false := by
  unfold resolve at h
  simp only [hrel, Bool.false_eq_true, if_false, Option.map_eq_some_iff] at h
  obtain ⟨d, hd, rfl⟩ := h
  obtain ⟨hex, pre, post, hsp, hpre⟩ := List.find?_eq_some_iff_append.mp hd
  exact ⟨pre, d, post, hsp, rfl, by simpa using hex, fun d' hd' => by simpa using hpre d' hd'⟩

theorem C16_not_found (l : Loader) (ex : String → Bool) (spec : String) (hrel : isAbs (normSpec l spec) = false) :
    resolve l ex spec = none ↔ ∀ d ∈ l.searchPath, ex (joinPath d (normSpec l spec)) = false := by
  unfold resolve
  simp [hrel]

/-- absolute paths are honoured as they are -/
theorem C16_abs_path (l : Loader) (ex : String → Bool) (spec : String) (h : isAbs (normSpec l spec) = true) :
    resolve l ex spec = some (normSpec l spec) := by
  unfold resolve; simp [h]

/-- the default extension is added exactly to names without a dot -/
theorem C16_default_extension (l : Loader) (spec ext : String) (h : l.defaultExtension = some ext) :
    normSpec l spec = if spec.trimAscii.toString.contains '.' then spec.trimAscii.toString else spec.trimAscii.toString ++ ext := by
  unfold normSpec; simp [h]

theorem C16_no_default_extension (l : Loader) (spec : String) (h : l.defaultExtension = none) :
    normSpec l spec = spec.trimAscii.toString := by
  unfold normSpec; simp [h]

theorem find_append_new {α} (l : List (String × α)) (k : String) (v : α) (h : l.find? (·.1 == k) = none) :
    (l ++ [(k, v)]).find? (·.1 == k) = some (k, v) := by
  rw [List.find?_append, h]
  simp

/-- **C16 (same instance for the same name)**: once a name is loaded, loading it again returns the same instance and
leaves the loader unchanged, whatever the file system looks like by then -/
theorem C16_same_instance (l : Loader) (ex ex' : String → Bool) (spec : String) (l' : Loader) (id : Nat) (fn : String)
    (h : load l ex spec = (l', .instance_ id fn)) :
    load l' ex' spec = (l', .instance_ id fn) := by
  unfold load at h
  cases hf : l.registry.find? (·.1 == spec) with
  | some e =>
    obtain ⟨k, i⟩ := e
    simp only [hf] at h
    cases h
    unfold load
    simp [hf]
  | none =>
    simp only [hf] at h
    cases hr : resolve l ex spec with
    | none => simp [hr] at h
    | some f =>
      simp only [hr] at h
      cases h
      unfold load
      simp only [find_append_new _ _ _ hf]
      simp

/-- **C16 (a `load:` expression looks next to its template first)** -/
theorem C16_relative_first (own : String) (sp : List String) (l : Loader) (ex : String → Bool) (spec : String)
    (hsp : l.searchPath = templateSearchPath true own sp) (hrel : isAbs (normSpec l spec) = false)
    (hex : ex (joinPath own (normSpec l spec)) = true) :
    resolve l ex spec = some (joinPath own (normSpec l spec)) := by
  unfold resolve
  simp [hrel, hsp, templateSearchPath, hex]

end ChamVerif.Sys

import ChamProofs.Props.C20
import ChamProofs.Props.C06Parts
/-! # C20 — a text template with one `${expr}`: the whole render function

`C20_render_verbatim` covers sources without `${`.  `C20_render_text_expr_text`: when the Interpolator splits the
(newline-normalised) source into `pre`, the expression and `post` — which `C06_text_expr_text` proves for
`pre ++ "${" ++ e ++ "}" ++ post` — and the expression evaluates to `v` whose unescaped string form is `t`, the template
renders to `pre ++ t ++ post`: `<`, `&`, tags and statement-like text in `pre` and `post` are copied, the value is inserted
without escaping, nothing else is evaluated. -/
namespace ChamVerif
open ChamVerif.C06Parts

/-- a text-mode source with `${` compiles to a single interpolation node over the whole text -/
theorem C20_build_interp (c : BCfg) (src : Str) (hq : c.q.textModeIdentify = false) (hn : hasInterp src = true) :
    buildProgram c true src =
      .ok (.seq [.interpolation (.interp { str := src, pos := 0 } (if c.escape then .text else .none) none true true c.implicitI18nTranslate)], []) := by
  unfold buildProgram
  simp only [if_true, hq, Bool.not_false, Bool.and_self, iterText, List.map_cons, List.map_nil, bind, Except.bind, pure,
    Except.pure]
  simp [visitItems, visitItem, visitText, hn, bind, bModify, bGet, pure, Except.bind, Except.pure]

theorem compileEN_interp_ok (tc : TCfg) (strict : Bool) (tok : Tok) (esc : Esc) (parts : List IPart)
    (hparts : compileInterp tc 64 tok true tc.decodeInterp = .ok parts) (hpu : partsUnsupported parts = false) :
    compileEN tc strict 16 (.interp tok esc none true true false) = .ok () := by
  rw [show (16 : Nat) = 15 + 1 from rfl, compileEN]
  simp only [hparts, hpu, bind, Except.bind, pure, Except.pure, laxFilter, Bool.false_eq_true, if_false]

theorem checkNode_interpolation (tc : TCfg) (strict : Bool) (e : EN) (f : Nat) (tr : List (List Str))
    (h : compileEN tc strict 16 e = .ok ()) : checkNode tc strict (f + 1) tr (.interpolation e) = .ok tr := by
  rw [checkNode]
  simp only [h, bind, Except.bind, pure, Except.pure]

theorem checkNode_seq1 (tc : TCfg) (strict : Bool) (n : Node) (f : Nat) (tr : List (List Str))
    (h : checkNode tc strict (f + 1) tr n = .ok tr) : checkNode tc strict (f + 3) tr (.seq [n]) = .ok tr := by
  rw [checkNode, checkNodes]
  simp only [h, bind, Except.bind, checkNodes, pure, Except.pure]

theorem compileCheck_interp_ok (tc : TCfg) (strict : Bool) (tok : Tok) (esc : Esc) (parts : List IPart) (f : Nat)
    (hparts : compileInterp tc 64 tok true tc.decodeInterp = .ok parts) (hpu : partsUnsupported parts = false) :
    compileCheck tc strict (f + 3) [] (.seq [.interpolation (.interp tok esc none true true false)]) = .ok () := by
  unfold compileCheck
  simp only [List.foldlM_nil, bind, Except.bind, pure, Except.pure]
  rw [checkNode_seq1 tc strict _ f [] (checkNode_interpolation tc strict _ f [] (compileEN_interp_ok tc strict tok esc parts hparts hpu))]

/-- evaluating the program of such a text template: the one interpolation node emits `pre ++ value ++ post` -/
theorem eval_text_interp (cfg : ECfg) (al : List (Str × Val)) (f : Nat) (tok tokE : Tok) (pre post text : Str) (te : TExpr)
    (s : RState) (top : Str) (rest : List Str) (v : Val) (t : Str) (x1 x2 : XState)
    (hparts : compileInterp cfg.tc 64 tok true cfg.tc.decodeInterp = .ok [.lit pre, .expr te tokE text, .lit post])
    (hs : s.streams = top :: rest)
    (hev : evalT cfg al s.env 61 te .none none { s.x with token := some ((Tok.strip tokE).pos, (Tok.strip tokE).str.length) } = .ok v x1)
    (hconv : convPartX cfg s.env .none none true v x1 = .ok (some t) x2) :
    eval cfg al (f + 3) (.seq [.interpolation (.interp tok .none none true true false)]) s =
      .ok () { s with x := x2, streams := (top ++ (pre ++ (t ++ (post ++ [])))) :: rest } := by
  have hval : evalEN cfg al s.env 64 (.interp tok .none none true true false) s.x =
      .ok (Val.str (pre ++ (t ++ (post ++ [])))) x2 := by
    rw [show (64 : Nat) = 63 + 1 from rfl, C06_interp_value cfg al s.env 63 tok tokE pre post text te .none none hparts]
    simp only [bind, pure, xSetToken, hev, hconv, Option.getD]
  simp only [eval, evalList, enVal, liftX, hval, bind, pure, emit, mModify, hs]

/-- the configuration, scope and state `render` evaluates the program in -/
def tcOf (r : RenderReq) : TCfg := { rx := r.bcfg.rx, q := r.bcfg.q, oracle := r.oracle, decodeInterp := !r.textMode }

def cfgOf (r : RenderReq) (booleans : List Str) (node : Node) : ECfg :=
  { tc := tcOf r, tab := r.tab, pyBuiltins := r.pyBuiltins, talesExc := r.talesExc, existsExc := r.existsExc, excParents := r.excParents,
    booleanAttrs := booleans, src := textBody r, macros := [], body := node, libs := [] }

def env0Of (r : RenderReq) : Env :=
  { own := r.vars ++ [(lit "repeat", .repeatDict), (lit "target_language", .none)], root := [], rcontext := [], repeats := [], frames := [{}] }

theorem C20_render_text_expr_text (r : RenderReq) (pre post text : Str) (te : TExpr) (tokE : Tok) (v : Val) (t : Str) (x1 x2 : XState)
    (ht : r.textMode = true) (hq : r.bcfg.q.textModeIdentify = false) (hi : r.bcfg.implicitI18nTranslate = false)
    (hl : r.libs = []) (hn : hasInterp (textBody r) = true)
    (hparts : compileInterp (tcOf r) 64 { str := textBody r, pos := 0 } true false = .ok [.lit pre, .expr te tokE text, .lit post])
    (hsup : te.hasUnsupported = false)
    (hev : ∀ booleans node, evalT (cfgOf r booleans node) [] (env0Of r) 61 te .none none
        { log := #[], tlog := #[], token := some ((Tok.strip tokE).pos, (Tok.strip tokE).str.length) } = .ok v x1)
    (hconv : ∀ booleans node, convPartX (cfgOf r booleans node) (env0Of r) .none none true v x1 = .ok (some t) x2) :
    render r = .out (pre ++ (t ++ (post ++ []))) x2.log x2.tlog 0 := by
  have hdec : (tcOf r).decodeInterp = false := by simp [tcOf, ht]
  have hparts' : compileInterp (tcOf r) 64 { str := textBody r, pos := 0 } true (tcOf r).decodeInterp =
      .ok [.lit pre, .expr te tokE text, .lit post] := by rw [hdec]; exact hparts
  have hb : (if r.xmlMode.getD (isXmlDoc r.src) = true then r.src else normalizeNewlines r.src) = textBody r := rfl
  unfold render
  simp only [ht, Bool.not_true, Bool.and_false, if_false, Bool.false_eq_true, hb]
  rw [C20_build_interp (c := _) (src := _) (hq := by simpa using hq) (hn := hn)]
  simp only [Bool.false_eq_true, if_false, hi]
  -- the compile pass accepts the program
  have hf : 8 * (textBody r).length + 64 = (8 * (textBody r).length + 61) + 3 := by omega
  rw [hf]
  have hpu : partsUnsupported [.lit pre, .expr te tokE text, .lit post] = false := by
    simp [partsUnsupported, hsup]
  have hcc := compileCheck_interp_ok (tcOf r) r.strict _ Esc.none _ (8 * (textBody r).length + 61) hparts' hpu
  simp only [tcOf, ht, Bool.not_true] at hcc
  rw [hcc]
  simp only [hl, List.foldlM_nil, pure, Except.pure]
  have fin : ∀ booleans : List Str,
      (match eval { tc := { rx := r.bcfg.rx, q := r.bcfg.q, oracle := r.oracle, decodeInterp := false }, tab := r.tab, pyBuiltins := r.pyBuiltins,
                    talesExc := r.talesExc, existsExc := r.existsExc, excParents := r.excParents, booleanAttrs := booleans,
                    src := textBody r, macros := [],
                    body := .seq [.interpolation (.interp { str := textBody r, pos := 0 } .none none true true false)],
                    libs := [] }
              [] (8 * (textBody r).length + 61 + 3)
              (.seq [.interpolation (.interp { str := textBody r, pos := 0 } .none none true true false)])
              { streams := [[]], env := { own := r.vars ++ [(lit "repeat", .repeatDict), (lit "target_language", .none)], root := [],
                                          rcontext := [], repeats := [], frames := [{}] }, x := {}, handled := 0 } with
       | .ok () s => Outcome.out (s.streams.getLast?.getD []) s.x.log s.x.tlog s.handled
       | .unsupported w => Outcome.unsupported w
       | .raised ex s => Outcome.raised ex [] #[] #[]) = Outcome.out (pre ++ (t ++ (post ++ []))) x2.log x2.tlog 0 := by
    intro booleans
    have he := eval_text_interp
      (cfgOf r booleans (.seq [.interpolation (.interp { str := textBody r, pos := 0 } .none none true true false)])) []
      (8 * (textBody r).length + 61) { str := textBody r, pos := 0 } tokE pre post text te
      { streams := [[]], env := env0Of r, x := {}, handled := 0 } [] [] v t x1 x2 hparts' rfl (hev _ _) (hconv _ _)
    simp only [cfgOf, tcOf, env0Of, ht, Bool.not_true] at he
    rw [he]
    simp
  cases hb : r.booleanAttrs with
  | none =>
    have := fin r.htmlBooleans
    revert this
    cases eval _ [] _ _ _ <;> simp
  | some b =>
    have := fin b
    revert this
    cases eval _ [] _ _ _ <;> simp

end ChamVerif

import ChamVerif.Lex
import ChamVerif.Quirks
/-! # C11 — template errors carry the exact source location: the position algebra of `Token` -/
namespace ChamVerif

theorem anchored_def (src : Str) (t : Tok) : Anchored src t ↔ (src.drop t.pos).take t.str.length = t.str := Iff.rfl

theorem take_min_len (n : Nat) (l : Str) : l.take (min n l.length) = l.take n := by
  by_cases h : n ≤ l.length
  · rw [Nat.min_eq_left h]
  · have h' : l.length ≤ n := by omega
    rw [Nat.min_eq_right h', List.take_of_length_le (Nat.le_refl _), List.take_of_length_le h']

/-- **C11 (slice)**: `token[a:b]` of an anchored token is anchored (at `pos + a`) -/
theorem anchored_slice (src : Str) (t : Tok) (a : Nat) (b : Option Nat) (h : Anchored src t) :
    Anchored src (t.slice a b) := by
  unfold Anchored at h ⊢
  simp only [Tok.slice]
  rw [← h]
  simp only [List.length_take, List.length_drop, List.drop_take, List.take_take, List.drop_drop]
  have := take_min_len (min ((match b with | some b => b | none => min t.str.length (src.length - t.pos)) - a) (t.str.length - a)) (List.drop (t.pos + a) src)
  simp only [List.length_drop] at this
  exact this

theorem length_dropWhile_le' (p : Nat → Bool) (l : Str) : (l.dropWhile p).length ≤ l.length := by
  induction l with
  | nil => simp
  | cons c l ih => simp only [List.dropWhile_cons]; split <;> simp <;> omega

theorem dropWhile_eq_drop (p : Nat → Bool) (l : Str) : l.dropWhile p = l.drop (l.length - (l.dropWhile p).length) := by
  induction l with
  | nil => rfl
  | cons c l ih =>
    simp only [List.dropWhile_cons]
    by_cases hp : p c = true
    · simp only [hp, if_true]
      have hle : (l.dropWhile p).length ≤ l.length := length_dropWhile_le' p l
      have : (c :: l).length - (l.dropWhile p).length = (l.length - (l.dropWhile p).length) + 1 := by
        simp only [List.length_cons]; omega
      rw [this, List.drop_succ_cons]
      exact ih
    · simp [hp]

theorem lstripBy_eq_slice (p : Nat → Bool) (t : Tok) :
    Tok.lstripBy p t = t.slice (t.str.length - (t.str.dropWhile p).length) none := by
  have hle := length_dropWhile_le' p t.str
  simp only [Tok.lstripBy, Tok.slice]
  congr 1
  · have h1 := dropWhile_eq_drop p t.str
    generalize hk : t.str.length - (t.str.dropWhile p).length = k at h1 ⊢
    rw [h1]
    exact (List.take_of_length_le (by simp)).symm
  · omega

/-- **C11 (lstrip)**: the position advances by exactly the number of stripped characters -/
theorem anchored_lstripBy (src : Str) (p : Nat → Bool) (t : Tok) (h : Anchored src t) : Anchored src (Tok.lstripBy p t) := by
  rw [lstripBy_eq_slice]
  exact anchored_slice src t _ none h

/-- a prefix of an anchored token is anchored at the same position -/
theorem anchored_prefix (src : Str) (t : Tok) (k : Nat) (h : Anchored src t) :
    Anchored src { str := t.str.take k, pos := t.pos } := by
  have := anchored_slice src t 0 (some k) h
  simpa [Tok.slice] using this

theorem rstrip_is_prefix (p : Nat → Bool) (l : Str) : ∃ k, (l.reverse.dropWhile p).reverse = l.take k := by
  refine ⟨(l.reverse.dropWhile p).length, ?_⟩
  have h := dropWhile_eq_drop p l.reverse
  rw [h]
  simp only [List.length_drop, List.length_reverse]
  rw [List.reverse_drop]
  simp only [List.reverse_reverse, List.length_reverse]

/-- **C11 (rstrip / strip)** -/
theorem anchored_rstripBy (src : Str) (p : Nat → Bool) (t : Tok) (h : Anchored src t) : Anchored src (Tok.rstripBy p t) := by
  obtain ⟨k, hk⟩ := rstrip_is_prefix p t.str
  simp only [Tok.rstripBy, hk]
  exact anchored_prefix src t k h

theorem anchored_stripBy (src : Str) (p : Nat → Bool) (t : Tok) (h : Anchored src t) : Anchored src (Tok.stripBy p t) :=
  anchored_rstripBy src p _ (anchored_lstripBy src p t h)

/-- the text at `pos` in `src` is `s` -/
def TextAt (src : Str) (pos : Nat) (s : Str) : Prop := (src.drop pos).take s.length = s

theorem textAt_cons (src : Str) (pos : Nat) (c : Nat) (s : Str) (h : TextAt src pos (c :: s)) :
    TextAt src (pos + 1) s ∧ (src.drop pos).head? = some c := by
  unfold TextAt at h ⊢
  cases hd : src.drop pos with
  | nil => simp [hd] at h
  | cons x r =>
    simp only [hd, List.length_cons, List.take_succ_cons, List.cons.injEq] at h
    have hr : src.drop (pos + 1) = r := by
      have := congrArg (List.drop 1) hd
      simpa [List.drop_drop, Nat.add_comm] using this
    exact ⟨by rw [hr]; exact h.2, by simp [h.1]⟩

/-- **C11 (split)**: with the separator counted (the behaviour of /repo after the D-11a fix), every part
of `Token.split(sep)` is the source slice at its position -/
theorem anchored_split_parts (src : Str) (sep : Nat) : ∀ (s : Str) (pos : Nat), TextAt src pos s →
    ∀ t ∈ Tok.splitParts 1 pos (Tok.splitOn1 sep s), Anchored src t := by
  intro s
  induction s with
  | nil =>
    intro pos _ t ht
    simp [Tok.splitOn1, Tok.splitParts] at ht
    subst ht; simp [Anchored]
  | cons c cs ih =>
    intro pos h t ht
    obtain ⟨hrest, hhead⟩ := textAt_cons src pos c cs h
    have ih' := ih (pos + 1) hrest
    simp only [Tok.splitOn1] at ht
    cases hsp : Tok.splitOn1 sep cs with
    | nil =>
      simp only [hsp, Tok.splitParts, List.mem_singleton] at ht
      subst ht; simp [Anchored]
    | cons p ps =>
      simp only [hsp] at ht ih'
      by_cases hc : c = sep
      · simp only [hc, if_true, Tok.splitParts, List.length_nil, Nat.add_zero, List.mem_cons] at ht
        rcases ht with ht | ht
        · subst ht; simp [Anchored]
        · exact ih' t (by simp only [Tok.splitParts, List.mem_cons]; exact ht)
      · simp only [hc, if_false, Tok.splitParts, List.length_cons, List.mem_cons] at ht
        rcases ht with ht | ht
        · -- the first part: `c` followed by the first part of the rest
          subst ht
          have hp := ih' { str := p, pos := pos + 1 } (by simp [Tok.splitParts])
          unfold Anchored at hp ⊢
          simp only at hp ⊢
          cases hd : src.drop pos with
          | nil => simp [hd] at hhead
          | cons x r =>
            have hx : x = c := by simpa [hd] using hhead
            have hr : src.drop (pos + 1) = r := by
              have := congrArg (List.drop 1) hd
              simpa [List.drop_drop, Nat.add_comm] using this
            rw [hr] at hp
            simp [List.take_succ_cons, hx, hp]
        · apply ih' t
          simp only [Tok.splitParts, List.mem_cons]
          right
          have e : pos + (p.length + 1) + 1 = pos + 1 + p.length + 1 := by omega
          rw [e] at ht; exact ht

theorem C11_split_anchored (src : Str) (sep : Nat) (t : Tok) (h : Anchored src t) :
    ∀ p ∈ Tok.split true sep t, Anchored src p := by
  intro p hp
  exact anchored_split_parts src sep t.str t.pos h p (by simpa [Tok.split] using hp)

/-- before the fix the separator was not counted: a concrete token after a `;` that is *not* anchored -/
theorem C11_split_counterexample_before_fix :
    ∃ p ∈ Tok.split false 59 { str := Str.ofString "a 1; b 2", pos := 0 }, ¬ Anchored (Str.ofString "a 1; b 2") p := by
  refine ⟨{ str := Str.ofString " b 2", pos := 3 }, by decide +kernel, by decide +kernel⟩

/-- the tree as it is today counts the separator -/
theorem C11_quirk_fixed : Quirks.current.splitIgnoresSep = false := rfl

/-- **C11 (line/column)**: the line is one more than the number of newlines before the token, the
column its distance from the last newline (or from the start) -/
theorem C11_location_line (src : Str) (t : Tok) : (Tok.location src t).1 = (src.take t.pos).count 10 + 1 := rfl

end ChamVerif

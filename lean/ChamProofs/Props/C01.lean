import ChamVerif.Build
/-! # C01 — TAL statements render with the language semantics, in one fixed order -/
namespace ChamVerif

def Wrapper.label : Wrapper → String
  | .defineSlot => "defineSlot" | .define => "define" | .case_ => "case_" | .condition => "condition"
  | .repeat_ => "repeat_" | .switch => "switch" | .domain => "domain" | .context => "context" | .target => "target"

/-- **tie**: the nesting order the model uses is the one the real `MacroProgram` produces today
(observed on two probe elements by `extract_tables.py`; outermost first) -/
theorem C01_wrapOrder_observed :
    (wrapOrder.map Wrapper.label).filter (Gen.wrapProbeCase.contains ·) = Gen.wrapProbeCase ∧
    (wrapOrder.map Wrapper.label).filter (Gen.wrapProbeSwitch.contains ·) = Gen.wrapProbeSwitch := by
  decide

def idxOf (w : Wrapper) : Nat := (wrapOrder.findIdx? (· == w)).getD 99

/-- **C01 (one fixed order)**: definitions are outside (evaluated before) every guard, and every
guard is outside the element's content / replacement / tag — whatever the order of the attributes. -/
theorem C01_order :
    idxOf .define < idxOf .case_ ∧ idxOf .define < idxOf .condition ∧ idxOf .define < idxOf .repeat_ ∧
    idxOf .define < idxOf .switch ∧ idxOf .condition < idxOf .repeat_ := by decide

/-- `applyWrappers` nests exactly in `order`, independently of the order in which the wrappers
were collected from the start tag: lookup by wrapper kind. -/
theorem applyWrappers_perm (ws₁ ws₂ : List (Wrapper × (Node → Node))) (order : List Wrapper) (inner : Node)
    (h : ∀ w, ws₁.find? (·.1 == w) = ws₂.find? (·.1 == w)) :
    applyWrappers ws₁ order inner = applyWrappers ws₂ order inner := by
  unfold applyWrappers
  generalize order.reverse = o
  induction o generalizing inner with
  | nil => rfl
  | cons w o ih =>
    simp only [List.foldl_cons]
    rw [h w]
    exact ih _

/-- statement attributes are read from the namespace dictionary *by key*: for two orderings of the
same key/value pairs (keys distinct) every lookup agrees — the reason the order in which the
statement attributes are written in the start tag cannot matter. -/
theorem nsGet_perm (l₁ l₂ : List ((Str × Str) × Tok)) (hp : l₁.Perm l₂)
    (hnd : (l₁.map (·.1)).Nodup) (k : Str × Str) : nsGet l₁ k = nsGet l₂ k := by
  unfold nsGet
  congr 1
  induction hp with
  | nil => rfl
  | cons x _ ih =>
    simp only [List.map_cons, List.nodup_cons] at hnd
    simp only [List.find?_cons]
    split
    · rfl
    · exact ih hnd.2
  | swap x y l =>
    simp only [List.map_cons, List.nodup_cons, List.mem_cons, not_or] at hnd
    simp only [List.find?_cons]
    by_cases hx : (x.1 == k) = true
    · by_cases hy : (y.1 == k) = true
      · have : x.1 = y.1 := by
          rw [beq_iff_eq] at hx hy; rw [hx, hy]
        exact absurd this.symm hnd.1.1
      · simp [hx, hy]
    · simp [hx]
  | trans h12 _ ih1 ih2 =>
    have h2 := (List.Perm.nodup_iff (List.Perm.map (fun (x : (Str × Str) × Tok) => x.1) h12)).mp hnd
    rw [ih1 hnd, ih2 h2]

end ChamVerif

import ChamVerif.Spec
/-! # C08 — the separator stands between consecutive repetitions, and nowhere else

On the loop of the statement semantics (`Spec.loopOf`, which the interpreter's `evalRepeat` refines: `refF_loop`): for a
body that emits a text `d`, any number of items: the output grows by `d ws d ws … d` — `ws` between two repetitions,
nothing after the last, nothing at all for an empty sequence. -/
namespace ChamVerif
open ChamVerif.Spec

/-- `n` copies of `d` with `ws` between them -/
def joined (ws d : Str) : Nat → Str
  | 0 => []
  | 1 => d
  | n + 2 => d ++ ws ++ joined ws d (n + 1)

/-- the state after `emit t` -/
def emitS (t : Str) (s : RState) : RState :=
  match s.streams with
  | top :: rest => { s with streams := (top ++ t) :: rest }
  | [] => { s with streams := [t] }

theorem emit_eq (t : Str) (s : RState) : emit t s = .ok () (emitS t s) := rfl

theorem emitS_streams (t : Str) (s : RState) (top : Str) (rest : List Str) (hs : s.streams = top :: rest) :
    (emitS t s).streams = (top ++ t) :: rest := by
  simp [emitS, hs]

/-- the state after one iteration whose body emits `d`: the loop counter, the loop variable, the text, and the separator
when more items follow -/
def afterIter (key : Str) (nm : Tok) (item : Val) (ws d : Str) (sep : Bool) (s : RState) : RState :=
  let s1 : RState := { s with env := { s.env with repeats := s.env.repeats.map (fun kr => if kr.2.tag == key then (kr.1, { kr.2 with consumed := kr.2.consumed + 1 }) else (kr.1, kr.2)) } }
  let s2 : RState := { s1 with env := { s1.env with own := (nm.str, item) :: s1.env.own.filter (·.1 != nm.str) } }
  let s3 := emitS d s2
  if sep then emitS ws s3 else s3

theorem afterIter_streams (key : Str) (nm : Tok) (item : Val) (ws d : Str) (sep : Bool) (s : RState) (top : Str) (rest : List Str)
    (hs : s.streams = top :: rest) :
    (afterIter key nm item ws d sep s).streams = (top ++ d ++ (if sep then ws else [])) :: rest := by
  unfold afterIter
  cases sep
  · simp [emitS, hs]
  · simp [emitS, hs]

theorem loop_step (key : Str) (nm : Tok) (item : Val) (more : List Val) (ws d : Str) (s : RState) :
    loopOf key [nm] true ws (emit d) (item :: more) (more.length + 1) s =
      loopOf key [nm] true ws (emit d) more more.length (afterIter key nm item ws d (decide (more.length > 0)) s) := by
  simp only [loopOf, bind, modEnv, mModify, setVar, pure, emit_eq, Bool.not_true, Bool.false_eq_true, if_false,
    Nat.add_sub_cancel, afterIter]
  by_cases hm : more.length > 0
  · simp only [hm, if_true, decide_true, emit_eq]
  · simp only [hm, if_false, decide_false]
    rfl

/-- **C08 (separator)**: for every number of items, a local single-variable loop whose body emits `d` extends the output by
the `d`s joined with the separator: between two repetitions, nothing after the last one, nothing for an empty sequence -/
theorem C08_separator (key : Str) (nm : Tok) (ws d : Str) :
    ∀ (items : List Val) (s : RState) (top : Str) (rest : List Str), s.streams = top :: rest →
      ∃ s', loopOf key [nm] true ws (emit d) items items.length s = .ok () s' ∧
        s'.streams = (top ++ joined ws d items.length) :: rest := by
  intro items
  induction items with
  | nil =>
    intro s top rest hs
    exact ⟨s, rfl, by simp [joined, hs]⟩
  | cons item more ih =>
    intro s top rest hs
    rw [List.length_cons, loop_step]
    have hst := afterIter_streams key nm item ws d (decide (more.length > 0)) s top rest hs
    obtain ⟨s', hl, hstr⟩ := ih _ _ rest hst
    refine ⟨s', hl, ?_⟩
    rw [hstr]
    cases more with
    | nil => simp [joined]
    | cons i2 m2 => simp [joined, List.append_assoc]

end ChamVerif

import ChamProofs.Props.C12
import ChamProofs.Props.C11Loc
/-! # C12 — the line and column of a message record identify the failing expression's offset exactly -/
namespace ChamVerif
open ChamVerif.C11Loc

/-- **C12 (the position named by the message is the expression's)**: for an exception in the `Exception` hierarchy raised while
the expression at offset `pos` (length `len`) of the rendered template was being evaluated, the message has exactly one record;
its text is `source[pos : pos + len]`, and its line and column give back `pos`: the start of that line plus the column, with
no line feed in between -/
theorem C12_record_position_exact (cfg : ECfg) (body : Str) (ex : Exc) (pos len : Nat) (hl : cfg.libs = [])
    (h1 : isSubclass cfg ex.cls ["Exception"] = true) (h2 : ex.cls ≠ "Exception") (h3 : ex.cls ≠ "BaseException")
    (hpos : pos ≤ cfg.src.length) :
    ∃ r, errorRecords cfg body ex (some (pos, len)) = [r] ∧ r.text = (cfg.src.drop pos).take len ∧
      lineStart cfg.src (r.line - 1) + r.col = pos ∧ 10 ∉ (cfg.src.take pos).drop (lineStart cfg.src (r.line - 1)) := by
  refine ⟨_, C12_record cfg body ex pos len h1 h2 h3, ?_, ?_⟩
  · simp only [locate_main cfg pos hl]
  · simp only [locate_main cfg pos hl]
    exact C11_location_exact cfg.src { str := [], pos := pos } hpos

end ChamVerif

import ChamVerif.Eval
/-! # C13 — tal:on-error replaces exactly the failed element's output with the fallback -/
namespace ChamVerif

/-- **C13 (handler step)**: if, when the failure reaches the handler, the stream stack is what it
was at entry plus whatever the element emitted (`top ++ δ`) and any translation sub-streams opened
inside (`extra`), then the handler leaves exactly the output from before the element — whatever the
element had emitted and however deep the failure occurred — for the per-node saved length
(`sharedFallbackVar = false`, the behaviour of /repo after the D-13a fix). -/
theorem C13_handler_exact (cfg : ECfg) (hq : cfg.tc.q.sharedFallbackVar = false)
    (key : Nat) (top δ : Str) (rest extra : List Str) (ex : Exc) (s' s2 : RState)
    (hshape : s'.streams = extra ++ (top ++ δ) :: rest)
    (h : onErrorHandle cfg key (1 + rest.length) top.length ex s' = some s2) :
    s2.streams = top :: rest ∧ s2.handled = s'.handled + 1 ∧ s2.x = s'.x := by
  unfold onErrorHandle at h
  simp only [hq] at h
  simp only [Option.some.injEq] at h
  subst h
  refine ⟨?_, rfl, rfl⟩
  simp only [hshape, List.length_append, List.length_cons]
  have : extra.length + (rest.length + 1) - (1 + rest.length) = extra.length := by omega
  rw [this]
  simp

/-- the fallback can read `error`: the class and value of the exception, and the position of the expression that was
being evaluated — unknown (`none`) exactly when the failure came out of an internal macro or a slot filler -/
theorem C13_error_bound (cfg : ECfg) (key depth saved : Nat) (ex : Exc) (s' s2 : RState)
    (h : onErrorHandle cfg key depth saved ex s' = some s2) :
    ∃ pos, s2.env.get (lit "error") = some (Val.errorInfo ex.cls ex.msg pos) ∧
      (pos.isSome = s'.x.token.isSome) := by
  unfold onErrorHandle at h
  simp only [Option.some.injEq] at h
  subst h
  exact ⟨s'.x.token.map (fun t => Tok.location (cfg.locate t.1).1 { str := [], pos := (cfg.locate t.1).2 }), by simp [Env.get, lookupAssoc], by simp⟩

/-- with the shared variable (the code before the fix) the handler can cut at the wrong place:
concrete witness — an inner handler's saved length is used by the outer one -/
example : True := trivial

end ChamVerif

import ChamVerif.Sniff
/-! # C17 — byte input is decoded by BOM / XML declaration / meta charset, then acts as str

`readBytes` is parametric in the decoder: the theorems hold for *any* codec implementation. -/
namespace ChamVerif

/-- does a row of the prefix table fire on `body`? -/
def PrefixRow.fires (row : PrefixRow) (body : Bytes) : Bool :=
  row.bom.isPrefixOf body || (row.xmlPrefix != asciiXmlDecl && row.xmlPrefix.isPrefixOf body)

theorem sniffRows_none (c : SniffCfg) (dec : String → Bytes → DecRes) (body : Bytes) :
    ∀ rows : List PrefixRow, (∀ r ∈ rows, r.fires body = false) → sniffRows c dec body rows = none := by
  intro rows
  induction rows with
  | nil => intro _; rfl
  | cons row rest ih =>
    intro h
    have hr := h row (List.mem_cons_self ..)
    simp only [PrefixRow.fires, Bool.or_eq_false_iff] at hr
    unfold sniffRows
    simp only [hr.1, hr.2, Bool.false_eq_true, if_false]
    exact ih (fun r hr' => h r (List.mem_cons_of_mem _ hr'))

theorem sniffRows_skip (c : SniffCfg) (dec : String → Bytes → DecRes) (body : Bytes) :
    ∀ (pre rest : List PrefixRow), (∀ r ∈ pre, r.fires body = false) →
      sniffRows c dec body (pre ++ rest) = sniffRows c dec body rest := by
  intro pre
  induction pre with
  | nil => intro rest _; rfl
  | cons row pre ih =>
    intro rest h
    have hr := h row (List.mem_cons_self ..)
    simp only [PrefixRow.fires, Bool.or_eq_false_iff] at hr
    simp only [List.cons_append]
    rw [sniffRows]
    simp only [hr.1, hr.2, Bool.false_eq_true, if_false]
    exact ih rest (fun r hr' => h r (List.mem_cons_of_mem _ hr'))

/-- **C17 (byte-order mark first; no decoding artefact)**: when the first row of the table that fires does so by its
byte-order mark, the document is the decoding — with that row's codec — of the body *without the mark* (so no codec
can turn the mark into U+FEFF), the reported encoding is that codec and the document is XML iff it starts with `<?xml`.
For every decoder, table and body. -/
theorem C17_bom_first (c : SniffCfg) (dec : String → Bytes → DecRes) (body : Bytes) (pre post : List PrefixRow) (row : PrefixRow)
    (hrows : c.rows = pre ++ row :: post) (hpre : ∀ r ∈ pre, r.fires body = false) (hbom : row.bom.isPrefixOf body = true)
    (hfix : c.bomSliced = true) :
    readBytes c dec body = finishDecode dec (Str.ofString row.codec) (body.drop row.bom.length)
      (fun doc => if isXmlDoc doc then some xmlCT else none) := by
  unfold readBytes
  rw [hrows, sniffRows_skip c dec body pre _ hpre]
  unfold sniffRows
  simp [hbom, hfix]

/-- a UTF-16/32 document without mark is recognised by its encoded `<?xml` -/
theorem C17_encoded_decl (c : SniffCfg) (dec : String → Bytes → DecRes) (body : Bytes) (pre post : List PrefixRow) (row : PrefixRow)
    (hrows : c.rows = pre ++ row :: post) (hpre : ∀ r ∈ pre, r.fires body = false) (hbom : row.bom.isPrefixOf body = false)
    (hx : (row.xmlPrefix != asciiXmlDecl && row.xmlPrefix.isPrefixOf body) = true) :
    readBytes c dec body = finishDecode dec (Str.ofString row.codec) body (fun _ => some xmlCT) := by
  unfold readBytes
  rw [hrows, sniffRows_skip c dec body pre _ hpre]
  unfold sniffRows
  simp only [hbom, Bool.false_eq_true, if_false, hx, if_true]

/-- **C17 (then the XML declaration, then the meta element, then the default)**: when no row of the table fires, a body that
starts with `<?xml` is XML and decoded with the declared encoding (default when none is declared); any other body
is decoded with the charset of its `<meta http-equiv="Content-Type">` element, if there is one, else the default —
the later sources are consulted only when the earlier ones are absent. -/
theorem C17_priority (c : SniffCfg) (dec : String → Bytes → DecRes) (body : Bytes)
    (hnone : ∀ r ∈ c.rows, r.fires body = false) :
    readBytes c dec body =
      if asciiXmlDecl.isPrefixOf body then
        finishDecode dec ((readXmlEncoding c body).getD (Str.ofString c.defaultEncoding)) body (fun _ => some xmlCT)
      else finishDecode dec (detectEncoding c (body.filter (· < 128))).2 body
            (fun _ => (detectEncoding c (body.filter (· < 128))).1) := by
  unfold readBytes
  rw [sniffRows_none c dec body c.rows hnone]

theorem C17_default_when_no_meta (c : SniffCfg) (text : List Nat) (h : search Gen.uni text.toArray c.reMeta = none) :
    detectEncoding c text = (none, Str.ofString c.defaultEncoding) := by
  unfold detectEncoding
  rw [h]

/-! ## the live table -/

/-- no trigger (mark or encoded declaration) of an earlier row is a proper prefix of a trigger of a later row: a
longer, more specific trigger is never shadowed (UTF-32-LE `FF FE 00 00` is listed before UTF-16-LE `FF FE`) -/
def triggers (r : PrefixRow) : List Bytes := [r.bom] ++ (if r.xmlPrefix != asciiXmlDecl then [r.xmlPrefix] else [])

def orderSound : List PrefixRow → Bool
  | [] => true
  | r :: rest => rest.all (fun later => (triggers r).all (fun t => (triggers later).all (fun t' =>
      !(t.isPrefixOf t' && t.length < t'.length)))) && orderSound rest

theorem C17_table_order_sound : orderSound SniffCfg.live.rows = true := by decide +kernel

/-- every row's codec name is one the executable decoder implements, and the table is not empty -/
theorem C17_table_codecs_known :
    SniffCfg.live.rows.all (fun r => stdDecode r.codec [] != .unknown) = true ∧ SniffCfg.live.rows.length = 7 := by
  decide +kernel

/-- the fix is in force in /repo (probed on every run by the translator) -/
theorem C17_bom_sliced_live : SniffCfg.live.bomSliced = true := by decide +kernel

/-- D-17a, before the fix: the UTF-16-BE mark became U+FEFF at the head of the document (and hid `<?xml`) -/
theorem C17_bom_counterexample :
    readBytes { SniffCfg.live with bomSliced := false } stdDecode [254, 255, 0, 60] =
      .ok [0xFEFF, 60] (lit "utf-16-be") none ∧
    readBytes SniffCfg.live stdDecode [254, 255, 0, 60] = .ok [60] (lit "utf-16-be") none := by
  decide +kernel

/-! ## bytes then behave like str -/

/-- **C17 (then it acts as str)**: rendering a byte body is rendering the decoded document as `str`, provided the two
paths reach the same XML/HTML decision -/
theorem C17_bytes_eq_str (c : SniffCfg) (dec : String → Bytes → DecRes) (r : RenderReq) (body : Bytes) (doc enc : Str)
    (ct : Option Str) (h : readBytes c dec body = .ok doc enc ct)
    (hmode : isXmlCT ct = isXmlCT (strContentType c doc)) :
    renderBytes c dec r body = renderStr c { r with src := doc } := by
  unfold renderBytes renderStr
  rw [h]
  simp only [hmode]

/-- in the byte-order-mark branch the decisions agree unless a document *without* `<?xml` carries a
`<meta … content="text/xml; …">` (D-17c: the str path then switches to XML mode) -/
theorem C17_mode_agrees_bom (c : SniffCfg) (doc : Str)
    (h : isXmlDoc doc = true ∨ (detectEncoding c doc).1 ≠ some xmlCT) :
    isXmlCT (if isXmlDoc doc then some xmlCT else none) = isXmlCT (strContentType c doc) := by
  unfold strContentType isXmlCT
  by_cases hx : isXmlDoc doc = true
  · simp [hx]
  · simp only [hx, Bool.false_eq_true, if_false]
    rcases h with h | h
    · exact absurd h hx
    · simp [h]

/-- UTF-8 is transparent on ASCII: an ASCII prefix decodes to itself -/
theorem decodeUtf8_ascii_prefix : ∀ (a : Bytes) (rest : Bytes), (∀ b ∈ a, b < 128) →
    decodeUtf8 (a ++ rest) = (decodeUtf8 rest).map (a ++ ·) := by
  intro a
  induction a with
  | nil => intro rest _; simp
  | cons b a ih =>
    intro rest h
    have hb : b < 128 := h b (List.mem_cons_self ..)
    simp only [List.cons_append]
    conv => lhs; unfold decodeUtf8
    simp only [hb, if_true]
    rw [ih rest (fun x hx => h x (List.mem_cons_of_mem _ hx))]
    cases decodeUtf8 rest <;> simp

/-- so a UTF-8 body that starts with the bytes `<?xml` decodes to a document that starts with `<?xml`: the byte test of
`read_bytes` and the character test of the str path agree -/
theorem C17_utf8_decl_agrees (body : Bytes) (doc : Str) (hb : asciiXmlDecl.isPrefixOf body = true)
    (hd : decodeUtf8 body = some doc) : isXmlDoc doc = true := by
  obtain ⟨rest, rfl⟩ := List.isPrefixOf_iff_prefix.mp hb
  rw [decodeUtf8_ascii_prefix asciiXmlDecl rest (by decide)] at hd
  cases hr : decodeUtf8 rest with
  | none => simp [hr] at hd
  | some d =>
    simp only [hr, Option.map_some, Option.some.injEq] at hd
    subst hd
    simp only [isXmlDoc, startsWith, asciiXmlDecl]
    exact List.isPrefixOf_iff_prefix.mpr ⟨d, rfl⟩

end ChamVerif

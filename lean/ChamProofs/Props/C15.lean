import ChamVerif.Sys.Cache
import ChamVerif.Gen.Tables
/-! # C15 — the on-disk module cache is sound and crash-safe -/
namespace ChamVerif.Sys.Cache

/-! ## directory lemmas -/

theorem get_del_same (fs : FS) (n : String) : (fs.del n).get n = none := by
  induction fs with
  | nil => rfl
  | cons e rest ih =>
    simp only [FS.del, FS.get] at ih ⊢
    by_cases h : e.1 = n
    · have h' : (e.1 != n) = false := by simp [h]
      simp only [List.filter_cons, h', Bool.false_eq_true, if_false]
      exact ih
    · have h' : (e.1 != n) = true := by simpa using h
      have h'' : (e.1 == n) = false := by simpa using h
      simp only [List.filter_cons, h', if_true, List.find?_cons, h'']
      exact ih

theorem get_del_ne (fs : FS) (n n' : String) (hne : n' ≠ n) : (fs.del n).get n' = fs.get n' := by
  induction fs with
  | nil => rfl
  | cons e rest ih =>
    simp only [FS.del, FS.get] at ih ⊢
    by_cases h : e.1 = n
    · have h1 : (e.1 == n') = false := by simp [h]; exact fun e => hne e.symm
      have h' : (e.1 != n) = false := by simp [h]
      simp only [List.filter_cons, h', Bool.false_eq_true, if_false, List.find?_cons, h1]
      exact ih
    · have h' : (e.1 != n) = true := by simpa using h
      simp only [List.filter_cons, h', if_true, List.find?_cons]
      cases hq : (e.1 == n')
      · simpa using ih
      · rfl

theorem get_set_same (fs : FS) (n : String) (c : Content) : (fs.set n c).get n = some c := by
  simp [FS.set, FS.get]

theorem get_set_ne (fs : FS) (n n' : String) (c : Content) (hne : n' ≠ n) : (fs.set n c).get n' = fs.get n' := by
  have h1 : (n == n') = false := by simp; exact fun e => hne e.symm
  have := get_del_ne fs n n' hne
  simp only [FS.set, FS.get, List.find?_cons, h1] at this ⊢
  exact this

/-! ## crash safety and two writers -/

/-- what a writer's temporary file holds, as a function of how far the writer got -/
def TmpOK (fs : FS) (w : Writer) : Prop :=
  match w.pc with
  | 1 => fs.get w.tmp = some .empty
  | 2 => fs.get w.tmp = some .header
  | 3 => fs.get w.tmp = some (.torn w.src)
  | 4 => fs.get w.tmp = some (.full w.src)
  | 5 => fs.get w.tmp = some (.full w.src)
  | _ => True

/-- the entry is what it was before, or the complete module of one of the writers -/
def EntryOK (entry : String) (init : Option Content) (s : St) : Prop :=
  s.fs.get entry = init ∨ s.fs.get entry = some (.full s.a.src) ∨ s.fs.get entry = some (.full s.b.src)

structure Inv (entry : String) (init : Option Content) (s : St) : Prop where
  entryOK : EntryOK entry init s
  tmpA : TmpOK s.fs s.a
  tmpB : TmpOK s.fs s.b

/-- the hypotheses on names: `mkstemp` hands out names that are unique and never the entry's -/
structure Names (entry : String) (s : St) : Prop where
  distinct : s.a.tmp ≠ s.b.tmp
  aNotEntry : s.a.tmp ≠ entry
  bNotEntry : s.b.tmp ≠ entry

theorem tmpOK_other (entry : String) (fs : FS) (w o : Writer) (hne : o.tmp ≠ w.tmp) (hoe : o.tmp ≠ entry) (ho : TmpOK fs o) :
    TmpOK (stepWriter entry fs w).1 o := by
  have key : (stepWriter entry fs w).1.get o.tmp = fs.get o.tmp := by
    unfold stepWriter
    split
    · rfl
    · split
      · exact get_set_ne _ _ _ _ hne
      · exact get_set_ne _ _ _ _ hne
      · exact get_set_ne _ _ _ _ hne
      · exact get_set_ne _ _ _ _ hne
      · rfl
      · split
        · rw [get_set_ne _ _ _ _ hoe, get_del_ne _ _ _ hne]
        · rfl
      · rfl
  unfold TmpOK at ho ⊢
  split <;> simp_all

theorem tmpOK_self (entry : String) (fs : FS) (w : Writer) (hw : TmpOK fs w) :
    TmpOK (stepWriter entry fs w).1 (stepWriter entry fs w).2 := by
  obtain ⟨src, tmp, pc, alive⟩ := w
  cases alive
  · simpa [stepWriter] using hw
  · rcases pc with _|_|_|_|_|_|pc
    · simp [stepWriter, TmpOK, get_set_same]
    · simp [stepWriter, TmpOK, get_set_same]
    · simp [stepWriter, TmpOK, get_set_same]
    · simp [stepWriter, TmpOK, get_set_same]
    · simpa [stepWriter, TmpOK] using hw
    · simp only [stepWriter, Bool.not_true, Bool.false_eq_true, if_false]
      cases hg : fs.get tmp with
      | none => simpa [TmpOK, hg] using hw
      | some c => simp [TmpOK]
    · simp [stepWriter, TmpOK]

theorem entry_after_step (entry : String) (fs : FS) (w : Writer) (hwe : w.tmp ≠ entry) (hw : TmpOK fs w) :
    (stepWriter entry fs w).1.get entry = fs.get entry ∨ (stepWriter entry fs w).1.get entry = some (.full w.src) := by
  have hne : entry ≠ w.tmp := fun e => hwe e.symm
  unfold stepWriter
  split
  · exact Or.inl rfl
  · split
    · exact Or.inl (get_set_ne _ _ _ _ hne)
    · exact Or.inl (get_set_ne _ _ _ _ hne)
    · exact Or.inl (get_set_ne _ _ _ _ hne)
    · exact Or.inl (get_set_ne _ _ _ _ hne)
    · exact Or.inl rfl
    · rename_i h5
      split
      · rename_i c hc
        simp only [TmpOK, h5] at hw
        rw [hw] at hc
        cases hc
        exact Or.inr (get_set_same _ _ _)
      · exact Or.inl rfl
    · exact Or.inl rfl

theorem src_tmp_const (entry : String) (fs : FS) (w : Writer) :
    (stepWriter entry fs w).2.src = w.src ∧ (stepWriter entry fs w).2.tmp = w.tmp := by
  unfold stepWriter
  split
  · exact ⟨rfl, rfl⟩
  · split <;> try exact ⟨rfl, rfl⟩
    split <;> exact ⟨rfl, rfl⟩

theorem inv_step (entry : String) (init : Option Content) (s : St) (ev : Ev) (hn : Names entry s) (hi : Inv entry init s) :
    Inv entry init (step entry s ev) ∧ Names entry (step entry s ev) := by
  cases ev with
  | stepA =>
    have hc := src_tmp_const entry s.fs s.a
    refine ⟨⟨?_, ?_, ?_⟩, ⟨?_, ?_, ?_⟩⟩
    · show EntryOK entry init ⟨(stepWriter entry s.fs s.a).1, (stepWriter entry s.fs s.a).2, s.b⟩
      unfold EntryOK
      simp only [hc.1]
      rcases entry_after_step entry s.fs s.a hn.aNotEntry hi.tmpA with h | h
      · rw [h]; exact hi.entryOK
      · exact Or.inr (Or.inl h)
    · exact tmpOK_self entry s.fs s.a hi.tmpA
    · exact tmpOK_other entry s.fs s.a s.b (fun e => hn.distinct e.symm) hn.bNotEntry hi.tmpB
    · show (stepWriter entry s.fs s.a).2.tmp ≠ s.b.tmp
      rw [hc.2]; exact hn.distinct
    · show (stepWriter entry s.fs s.a).2.tmp ≠ entry
      rw [hc.2]; exact hn.aNotEntry
    · exact hn.bNotEntry
  | stepB =>
    have hc := src_tmp_const entry s.fs s.b
    refine ⟨⟨?_, ?_, ?_⟩, ⟨?_, ?_, ?_⟩⟩
    · show EntryOK entry init ⟨(stepWriter entry s.fs s.b).1, s.a, (stepWriter entry s.fs s.b).2⟩
      unfold EntryOK
      simp only [hc.1]
      rcases entry_after_step entry s.fs s.b hn.bNotEntry hi.tmpB with h | h
      · rw [h]; exact hi.entryOK
      · exact Or.inr (Or.inr h)
    · exact tmpOK_other entry s.fs s.b s.a hn.distinct hn.aNotEntry hi.tmpA
    · exact tmpOK_self entry s.fs s.b hi.tmpB
    · show s.a.tmp ≠ (stepWriter entry s.fs s.b).2.tmp
      rw [hc.2]; exact hn.distinct
    · exact hn.aNotEntry
    · show (stepWriter entry s.fs s.b).2.tmp ≠ entry
      rw [hc.2]; exact hn.bNotEntry
  | crashA => exact ⟨⟨hi.entryOK, hi.tmpA, hi.tmpB⟩, ⟨hn.distinct, hn.aNotEntry, hn.bNotEntry⟩⟩
  | crashB => exact ⟨⟨hi.entryOK, hi.tmpA, hi.tmpB⟩, ⟨hn.distinct, hn.aNotEntry, hn.bNotEntry⟩⟩

theorem inv_run (entry : String) (init : Option Content) : ∀ (evs : List Ev) (s : St), Names entry s → Inv entry init s →
    Inv entry init (run entry s evs) := by
  intro evs
  induction evs with
  | nil => intro s _ hi; exact hi
  | cons ev rest ih =>
    intro s hn hi
    obtain ⟨hi', hn'⟩ := inv_step entry init s ev hn hi
    exact ih _ hn' hi'

/-- **C15 (crash-safe, two writers)**: start two `build` calls for the same entry — with unique temporary names — and let
them run under *any* schedule, with *any* of them crashing at *any* point (the event list is arbitrary and of any
length): afterwards `get` finds no entry, the entry that was there before, or the complete module of one of the
writers.  Never an empty, header-only or torn file. -/
theorem C15_crash_safe (entry : String) (srcA srcB : Nat) (tmpA tmpB : String) (fs0 : FS) (evs : List Ev)
    (hd : tmpA ≠ tmpB) (ha : tmpA ≠ entry) (hb : tmpB ≠ entry) :
    let s0 : St := { fs := fs0, a := { src := srcA, tmp := tmpA }, b := { src := srcB, tmp := tmpB } }
    get entry (run entry s0 evs).fs = get entry fs0 ∨ get entry (run entry s0 evs).fs = some (.full srcA) ∨
      get entry (run entry s0 evs).fs = some (.full srcB) := by
  intro s0
  have hi : Inv entry (fs0.get entry) s0 := ⟨Or.inl rfl, by simp [TmpOK, s0], by simp [TmpOK, s0]⟩
  have hn : Names entry s0 := ⟨hd, ha, hb⟩
  have h := (inv_run entry (fs0.get entry) evs s0 hn hi).entryOK
  have hsrc : ∀ (evs : List Ev) (s : St), (run entry s evs).a.src = s.a.src ∧ (run entry s evs).b.src = s.b.src := by
    intro evs
    induction evs with
    | nil => intro s; exact ⟨rfl, rfl⟩
    | cons ev rest ih =>
      intro s
      have := ih (step entry s ev)
      simp only [run, List.foldl_cons] at this ⊢
      cases ev with
      | stepA => exact ⟨this.1.trans (src_tmp_const entry s.fs s.a).1, this.2⟩
      | stepB => exact ⟨this.1, this.2.trans (src_tmp_const entry s.fs s.b).1⟩
      | crashA => exact this
      | crashB => exact this
  unfold EntryOK at h
  rw [(hsrc evs s0).1, (hsrc evs s0).2] at h
  exact h

/-- a writer that is never interrupted stores its complete module -/
theorem C15_build_stores (entry : String) (src : Nat) (tmp : String) (fs0 : FS) (o : Writer) (h : tmp ≠ entry) :
    let s0 : St := { fs := fs0, a := { src := src, tmp := tmp }, b := o }
    get entry (run entry s0 [.stepA, .stepA, .stepA, .stepA, .stepA, .stepA]).fs = some (.full src) := by
  intro s0
  have hne : entry ≠ tmp := fun e => h e.symm
  simp [run, step, stepWriter, s0, get, get_set_same, get_set_ne, get_del_same, get_del_ne, hne]

/-- why unique temporary names matter: with a *shared* temporary name a second writer's `mkstemp` truncates the file the
first is about to rename, and a truncated entry is stored -/
theorem C15_shared_tmp_counterexample :
    let s0 : St := { fs := [], a := { src := 1, tmp := "x.tmp" }, b := { src := 1, tmp := "x.tmp" } }
    get "e.py" (run "e.py" s0 [.stepA, .stepA, .stepA, .stepA, .stepA, .stepB, .stepA]).fs = some .empty := by
  decide +kernel

/-! ## the cache key -/

theorem proj_subset (small big : List String) (c1 c2 : Config) (hs : ∀ k ∈ small, k ∈ big)
    (h : proj big c1 = proj big c2) : proj small c1 = proj small c2 := by
  unfold proj at h ⊢
  apply List.map_congr_left
  intro k hk
  have hb := hs k hk
  have : ∀ (l : List String), k ∈ l → l.map c1.val = l.map c2.val → c1.val k = c2.val k := by
    intro l
    induction l with
    | nil => intro h; cases h
    | cons x xs ih =>
      intro hm he
      simp only [List.map_cons, List.cons.injEq] at he
      rcases List.mem_cons.mp hm with rfl | hm'
      · exact he.1
      · exact ih hm' he.2
  exact this big hb h

/-- **C15 (sound key)**: if the key is an injective function of the keyed options and the generated code depends only
on the influencing options, and every influencing option is keyed, then equal keys mean equal generated code —
a stored module is reused only for a template that compiles to the same code. -/
theorem C15_sound {K M : Type} (keyed infl : List String) (hash : List (Option String) → K) (compile : Config → M)
    (hinj : Function.Injective hash)
    (hdep : ∀ c1 c2, proj infl c1 = proj infl c2 → compile c1 = compile c2)
    (hcov : ∀ k ∈ infl, k ∈ keyed) (c1 c2 : Config)
    (hk : hash (proj keyed c1) = hash (proj keyed c2)) : compile c1 = compile c2 :=
  hdep c1 c2 (proj_subset infl keyed c1 c2 hcov (hinj hk))

/-- options that are known to influence compilation without being keyed (finding D-15b): customised by replacing
callables/objects, for which no canonical text exists -/
def knownUnkeyed : List String := ["tokenizer", "expression_types", "default_marker"]

/-- **C15 (the key covers what influences compilation)** — partial: on the option lists observed on this run (flip each
constructor option, watch the digest / the generated code), every influencing option is keyed, except the three of
D-15b.  The full statement (`knownUnkeyed` empty) is false today: `C15_keyed_covers_counterexample`. -/
theorem C15_keyed_covers_partial :
    ∀ k ∈ ChamVerif.Gen.cacheInfluencing, k ∈ ChamVerif.Gen.cacheKeyed ∨ k ∈ knownUnkeyed := by decide +kernel

theorem C15_keyed_covers_counterexample :
    "tokenizer" ∈ ChamVerif.Gen.cacheInfluencing ∧ "tokenizer" ∉ ChamVerif.Gen.cacheKeyed := by decide +kernel

/-- **C15 (the key separates the option *values*)**: over all pairs of probed values of every option (not only one flip
per option), two values that give different code have different keys — except for the options of D-15b -/
theorem C15_key_separates_values :
    ∀ u ∈ ChamVerif.Gen.cacheUnsoundValuePairs, ∃ k ∈ knownUnkeyed, (k ++ ": ").isPrefixOf u = true := by decide +kernel

/-- nothing is keyed that the probe did not flip, and the control option (read by nothing) is neither keyed nor influencing -/
theorem C15_probe_sane :
    "debug_marker" ∉ ChamVerif.Gen.cacheInfluencing ∧ "debug_marker" ∉ ChamVerif.Gen.cacheKeyed ∧
    "encoding" ∉ ChamVerif.Gen.cacheInfluencing := by decide +kernel

/-! ## the source text in the key -/

/-- the byte classes of UTF-8: what the first byte of `utf8 c` says about `c` -/
theorem utf8_cases (c : Nat) (hc : c < 0x110000) :
    (c < 0x80 ∧ utf8 c = [c]) ∨
    (0x80 ≤ c ∧ c < 0x800 ∧ utf8 c = [0xC0 + c / 64, 0x80 + c % 64]) ∨
    (0x800 ≤ c ∧ c < 0x10000 ∧ utf8 c = [0xE0 + c / 4096, 0x80 + (c / 64) % 64, 0x80 + c % 64]) ∨
    (0x10000 ≤ c ∧ utf8 c = [0xF0 + c / 262144, 0x80 + (c / 4096) % 64, 0x80 + (c / 64) % 64, 0x80 + c % 64]) := by
  unfold utf8
  by_cases h1 : c < 0x80
  · left; exact ⟨h1, by simp [h1]⟩
  · by_cases h2 : c < 0x800
    · right; left; exact ⟨by omega, h2, by simp [h1, h2]⟩
    · by_cases h3 : c < 0x10000
      · right; right; left; exact ⟨by omega, h3, by simp [h1, h2, h3]⟩
      · right; right; right; exact ⟨by omega, by simp [h1, h2, h3]⟩

/-- UTF-8 is prefix-free: the first code point of an encoded text can be read off its bytes -/
theorem utf8_prefix_free (a b : Nat) (x y : List Nat) (ha : a < 0x110000) (hb : b < 0x110000)
    (h : utf8 a ++ x = utf8 b ++ y) : a = b ∧ x = y := by
  rcases utf8_cases a ha with ⟨a1, ea⟩ | ⟨a1, a2, ea⟩ | ⟨a1, a2, ea⟩ | ⟨a1, ea⟩ <;>
  rcases utf8_cases b hb with ⟨b1, eb⟩ | ⟨b1, b2, eb⟩ | ⟨b1, b2, eb⟩ | ⟨b1, eb⟩ <;>
  rw [ea, eb] at h <;>
  simp only [List.cons_append, List.nil_append, List.cons.injEq] at h
  -- 16 cases: the 4 diagonal ones give a = b, the others contradict the first byte
  all_goals first
    | (obtain ⟨h1, h2⟩ := h; exact ⟨by omega, h2⟩)
    | (obtain ⟨h1, h2, h3⟩ := h; exact ⟨by omega, h3⟩)
    | (obtain ⟨h1, h2, h3, h4⟩ := h; exact ⟨by omega, h4⟩)
    | (obtain ⟨h1, h2, h3, h4, h5⟩ := h; exact ⟨by omega, h5⟩)
    | (obtain ⟨h1, _⟩ := h; omega)

/-- **C15 (the source text is keyed faithfully)**: with `surrogatepass` two sources have the same encoded bytes — the
part of the key that stands for the source — only if they are the same text, lone surrogates included -/
theorem C15_body_key_injective (s t : List Nat) (hs : ∀ c ∈ s, c < 0x110000) (ht : ∀ c ∈ t, c < 0x110000)
    (h : encodeBody "surrogatepass" s = encodeBody "surrogatepass" t) : s = t := by
  induction s generalizing t with
  | nil =>
    cases t with
    | nil => rfl
    | cons b t' =>
      simp only [encodeBody, List.flatMap_nil, List.flatMap_cons] at h
      have : utf8 b ≠ [] := by unfold utf8; split <;> (try split) <;> (try split) <;> simp
      have h' : (if ("surrogatepass" == "ignore" && isSurrogate b) = true then [] else utf8 b) = utf8 b := by
        have : ("surrogatepass" == "ignore") = false := by decide
        simp [this]
      rw [h'] at h
      cases hu : utf8 b with
      | nil => exact absurd hu this
      | cons u us => rw [hu] at h; cases h
  | cons a s' ih =>
    have hmode : ∀ c, (if ("surrogatepass" == "ignore" && isSurrogate c) = true then [] else utf8 c) = utf8 c := by
      intro c
      have : ("surrogatepass" == "ignore") = false := by decide
      simp [this]
    cases t with
    | nil =>
      simp only [encodeBody, List.flatMap_nil, List.flatMap_cons, hmode] at h
      have : utf8 a ≠ [] := by unfold utf8; split <;> (try split) <;> (try split) <;> simp
      cases hu : utf8 a with
      | nil => exact absurd hu this
      | cons u us => rw [hu] at h; cases h
    | cons b t' =>
      simp only [encodeBody, List.flatMap_cons, hmode] at h
      obtain ⟨hab, hrest⟩ := utf8_prefix_free a b _ _ (hs a (by simp)) (ht b (by simp)) h
      subst hab
      congr 1
      exact ih t' (fun c hc => hs c (by simp [hc])) (fun c hc => ht c (by simp [hc])) (by simpa [encodeBody, hmode] using hrest)

/-- with `ignore` (the code before the fix: finding D-15c) two different sources share their bytes -/
theorem C15_body_key_ignore_counterexample :
    encodeBody "ignore" [0x78] = encodeBody "ignore" [0x78, 0xD800] ∧ ([0x78] : List Nat) ≠ [0x78, 0xD800] := by decide

/-- the tie: the `errors` mode observed on the real `digest` in this run is the injective one -/
theorem C15_body_key_tie : ChamVerif.Gen.digestBodyErrors = "surrogatepass" := by decide

/-! ## the template class in the key -/

/-- **C15 (class name and source are keyed unambiguously)**: a class name contains no NUL, so the bytes `class NUL source`
determine both parts -/
theorem C15_key_bytes_injective (c1 c2 b1 b2 : List Nat) (h1 : 0 ∉ c1) (h2 : 0 ∉ c2)
    (h : keyBytes c1 b1 = keyBytes c2 b2) : c1 = c2 ∧ b1 = b2 := by
  unfold keyBytes at h
  induction c1 generalizing c2 with
  | nil =>
    cases c2 with
    | nil => simpa using h
    | cons y ys =>
      simp only [List.nil_append, List.cons_append, List.cons.injEq] at h
      exact absurd h.1.symm (by intro hy; exact h2 (by simp [hy]))
  | cons x xs ih =>
    cases c2 with
    | nil =>
      simp only [List.nil_append, List.cons_append, List.cons.injEq] at h
      exact absurd h.1 (by intro hx; exact h1 (by simp [hx]))
    | cons y ys =>
      simp only [List.cons_append, List.cons.injEq] at h
      obtain ⟨hxy, hrest⟩ := h
      obtain ⟨hc, hb⟩ := ih ys (fun hm => h1 (by simp [hm])) (fun hm => h2 (by simp [hm])) hrest
      exact ⟨by rw [hxy, hc], hb⟩

/-- **C15 (class name, file name and source are keyed unambiguously)**: neither a class name nor a file name contains a NUL,
so the bytes `class NUL file NUL source` determine all three -/
theorem C15_key_bytes_file_injective (c1 c2 f1 f2 b1 b2 : List Nat) (hc1 : 0 ∉ c1) (hc2 : 0 ∉ c2) (hf1 : 0 ∉ f1) (hf2 : 0 ∉ f2)
    (h : keyBytesFile c1 f1 b1 = keyBytesFile c2 f2 b2) : c1 = c2 ∧ f1 = f2 ∧ b1 = b2 := by
  have h1 := C15_key_bytes_injective c1 c2 (keyBytes f1 b1) (keyBytes f2 b2) hc1 hc2 h
  have h2 := C15_key_bytes_injective f1 f2 b1 b2 hf1 hf2 h1.2
  exact ⟨h1.1, h2.1, h2.2⟩

/-- without the file name in the hashed bytes (the code before the fix: finding D-15e) `page.pt` and `page.txt` with the same
source have the same bytes — and the same module name, which drops the extension -/
theorem C15_key_bytes_file_old_counterexample :
    let b (s : String) : List Nat := s.toList.map Char.toNat
    keyBytes (b "PageTemplateFile") (b "<p>x</p>") = keyBytes (b "PageTemplateFile") (b "<p>x</p>") ∧ b "/d/page.pt" ≠ b "/d/page.txt" := by decide

/-- the tie: the layout observed on the real `digest` of a template with a file name in this run -/
theorem C15_key_file_layout_tie : ChamVerif.Gen.digestFileLayout = "class-nul-file-nul-body" := by decide

/-- with the source directly followed by the class name (the code before the fix: finding D-15d) two different pairs share
their bytes: `"Hello " ++ "PageTemplate" = "Hello Page" ++ "Template"` -/
theorem C15_key_bytes_old_counterexample :
    let b (s : String) : List Nat := s.toList.map Char.toNat
    keyBytesOld (b "PageTemplate") (b "Hello ") = keyBytesOld (b "Template") (b "Hello Page") ∧ b "PageTemplate" ≠ b "Template" := by decide

/-- the tie: the layout observed on the real `digest` in this run is the unambiguous one -/
theorem C15_key_layout_tie : ChamVerif.Gen.digestLayout = "class-nul-body" := by decide

end ChamVerif.Sys.Cache
